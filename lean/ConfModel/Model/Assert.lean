/-
Model of the result assertion in `internal/app/connectconformance/results.go`:
`assert`, `checkError`, `checkPayloads`, `checkRequestInfo`, `checkHeaders`,
`canonicalizeHeaderVals`, `mergeHeaders`, over abstract result values.

* header values are `List Char` (Go indexes bytes; `,` and ` ` are ASCII, so splitting and
  trimming bytes of valid UTF-8 is splitting and trimming characters);
* protobuf messages inside `Any` (echoed requests, error details) are abstract values
  `(type tag, bytes)` whose equality stands for protobuf semantic equality
  (`cmp.Diff … protocmp.Transform()`); the harness builds real messages from them;
* every `fmt.Errorf` site is one constructor of `Discrepancy`, carrying the position the text
  carries.
Core Lean only.
-/
namespace ConfModel.Assert

abbrev Val := List Char

structure Header where
  name : String
  values : List Val
  deriving DecidableEq, Repr, Inhabited

/-- an abstract protobuf message packed in an `Any`: message type name and content -/
structure Msg where
  tag : String
  data : List UInt8
  deriving DecidableEq, Repr, Inhabited

/-- `ConformancePayload.RequestInfo` (a nil message reads as `ReqInfo.empty`) -/
structure ReqInfo where
  headers : List Header
  timeoutMs : Option Int
  requests : List Msg
  /-- `connect_get_info.query_params` (absent = empty: the code only looks at the length) -/
  queryParams : List Header
  deriving DecidableEq, Repr, Inhabited

def ReqInfo.empty : ReqInfo := { headers := [], timeoutMs := none, requests := [], queryParams := [] }

structure Payload where
  data : List UInt8
  reqInfo : Option ReqInfo
  deriving DecidableEq, Repr, Inhabited

/-- an error detail: a `RequestInfo` (compared with `checkRequestInfo`) or any other message -/
inductive Detail where
  | reqInfo (ri : ReqInfo)
  | other (m : Msg)
  deriving DecidableEq, Repr, Inhabited

structure Err where
  code : Nat
  message : Option String
  details : List Detail
  deriving DecidableEq, Repr, Inhabited

/-- `ClientResponseResult` -/
structure Result where
  headers : List Header
  payloads : List Payload
  error : Option Err
  trailers : List Header
  numUnsent : Nat
  httpStatus : Option Int
  deriving DecidableEq, Repr, Inhabited

inductive StreamType where
  | unspecified | unary | clientStream | serverStream | halfDuplexBidi | fullDuplexBidi
  deriving DecidableEq, Repr, Inhabited

/-- the `what` argument of `checkHeaders` -/
inductive What where
  | responseHeaders | responseTrailers | responseMetadata | requestHeaders | queryParams
  deriving DecidableEq, Repr, Inhabited

/-- one constructor per `fmt.Errorf` / `errors.New` site reachable with well-formed `Any`s;
positions are 1-based as printed -/
inductive Discrepancy where
  | unexpectedError            -- "received an unexpected error"
  | missingError               -- "expecting an error but received none"
  | code                       -- "does not match expected code"
  | message                    -- "does not match expected message"
  | detailCount                -- "actual error contain %d details; expecting %d"
  | detail (i : Nat)           -- "actual error detail #%d does not match expected error detail"
  | payloadCount               -- "expecting %d response messages but instead got %d"
  | payloadData (i : Nat)      -- "response #%d: expecting data"
  | headerMissing (w : What) (name : String)   -- "actual %s missing %q"
  | headerValues (w : What) (name : String)    -- "%s has incorrect values for %q"
  | timeoutMissing             -- "server did not echo back a timeout but one was expected"
  | timeoutRange               -- "server echoed back a timeout (%d ms) that did not match expected"
  | timeoutUnexpected          -- "server echoed back a timeout (%d ms) but none was expected"
  | requestCount               -- "expecting %d request messages to be described but instead got %d"
  | request (k : Nat)          -- "request #%d: did not survive round-trip"
  | status                     -- "actual HTTP status code does not match"
  deriving DecidableEq, Repr, Inhabited

/-! ### `canonicalizeHeaderVals` -/

/-- `strings.Split(val, ",")` -/
def splitComma : List Char → List (List Char)
  | [] => [[]]
  | c :: cs =>
    if c = ',' then [] :: splitComma cs
    else match splitComma cs with
      | [] => [[c]]
      | p :: ps => (c :: p) :: ps

/-- `if part != "" && part[0] == ' ' { part = part[1:] }` -/
def trimLead : List Char → List Char
  | ' ' :: r => r
  | p => p

/-- `if part != "" && part[len(part)-1] == ' ' { part = part[:len(part)-1] }` -/
def trimTrail (p : List Char) : List Char :=
  if p.getLast? = some ' ' then p.dropLast else p

/-- the loop over `parts`: `first` = (`i == 0`); the last part keeps its trailing space -/
def canonParts : Bool → List (List Char) → List (List Char)
  | _, [] => []
  | first, [p] => [if first then p else trimLead p]
  | first, p :: q :: rest => trimTrail (if first then p else trimLead p) :: canonParts false (q :: rest)

def canonVal (v : Val) : List Val := canonParts true (splitComma v)

/-- `canonicalizeHeaderVals` -/
def canon (vals : List Val) : List Val := vals.flatMap canonVal

/-! ### `checkHeaders`, `mergeHeaders` -/

/-- `strings.ToLower` (ASCII; the generator emits ASCII names only) -/
def lower (s : String) : String := String.ofList (s.toList.map Char.toLower)

/-- `actualHeaders[name]` after the map was filled in list order: the last entry wins -/
def lookupLast : List Header → String → Option (List Val)
  | [], _ => none
  | h :: t, n =>
    match lookupLast t n with
    | some v => some v
    | none => if lower h.name = n then some h.values else none

/-- body of the loop over `expected` in `checkHeaders` -/
def checkHeader (w : What) (act : List Header) (h : Header) : List Discrepancy :=
  match lookupLast act (lower h.name) with
  | none => [.headerMissing w (lower h.name)]
  | some av => if canon h.values = canon av then [] else [.headerValues w (lower h.name)]

def checkHeaders (w : What) (exp act : List Header) : List Discrepancy :=
  exp.flatMap (checkHeader w act)

/-- `mergedMap[k] = v` -/
def assign : List (String × List Val) → String → List Val → List (String × List Val)
  | [], n, v => [(n, v)]
  | (m, w) :: t, n, v => if m = n then (n, v) :: t else (m, w) :: assign t n v

/-- `mergedMap[k] = append(mergedMap[k], v...)` -/
def appendTo : List (String × List Val) → String → List Val → List (String × List Val)
  | [], n, v => [(n, v)]
  | (m, w) :: t, n, v => if m = n then (n, w ++ v) :: t else (m, w) :: appendTo t n v

/-- `mergeHeaders` (the order of the result is Go's map order; it is never observed) -/
def mergeHeaders (a b : List Header) : List Header :=
  let m1 := a.foldl (fun m h => assign m (lower h.name) h.values) []
  let m2 := b.foldl (fun m h => appendTo m (lower h.name) h.values) m1
  m2.map (fun e => { name := e.1, values := e.2 })

/-! ### `checkRequestInfo`, `checkPayloads`, `checkError` -/

/-- the loop over echoed requests; `k` = `reqNum` of the first pair -/
def checkRequests : Nat → List Msg → List Msg → List Discrepancy
  | k, e :: es, a :: as => (if e = a then [] else [.request k]) ++ checkRequests (k + 1) es as
  | _, _, _ => []

/-- the timeout block of `checkRequestInfo` -/
def checkTimeout (grace : Int) (exp act : Option Int) : List Discrepancy :=
  match exp, act with
  | some _, none => [.timeoutMissing]
  | some t, some u =>
    let maxAllowed := t
    let minAllowed := if t - grace < 0 then 0 else t - grace
    if u > maxAllowed || u < minAllowed then [.timeoutRange] else []
  | none, some _ => [.timeoutUnexpected]
  | none, none => []

def checkRequestInfo (grace : Int) (exp act : ReqInfo) (verifyHeaders : Bool) : List Discrepancy :=
  (if verifyHeaders then
    checkHeaders .requestHeaders exp.headers act.headers ++
    checkTimeout grace exp.timeoutMs act.timeoutMs ++
    (if exp.queryParams.length > 0 && act.queryParams.length > 0
      then checkHeaders .queryParams exp.queryParams act.queryParams else [])
   else []) ++
  (if act.requests.length ≠ exp.requests.length then [.requestCount] else []) ++
  checkRequests 1 exp.requests act.requests

/-- the loop of `checkPayloads`; `i` = 0-based index of the first pair -/
def checkPayloadsFrom (grace : Int) : Nat → List Payload → List Payload → List Discrepancy
  | i, e :: es, a :: as =>
    (if a.data = e.data then [] else [.payloadData (i + 1)]) ++
    checkRequestInfo grace (e.reqInfo.getD .empty) (a.reqInfo.getD .empty) (i == 0) ++
    checkPayloadsFrom grace (i + 1) es as
  | _, _, _ => []

def checkPayloads (grace : Int) (exp act : List Payload) : List Discrepancy :=
  (if act.length ≠ exp.length then [.payloadCount] else []) ++ checkPayloadsFrom grace 0 exp act

/-- the loop over error details; `i` = 0-based index of the first pair -/
def checkDetailsFrom (grace : Int) : Nat → List Detail → List Detail → List Discrepancy
  | i, e :: es, a :: as =>
    (match e, a with
     | .reqInfo er, .reqInfo ar => checkRequestInfo grace er ar true
     | _, _ => if e = a then [] else [.detail (i + 1)]) ++
    checkDetailsFrom grace (i + 1) es as
  | _, _, _ => []

def checkError (grace : Int) (exp act : Option Err) (otherCodes : List Nat) : List Discrepancy :=
  match exp, act with
  | none, none => []
  | none, some _ => [.unexpectedError]
  | some _, none => [.missingError]
  | some e, some a =>
    (if e.code ≠ a.code && !otherCodes.contains a.code then [.code] else []) ++
    (match e.message with
     | some m => if m ≠ a.message.getD "" then [.message] else []
     | none => []) ++
    (if e.details.length ≠ a.details.length then [.detailCount] else []) ++
    checkDetailsFrom grace 0 e.details a.details

/-- the condition under which headers and trailers may have been merged -/
def mergeable (st : StreamType) (exp : Result) : Bool :=
  exp.payloads.length == 0 && exp.error.isSome && (st == .unary || st == .clientStream)

def checkMetadata (st : StreamType) (exp act : Result) : List Discrepancy :=
  let normal := checkHeaders .responseHeaders exp.headers act.headers ++
    checkHeaders .responseTrailers exp.trailers act.trailers
  if mergeable st exp then
    if normal.length > 0 then
      let merged := mergeHeaders exp.headers exp.trailers
      let allHeaders := checkHeaders .responseMetadata merged act.headers
      let allTrailers := checkHeaders .responseMetadata merged act.trailers
      if allHeaders.length ≠ 0 && allTrailers.length ≠ 0 then normal else []
    else []
  else normal

def checkStatus (exp act : Option Int) : List Discrepancy :=
  match exp, act with
  | some e, some a => if e ≠ a then [.status] else []
  | _, _ => []

/-- `testResults.assert`: the list of errors handed to `setOutcome` (empty = the case passed) -/
def assert (grace : Int) (st : StreamType) (otherCodes : List Nat) (exp act : Result) : List Discrepancy :=
  checkError grace exp.error act.error otherCodes ++
  checkPayloads grace exp.payloads act.payloads ++
  checkMetadata st exp act ++
  checkStatus exp.httpStatus act.httpStatus

end ConfModel.Assert
