//go:build verif

package referenceclient

import (
	"bytes"
	"context"
	"errors"
	"io"
	"net/http"
	"net/url"
	"strconv"
	"strings"
	"sync"
	"time"

	"connectrpc.com/conformance/internal/tracer"
)

// C16 at the reference client's consumer: the per-call hand-off wireTracer.Complete ->
// setWireTrace -> examineWireDetails (wire_details.go).  A script drives the REAL functions
// for up to a few calls in any order of {the wait begins, the call's context is done, the
// trace is completed}; the end of the one-second grace period is the step "g".

// verifC16ProbeCtx signals when examineWireDetails has looked up the call's wire wrapper,
// i.e. when the examination has started.
type verifC16ProbeCtx struct {
	context.Context
	once    sync.Once
	entered chan struct{}
}

func (p *verifC16ProbeCtx) Value(key any) any {
	if _, ok := key.(wireCtxKey); ok {
		p.once.Do(func() { close(p.entered) })
	}
	return p.Context.Value(key)
}

type verifC16Call struct {
	name      string
	ctx       context.Context // what the caller of the RPC holds (and examines)
	cancel    context.CancelFunc
	req       *http.Request
	completed bool
	bare      bool
	busy      bool
	resp      *http.Response // rt mode: the response the caller got from the traced transport
	began     time.Time
	res       chan string
}

// VerifC16Wire executes wire hand-off scripts.
//
//	w:<k>        examineWireDetails(ctx_k) starts (in a goroutine)
//	x:<k>        the context of call k is cancelled
//	c:<k>:<id>   wireTracer.Complete(trace of call k; response status id, id 0: no response)
//	p:<k>        look whether the examination has returned (short)
//	j:<k>        wait for it to return (generous)
//	g:<k>        let the grace period pass: wait for it to return, however long it takes
//
// ctx flavours per call: live | cancelled | expired (deadline already passed) | timeout
// (a 25 ms deadline running from the start of the script) | bare (no withWireCapture).
type VerifC16Wire struct {
	calls  []*verifC16Call
	rt     bool
	inner  *tracer.Tracer
	wt     *wireTracer
	Settle time.Duration
	PeekT  time.Duration
	JoinT  time.Duration
	// Slow is set when the script was observed at a moment at which the grace period of a
	// pending wait may already have run out (an overloaded machine): the run says nothing.
	Slow bool
}

const verifC16Margin = 600 * time.Millisecond

func VerifC16NewWire(flavours []string, withTracer bool) *VerifC16Wire {
	v := &VerifC16Wire{Settle: 20 * time.Millisecond, PeekT: 15 * time.Millisecond, JoinT: 10 * time.Second}
	if withTracer {
		v.inner = &tracer.Tracer{}
	}
	v.wt = &wireTracer{tracer: v.inner}
	for k, fl := range flavours {
		c := &verifC16Call{name: "verif/call-" + strconv.Itoa(k)}
		var base context.Context
		switch fl {
		case "cancelled":
			base, c.cancel = context.WithCancel(context.Background())
			c.cancel()
		case "expired":
			base, c.cancel = context.WithDeadline(context.Background(), time.Now().Add(-time.Second))
		case "timeout":
			base, c.cancel = context.WithTimeout(context.Background(), 25*time.Millisecond)
		default:
			base, c.cancel = context.WithCancel(context.Background())
		}
		if fl != "bare" {
			base = withWireCapture(base)
		} else {
			c.bare = true
		}
		c.ctx = base
		// the HTTP request of the call carries a context derived from the caller's
		reqCtx, _ := context.WithCancel(base) //nolint:govet // released with the parent
		c.req = (&http.Request{
			Method: http.MethodPost, URL: &url.URL{Scheme: "http", Host: "verif", Path: "/svc/Method"},
			Proto: "HTTP/1.1", ProtoMajor: 1, ProtoMinor: 1, Header: http.Header{"X-Test-Case-Name": {c.name}},
		}).WithContext(reqCtx)
		v.inner.Init(c.name)
		v.calls = append(v.calls, c)
	}
	return v
}

type verifC16RT func(*http.Request) (*http.Response, error)

func (f verifC16RT) RoundTrip(r *http.Request) (*http.Response, error) { return f(r) }

// VerifC16NewWireRT is the same hand-off reached through the real client-side glue:
// newWireCaptureTransport -> tracer.TracingRoundTripper -> builder -> wireTracer.Complete ->
// setWireTrace. Every call makes its round trip (over a transport that answers at once with
// status 200+k, or fails: flavour "fail") when the script starts; "c:k" then reads the response
// body to its end (which completes the trace), "x:k" cancels the call's context (the
// middleware's goroutine then completes the trace, unless it is complete already; the step
// returns when that has happened). Flavours: live | fail | bare.
func VerifC16NewWireRT(flavours []string, withTracer bool) *VerifC16Wire {
	fl := make([]string, len(flavours))
	for i, f := range flavours {
		fl[i] = "live"
		if f == "bare" {
			fl[i] = "bare"
		}
	}
	v := VerifC16NewWire(fl, withTracer)
	v.rt = true
	transport := newWireCaptureTransport(verifC16RT(func(r *http.Request) (*http.Response, error) {
		if r.Header.Get("X-Verif-Fail") != "" {
			return nil, errors.New("verif: scripted transport failure")
		}
		id, _ := strconv.Atoi(r.Header.Get("X-Verif-Id"))
		return &http.Response{
			Status: "200 OK", StatusCode: 200 + id, Proto: "HTTP/1.1", ProtoMajor: 1, ProtoMinor: 1,
			Header: http.Header{}, Body: io.NopCloser(bytes.NewReader([]byte("abc"))), ContentLength: -1, Request: r,
		}, nil
	}), v.inner)
	for k, c := range v.calls {
		c.req.Header.Set("X-Verif-Id", strconv.Itoa(k))
		c.req.Body = http.NoBody
		if flavours[k] == "fail" {
			c.req.Header.Set("X-Verif-Fail", "1")
		}
		resp, err := transport.RoundTrip(c.req) //nolint:bodyclose // read to its end by the script, or abandoned on purpose
		if err != nil {
			c.completed = true // the ResponseError event completed the trace
		}
		c.resp = resp
	}
	return v
}

// awaitCompletion waits until the trace of the call has been handed over (rt mode, after a
// cancellation: the hand-off comes from the middleware's goroutine).
func (v *VerifC16Wire) awaitCompletion(c *verifC16Call) {
	waited := false
	if w, ok := c.ctx.Value(wireCtxKey{}).(*wireWrapper); ok {
		select {
		case <-w.traceAvailable:
		case <-time.After(5 * time.Second):
		}
		waited = true
	}
	// wireTracer.Complete hands the trace to the Tracer behind it after setWireTrace, on the
	// middleware's goroutine: wait for that as well before anything is observed
	if v.inner != nil {
		ctx, cancel := context.WithTimeout(context.Background(), 5*time.Second)
		defer cancel()
		_, _ = v.inner.Await(ctx, c.name)
		waited = true
	}
	if !waited {
		time.Sleep(20 * time.Millisecond)
	}
}

func verifC16Examine(ctx context.Context) string {
	p := &verifC13Printer{}
	status, ok := examineWireDetails(ctx, p)
	msgs := p.take()
	switch {
	case ok:
		return "t" + strconv.Itoa(status)
	case len(msgs) == 0:
		return "t0" // a trace without a response was handed over (the round trip failed)
	case len(msgs) == 1 && strings.Contains(msgs[0], "completed trace not found"):
		return "nf"
	case len(msgs) == 1 && strings.Contains(msgs[0], "not configured"):
		return "nc"
	default:
		return "msgs:" + strings.Join(msgs, "|")
	}
}

func (v *VerifC16Wire) wait(c *verifC16Call, d time.Duration) (string, bool) {
	select {
	case r := <-c.res:
		c.busy = false
		return r, true
	default:
	}
	timer := time.NewTimer(d)
	defer timer.Stop()
	select {
	case r := <-c.res:
		c.busy = false
		return r, true
	case <-timer.C:
		return "waiting", false
	}
}

// pendingCheck: an observation of (or a completion for) a wait that is pending is only
// meaningful well inside its grace period. pending = the wait was pending, without a completed
// trace, when the step began.
func (v *VerifC16Wire) pendingCheck(c *verifC16Call, pending bool) {
	if pending && time.Since(c.began) > verifC16Margin {
		v.Slow = true
	}
}

func (v *VerifC16Wire) Do(op string) string {
	f := strings.Split(op, ":")
	if len(f) < 2 {
		return "?"
	}
	k, err := strconv.Atoi(f[1])
	if err != nil || k < 0 || k >= len(v.calls) {
		return "?"
	}
	c := v.calls[k]
	switch f[0] {
	case "w":
		if c.busy {
			return "busy"
		}
		pctx := &verifC16ProbeCtx{Context: c.ctx, entered: make(chan struct{})}
		c.res = make(chan string, 1)
		res := c.res
		c.began = time.Now()
		c.busy = true
		go func() { res <- verifC16Examine(pctx) }()
		<-pctx.entered
		if c.completed || c.bare {
			// the trace is there (or there is nothing to wait on): the examination returns by itself
			r, _ := v.wait(c, v.JoinT)
			return r
		}
		r, _ := v.wait(c, v.Settle) // let it reach its select
		v.pendingCheck(c, true)
		return r
	case "x":
		pending := c.busy && !c.completed
		c.cancel()
		if v.rt && !c.completed {
			v.awaitCompletion(c)
			v.pendingCheck(c, pending)
			c.completed = true
		}
		return ""
	case "c":
		if v.rt {
			pending := c.busy && !c.completed
			if c.resp != nil {
				_, _ = io.Copy(io.Discard, c.resp.Body)
			}
			v.pendingCheck(c, pending)
			c.completed = true
			return ""
		}
		id := 0
		if len(f) > 2 {
			id, _ = strconv.Atoi(f[2])
		}
		pending := c.busy && !c.completed
		tr := tracer.Trace{TestName: c.name, Request: c.req}
		if id != 0 {
			tr.Response = &http.Response{StatusCode: id, Header: http.Header{}}
		}
		v.wt.Complete(tr)
		v.pendingCheck(c, pending)
		c.completed = true
		return ""
	case "p":
		if !c.busy {
			return "idle"
		}
		pending := !c.completed
		r, _ := v.wait(c, v.PeekT)
		v.pendingCheck(c, pending)
		return r
	case "j":
		if !c.busy {
			return "idle"
		}
		d := v.JoinT
		pending := !c.completed
		if pending {
			d = v.PeekT
		}
		r, _ := v.wait(c, d)
		v.pendingCheck(c, pending)
		return r
	case "g":
		if !c.busy {
			return "idle"
		}
		r, ok := v.wait(c, v.JoinT)
		if !ok {
			return "stuck"
		}
		if r == "nf" && time.Since(c.began) < 700*time.Millisecond {
			return "nf-early"
		}
		return r
	}
	return "?"
}

// Inner reports what the Tracer behind the wireTracer holds for each call.
func (v *VerifC16Wire) Inner() []string {
	out := []string{}
	if v.inner == nil {
		return out
	}
	done, cancel := context.WithCancel(context.Background())
	cancel()
	for _, c := range v.calls {
		tr, err := v.inner.Await(done, c.name)
		switch {
		case err == nil && tr != nil && tr.Response != nil:
			out = append(out, "t"+strconv.Itoa(tr.Response.StatusCode))
		case err == nil:
			out = append(out, "t0")
		case done.Err() != nil && err == done.Err(): //nolint:errorlint // identity
			out = append(out, "ctx")
		default:
			out = append(out, "err")
		}
	}
	return out
}

// Close waits for examinations still in flight (at most their grace period).
func (v *VerifC16Wire) Close() {
	for _, c := range v.calls {
		if c.busy {
			select {
			case <-c.res:
			case <-time.After(5 * time.Second):
			}
			c.busy = false
		}
		c.cancel()
	}
}
