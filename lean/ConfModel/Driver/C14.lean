import ConfModel.Driver.Common
import ConfModel.Model.DataTracer
import ConfModel.Spec.Envelopes
namespace ConfModel.Driver.C14
open Lean ConfModel.Driver ConfModel.DataTracer ConfModel.Envelopes

def errName : EndErr → String
  | .nil => "nil"
  | .inner => "inner"
  | .other => "other"

/-- same canonical form as `VerifBodyEvents` on the Go side -/
def render (side : String) : NEv → String
  | .data none n i => s!"{side}d:-:-:{n}:{i}"
  | .data (some e) n i => s!"{side}d:{e.flags.toNat}:{e.len}:{n}:{i}"
  | .endStream x => s!"{side}s:{hex x}"
  | .bodyEnd e => s!"{side}e:{errName e}"

/-- the decompressor of the run: a finite table supplied by the harness (real decompressor
outputs); `"!"` = it failed -/
def decOf (table : List (String × Bytes × Option Bytes)) (name : String) (payload : Bytes) : Option Bytes :=
  match table.find? (fun t => t.1 == name && t.2.1 == payload) with
  | some t => t.2.2
  | none => none

def decTable (j : Json) : List (String × Bytes × Option Bytes) :=
  (arr j).map fun row =>
    match strList row with
    | [n, p, x] => (n, unhex p, if x == "!" then none else some (unhex x))
    | _ => ("?", [], none)

/-- configuration of one side from the header fields of the input -/
def cfgOf (inp : Json) (isReq : Bool) (table : List (String × Bytes × Option Bytes)) : Cfg :=
  let props := propsFromHeaders (str (field inp "ct")) (str (field inp "ce"))
  let name := if props.2 == 1 then str (field inp "cce") else if props.2 == 2 then str (field inp "ge") else "?"
  { isRequest := isReq, isStream := props.1, dec := decOf table name }

/-- the wrapper operations of a reader session: reads, the ending, what follows -/
def readerOps (reads : List Bytes) (ending : String) (post : List String) : List Op × EndErr :=
  let datas := reads.map Op.data
  let endErr : EndErr := match ending with
    | "eof" | "eofdata" => .nil
    | "err" | "errdata" | "closeerr" => .inner
    | _ => .other
  let readAfter : EndErr := if ending == "err" || ending == "errdata" then .inner else .nil
  let closeAfter : EndErr := if ending == "closeerr" then .inner else .other
  let postOps := post.flatMap fun a => if a == "c" then [Op.fin closeAfter] else [Op.data [], Op.fin readAfter]
  (datas ++ [Op.fin endErr] ++ postOps, endErr)

def stepsOf (j : Json) : List (String × String) := (arr j).map fun s => (str (field s "d"), str (field s "e"))

def tailName : Tail → String
  | .clean => "clean"
  | .partialPrefix _ => "partial-prefix"
  | .partialPayload _ _ => "partial-payload"

def handle : Handler := fun op inp impl =>
  match op with
  | "trace" =>
    if !(isNull (field impl "panic")) then
      { agree := false, holds := false, why := "panic: " ++ str (field impl "panic") } else
    let isReq := str (field inp "side") == "req"
    let side := if isReq then "q" else "p"
    let reads := (strList (field inp "reads")).map unhex
    let ending := str (field inp "ending")
    let post := strList (field inp "post")
    let c := cfgOf inp isReq (decTable (field impl "dec"))
    let (ops, endErr) := readerOps reads ending post
    let body := reads.flatten
    -- implementation's observations
    let implEvents := (strList (field impl "events")).filter (· != "Q")
    let seen := stepsOf (field impl "seen")
    let inner := stepsOf (field impl "inner")
    let completions := nat (field impl "completions")
    let done := nat (field impl "done")
    -- model
    let mEvents := (observe c ops).map (render side)
    let mDone := if isReq then 0 else 1
    -- property: the trace is the specified one; the caller saw what the inner reader returned
    -- (all bytes of the body, in order); the trace was delivered once
    let specA := (specTrace c body endErr).map (render side)
    let specB := (specTraceAlt c body endErr).map (render side)
    let traceOk := implEvents == specA || implEvents == specB
    let seenBytes := String.join (seen.map (·.1))
    let passOk := seen == inner && seenBytes == hex body
    let holds := traceOk && passOk && completions == 1
    let p := parse body
    { agree := implEvents == mEvents && completions == 1 && done == mDone && passOk,
      holds := holds,
      nontrivial := c.isStream && reads.length > 1 && (!p.1.isEmpty || p.2 != .clean),
      model := Json.mkObj [("events", toJson mEvents), ("done", toJson mDone)],
      cls := (if c.isStream then tailName p.2 else "non-stream") ++
        (if mEvents.any (·.startsWith "ps:") then "+eos" else ""),
      why := if holds then "" else
        (if !traceOk then "trace " ++ toString implEvents ++ " but the body's envelopes give " ++ toString specA
         else if !passOk then "caller saw " ++ toString seen ++ " but the inner reader returned " ++ toString inner
         else s!"trace delivered {completions} times") }
  | _ => bad ("C14: unknown op " ++ op)

end ConfModel.Driver.C14
