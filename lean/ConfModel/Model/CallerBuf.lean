/-
C14 / C15 — a caller that reuses ONE array for all its calls (bufio.Reader, bufio.Writer, a
handler's fixed read buffer).

In the models a chunk is a *value* (`List UInt8`).  In Go a chunk is a slice: a window into an
array that the caller owns, overwrites before the next call and may look at in full (length and
capacity region) afterwards.  A tracer may therefore neither keep the slice (its state would
change behind its back when the caller refills the array) nor write through it (the caller would
see bytes the inner reader never delivered).  That contract — *the tracer's state after a call
is a function of the bytes' values only, and the array after the call is the array the inner
connection produced* — is what makes the value models adequate; it is stated here so that the
theorems (`Props.C14.reused_buffer_values_suffice`, `Props.C15.reused_buffer_values_suffice`) and
the harness (ops in the reusing discipline, the whole array compared after every call) talk about
the same thing.  Core Lean only.
-/
namespace ConfModel.CallerBuf

abbrev Bytes := List UInt8

/-- one call of a reusing caller -/
structure BCall where
  /-- the array as the caller left it before the call: stale bytes of earlier calls, a canary … -/
  before : Bytes
  /-- where the slice handed to the wrapper starts -/
  off : Nat
  /-- what the inner reader stores there (Read) / what the caller put there (Write) -/
  chunk : Bytes
deriving DecidableEq, Repr

/-- the slice lies inside the array -/
def BCall.fits (b : BCall) : Prop := b.off + b.chunk.length ≤ b.before.length

instance (b : BCall) : Decidable b.fits := by unfold BCall.fits; exact inferInstance

/-- the array once the chunk is stored -/
def BCall.array (b : BCall) : Bytes :=
  b.before.take b.off ++ b.chunk ++ b.before.drop (b.off + b.chunk.length)

/-- the bytes in the window `data[:n]` the tracer is handed -/
def BCall.window (b : BCall) : Bytes := (b.array.drop b.off).take b.chunk.length

/-- what a transparent wrapper leaves in the caller's array: exactly what it found -/
def wrapperLeaves (array : Bytes) : Bytes := array

/-- what the caller may observe of one call: the whole array, not only `[off, off+n)` -/
def BCall.callerSees (b : BCall) : Bytes := wrapperLeaves b.array

end ConfModel.CallerBuf
