/-
Helper lemmas for C16 about the retry collector model (`ConfModel.H2.Coll`, shared with C15):
exactly-once delivery under any tear-down.
-/
import ConfModel.Lemmas.H2Retry
import ConfModel.Model.H2Teardown
namespace ConfModel.H2

theorem valuesCount_held (t : Trace) : ∀ (w : List (String × Trace)), WOK w →
    findName t.name w = some t → valuesCount t w = 1
  | [], _, hf => by simp [findName] at hf
  | p :: w, ⟨h1, h2, h3⟩, hf => by
    by_cases hn : p.1 = t.name
    · have hp : p.2 = t := by simpa [findName, hn] using hf
      have hz : valuesCount t w = 0 := valuesCount_zero_of_not_held t w h3 (by rw [← hn]; exact h2)
      simp only [valuesCount, List.map_cons, List.count_cons, hp, beq_self_eq_true, if_true] at hz ⊢
      omega
    · have hf' : findName t.name w = some t := by simpa [findName, hn] using hf
      have ih := valuesCount_held t w h3 hf'
      have hne : ¬ p.2 = t := by intro h; apply hn; rw [h1, h]
      have hb : (p.2 == t) = false := by simp [hne]
      simp only [valuesCount, List.map_cons, List.count_cons, hb, Bool.false_eq_true, if_false] at ih ⊢
      omega

/-- what was delivered stays delivered -/
theorem out_count_mono_step (c : Coll) (t : Trace) (op : COp) : c.out.count t ≤ (c.step op).out.count t := by
  cases op with
  | complete t' =>
    simp only [Coll.step, Coll.complete]
    split
    · exact Nat.le_refl _
    · split
      · exact Nat.le_refl _
      · simp only [List.count_append]; omega
  | newAttempt n => exact Nat.le_refl _
  | timesUp n =>
    simp only [Coll.step, Coll.timesUp]
    split
    · simp only [List.count_append]; omega
    · exact Nat.le_refl _
  | cancel => simp only [Coll.step, Coll.cancel, List.count_append]; omega

theorem out_count_mono_run : ∀ (ops : List COp) (c : Coll) (t : Trace), c.out.count t ≤ (c.run ops).out.count t
  | [], _, _ => Nat.le_refl _
  | op :: ops, c, t => by
    have h1 := out_count_mono_step c t op
    have h2 := out_count_mono_run ops (c.step op) t
    simp only [Coll.run, List.foldl] at h2 ⊢
    omega

theorem cancel_cancel (c : Coll) : c.cancel.cancel = c.cancel := by
  simp [Coll.cancel]

theorem run_cancels (c : Coll) : ∀ k : Nat, (c.cancel).run (List.replicate k COp.cancel) = c.cancel
  | 0 => rfl
  | k+1 => by
    simp only [List.replicate_succ, Coll.run, List.foldl_cons, Coll.step]
    rw [cancel_cancel]
    exact run_cancels c k

end ConfModel.H2
