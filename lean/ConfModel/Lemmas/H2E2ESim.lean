/-
End-to-end (C15): the simulation.  One invariant links the property's bookkeeping
(`expects`) with the tracer's stream table and retry collector; every wire event of
well-formed traffic preserves it.
-/
import ConfModel.Lemmas.H2E2ENames
set_option linter.unusedSimpArgs false
set_option linter.unusedVariables false
namespace ConfModel.H2

structure Inv (isServer g : Bool) (acc : List Expect) (s : L2 × Coll) : Prop where
  accOK : AccOK acc
  tok : TOK s.1.streams
  wok : WOK s.2.waiting
  srv : s.1.isServer = isServer
  max : g = false → s.1.maxId = 0
  tblOpen : ∀ e ∈ acc, e.isOpen = true → ∃ st, tGet e.id s.1.streams = some st ∧ SRel e st
  tblOnly : ∀ i st, tGet i s.1.streams = some st → ∃ e ∈ acc, e.id = i ∧ e.isOpen = true
  names : ∀ n, n ≠ "" → NOK isServer n acc (findName n s.2.waiting) (s.2.outFor n)
  unnamed : findName "" s.2.waiting = none ∧ s.2.outFor "" = []

theorem Inv.intro {isServer g : Bool} {acc : List Expect} (l2 : L2) (c : Coll)
    (accOK : AccOK acc) (tok : TOK l2.streams) (wok : WOK c.waiting) (srv : l2.isServer = isServer)
    (max : g = false → l2.maxId = 0)
    (tblOpen : ∀ e ∈ acc, e.isOpen = true → ∃ st, tGet e.id l2.streams = some st ∧ SRel e st)
    (tblOnly : ∀ i st, tGet i l2.streams = some st → ∃ e ∈ acc, e.id = i ∧ e.isOpen = true)
    (names : ∀ n, n ≠ "" → NOK isServer n acc (findName n c.waiting) (c.outFor n))
    (unnamed : findName "" c.waiting = none ∧ c.outFor "" = []) : Inv isServer g acc (l2, c) :=
  ⟨accOK, tok, wok, srv, max, tblOpen, tblOnly, names, unnamed⟩

theorem AccOK_map_see {acc : List Expect} (h : AccOK acc) (w : WEv) : AccOK (acc.map (fun e => e.see w)) := by
  refine ⟨?_, ?_, ?_⟩
  · have e : ((fun x : Expect => x.id) ∘ fun e => e.see w) = (fun x : Expect => x.id) := by funext x; simp [see_id]
    rw [List.map_map, e]; exact h.nodup
  · intro e' he' ho
    obtain ⟨e, he, rfl⟩ := List.mem_map.mp he'
    have ho' := see_open_of_open e w ho
    have := h.fresh e he ho'
    rw [see_open_flushed e ho', see_superseded]; exact this
  · intro e1' h1 e2' h2 hn hne hs1 hs2
    obtain ⟨e1, he1, rfl⟩ := List.mem_map.mp h1
    obtain ⟨e2, he2, rfl⟩ := List.mem_map.mp h2
    rw [see_name] at hne
    rw [see_name, see_name] at hn
    rw [see_superseded] at hs1 hs2
    rw [see_id, see_id]
    exact h.uniq e1 he1 e2 he2 hn hne hs1 hs2

/-- the table entry of an open stream -/
theorem Inv.rel {isServer g : Bool} {acc : List Expect} {s : L2 × Coll} (h : Inv isServer g acc s) (i : Nat) (st : Stream)
    (hg : tGet i s.1.streams = some st) : ∃ e ∈ acc, e.id = i ∧ e.isOpen = true ∧ SRel e st := by
  obtain ⟨e, he, hid, ho⟩ := h.tblOnly i st hg
  obtain ⟨st', hg', hrel⟩ := h.tblOpen e he ho
  rw [hid, hg] at hg'
  cases hg'
  exact ⟨e, he, hid, ho, hrel⟩

/-- at most one table entry per test name -/
theorem Inv.entry_unique {isServer g : Bool} {acc : List Expect} {s : L2 × Coll} (h : Inv isServer g acc s) (x : Expect) (hx : x ∈ acc)
    (hxo : x.isOpen = true) (hxn : x.name ≠ "") (p : Nat × Stream) (hp : p ∈ s.1.streams) (hne : p.1 ≠ x.id) :
    p.2.name ≠ x.name := by
  intro hname
  obtain ⟨e, he, hid, ho, hrel⟩ := h.rel p.1 p.2 (tGet_of_mem _ h.tok p hp)
  have hen : e.name = x.name := by rw [← hrel.name]; exact hname
  have := h.accOK.uniq e he x hx hen (by rw [hen]; exact hxn) (h.accOK.fresh e he ho).2 (h.accOK.fresh x hx hxo).2
  exact hne (hid.symm.trans this)

theorem handleFrame_sid (c : L2) (isReq : Bool) (f : Frame) (id : Nat) (hs : frameSid f = some id) :
    handleFrame c isReq f = ({ c with streams := tPut id (streamStep c.maxId isReq id (tGet id c.streams) f).1 c.streams },
      tag id (streamStep c.maxId isReq id (tGet id c.streams) f).2) := by
  cases f <;> simp_all [handleFrame, frameSid]

theorem run_nil' (c : Coll) : c.run [] = c := rfl

theorem deliveries_one (n : String) (w : Option Trace) (op : COp) : deliveriesFor n w [op] = (stepFor n w op).2 := by
  simp [deliveriesFor]

theorem heldAfter_one (n : String) (w : Option Trace) (op : COp) : heldAfter n w [op] = (stepFor n w op).1 := rfl

theorem filter_one_complete (n : String) (t : Trace) :
    [COp.complete t].filter (concerns n) = if t.name = n then [COp.complete t] else [] := by
  by_cases h : t.name = n <;> simp [concerns, h]

/-! ### a HEADERS / DATA / RST_STREAM frame of an open stream -/

theorem step_sid_open {isServer g : Bool} {acc : List Expect} {s : L2 × Coll} (h : Inv isServer g acc s) (r : Bool) (f : Frame)
    (x : Expect) (hx : x ∈ acc) (hxo : x.isOpen = true) (hs : frameSid f = some x.id)
    (hgood : Good (acc.map (fun e => e.see (.frame r f)))) :
    Inv isServer g (acc.map (fun e => e.see (.frame r f))) (wstep s (.frame r f)) := by
  obtain ⟨st, hget, hrel⟩ := h.tblOpen x hx hxo
  have hodd : (x.see (.frame r f)).odd = false := hgood.1 _ (List.mem_map_of_mem (f := fun e => e.see (.frame r f)) hx)
  have hstep := see_step isServer s.1.maxId hrel hxo r f hs hodd
  have hother : ∀ e ∈ acc, e.id ≠ x.id → e.see (.frame r f) = e := fun e _ hne => see_other e r f x.id hs hne
  have hsame : ∀ e ∈ acc, e.id = x.id → e = x := fun e he hid => eq_of_id acc h.accOK.nodup e he x hx hid
  have hw : wstep s (.frame r f) =
      (({ isServer := s.1.isServer, streams := tPut x.id (streamStep s.1.maxId r x.id (some st) f).1 s.1.streams,
          maxId := s.1.maxId } : L2),
        s.2.run (streamStep s.1.maxId r x.id (some st) f).2) := by
    simp only [wstep, handleFrame_sid _ _ _ _ hs, hget, applyOps, map_snd_tag]
  have hacc' := AccOK_map_see h.accOK (.frame r f)
  have hclosedsame : ∀ e ∈ acc, e.isOpen = false → e.see (.frame r f) = e := fun e _ hc => see_closed_frame e hc r f
  cases ho' : (x.see (.frame r f)).isOpen with
  | true =>
    obtain ⟨st', hR, hrel'⟩ := hstep.1 ho'
    rw [hw, hR]
    have hopen : ∀ e ∈ acc, (e.see (.frame r f)).isOpen = e.isOpen := by
      intro e he
      by_cases hid : e.id = x.id
      · rw [hsame e he hid, ho', hxo]
      · rw [hother e he hid]
    refine Inv.intro _ _ hacc' (TOK_tPut x.id (some st') _ h.tok) h.wok h.srv h.max ?_ ?_ ?_ h.unnamed
    · intro e' he' hoe
      obtain ⟨e, he, rfl⟩ := List.mem_map.mp he'
      simp only [see_id, tGet_tPut]
      by_cases hid : e.id = x.id
      · have := hsame e he hid; subst this
        simp only [if_true]
        exact ⟨st', rfl, hrel'⟩
      · rw [if_neg (fun hh => hid hh.symm), hother e he hid]
        rw [hother e he hid] at hoe
        exact h.tblOpen e he hoe
    · intro i st2 hg2
      simp only [tGet_tPut] at hg2
      by_cases hid : x.id = i
      · exact ⟨x.see (.frame r f), List.mem_map_of_mem (f := fun e => e.see (.frame r f)) hx, by rw [see_id]; exact hid, ho'⟩
      · rw [if_neg hid] at hg2
        obtain ⟨e, he, hei, heo⟩ := h.tblOnly i st2 hg2
        have hne : e.id ≠ x.id := by rw [hei]; exact fun hh => hid hh.symm
        refine ⟨e.see (.frame r f), List.mem_map_of_mem (f := fun e => e.see (.frame r f)) he, by rw [see_id]; exact hei, ?_⟩
        rw [hother e he hne]; exact heo
    · intro n hn
      exact NOK_stable (fun e => e.see (.frame r f)) (h.names n hn) (fun e _ => see_name e _) (fun e _ _ => see_superseded e _)
        (fun e he _ => hopen e he) (fun e he _ hc => by rw [hclosedsame e he hc]; exact ⟨rfl, rfl⟩)
  | false =>
    have hcl := hstep.2 ho'
    have hR1 : (streamStep s.1.maxId r x.id (some st) f).1 = none := by
      by_cases hn : x.name = ""
      · rw [hcl.1 hn]
      · obtain ⟨t, ht, _⟩ := hcl.2 hn; rw [ht]
    -- the operations, seen from any name
    have hops : ∀ n, (x.name ≠ n ∨ n = "") →
        (streamStep s.1.maxId r x.id (some st) f).2.filter (concerns n) = [] := by
      intro n hne
      by_cases hn : x.name = ""
      · rw [hcl.1 hn]; rfl
      · obtain ⟨t, ht, hrel⟩ := hcl.2 hn
        rw [ht, filter_one_complete, if_neg]
        rw [hrel.1, see_name]
        rcases hne with h1 | h1
        · exact h1
        · rw [h1]; exact hn
    rw [hw, hR1]
    have hopen : ∀ e ∈ acc, e.id ≠ x.id → (e.see (.frame r f)).isOpen = e.isOpen := by
      intro e he hid; rw [hother e he hid]
    refine Inv.intro _ _ hacc' (TOK_tPut x.id none _ h.tok) (WOK_run _ _ h.wok) h.srv h.max ?_ ?_ ?_ ?_
    · intro e' he' hoe
      obtain ⟨e, he, rfl⟩ := List.mem_map.mp he'
      simp only [see_id, tGet_tPut]
      by_cases hid : e.id = x.id
      · have := hsame e he hid; subst this
        rw [ho'] at hoe; cases hoe
      · rw [if_neg (fun hh => hid hh.symm), hother e he hid]
        rw [hother e he hid] at hoe
        exact h.tblOpen e he hoe
    · intro i st2 hg2
      simp only [tGet_tPut] at hg2
      by_cases hid : x.id = i
      · rw [if_pos hid] at hg2; cases hg2
      · rw [if_neg hid] at hg2
        obtain ⟨e, he, hei, heo⟩ := h.tblOnly i st2 hg2
        have hne : e.id ≠ x.id := by rw [hei]; exact fun hh => hid hh.symm
        refine ⟨e.see (.frame r f), List.mem_map_of_mem (f := fun e => e.see (.frame r f)) he, by rw [see_id]; exact hei, ?_⟩
        rw [hother e he hne]; exact heo
    · intro n hn
      have hc := coll_name s.2 h.wok n (streamStep s.1.maxId r x.id (some st) f).2
      by_cases hxn : x.name = n
      · have hn' : x.name ≠ "" := by rw [hxn]; exact hn
        obtain ⟨t, ht, hrelT⟩ := hcl.2 hn'
        have htn : t.name = n := by rw [hrelT.1, see_name]; exact hxn
        rw [ht, filter_one_complete, if_pos htn, heldAfter_one, deliveries_one] at hc
        rw [ht, hc.1, hc.2]
        exact NOK_close (fun e => e.see (.frame r f)) (h.names n hn) h.accOK x hx hxn hn hxo
          (fun e _ => see_name e _) (fun e _ => see_superseded e _) (fun e _ => see_id e _) ho'
          (by rw [see_open_flushed x hxo]; exact (h.accOK.fresh x hx hxo).1) t hrelT
      · rw [hops n (Or.inl hxn)] at hc
        simp only [heldAfter, List.foldl_nil, deliveriesFor, List.append_nil] at hc
        rw [hc.1, hc.2]
        refine NOK_stable (fun e => e.see (.frame r f)) (h.names n hn) (fun e _ => see_name e _) (fun e _ _ => see_superseded e _)
          (fun e he hen => ?_) (fun e he _ hc => by rw [hclosedsame e he hc]; exact ⟨rfl, rfl⟩)
        apply hopen e he
        intro hid
        rw [hsame e he hid] at hen
        exact hxn hen
    · have hc := coll_name s.2 h.wok "" (streamStep s.1.maxId r x.id (some st) f).2
      rw [hops "" (Or.inr rfl)] at hc
      simp only [heldAfter, List.foldl_nil, deliveriesFor, List.append_nil] at hc
      rw [hc.1, hc.2]; exact h.unnamed

/-! ### a frame for a stream that is not open -/

theorem tDel_absent (i : Nat) : ∀ (t : Tbl), tGet i t = none → tDel i t = t
  | [], _ => rfl
  | p :: t, h => by
    by_cases hp : p.1 = i
    · simp [tGet, hp] at h
    · have h' : tGet i t = none := by simpa [tGet, hp] using h
      have hb : (p.1 != i) = true := by simp [hp]
      have ih := tDel_absent i t h'
      simp only [tDel, List.filter, hb] at ih ⊢
      rw [ih]

theorem map_see_id {acc : List Expect} (r : Bool) (f : Frame) (id : Nat) (hs : frameSid f = some id)
    (hno : ∀ e ∈ acc, e.id = id → e.isOpen = false) : acc.map (fun e => e.see (.frame r f)) = acc := by
  have : ∀ e ∈ acc, e.see (.frame r f) = e := by
    intro e he
    by_cases hid : e.id = id
    · exact see_closed_frame e (hno e he hid) r f
    · exact see_other e r f id hs hid
  rw [List.map_congr_left this, List.map_id']

theorem step_sid_none {isServer g : Bool} {acc : List Expect} {s : L2 × Coll} (h : Inv isServer g acc s) (r : Bool) (f : Frame)
    (id : Nat) (hs : frameSid f = some id) (hno : ∀ e ∈ acc, e.id = id → e.isOpen = false)
    (hnh : ∀ fields es, ¬ (r = true ∧ f = .headers id fields es)) :
    Inv isServer g (acc.map (fun e => e.see (.frame r f))) (wstep s (.frame r f)) := by
  rw [map_see_id r f id hs hno]
  have hget : tGet id s.1.streams = none := by
    cases hg : tGet id s.1.streams with
    | none => rfl
    | some st =>
      obtain ⟨e, he, hid, ho⟩ := h.tblOnly id st hg
      rw [hno e he hid] at ho; cases ho
  have hstep : streamStep s.1.maxId r id none f = (none, []) := by
    cases f with
    | goaway l c => simp [frameSid] at hs
    | other => simp [frameSid] at hs
    | data j p es => rfl
    | rst j c => rfl
    | headers j fields es =>
      cases r with
      | false => rfl
      | true =>
        have : j = id := by simpa [frameSid] using hs
        subst this
        exact absurd ⟨rfl, rfl⟩ (hnh fields es)
  have hw : wstep s (.frame r f) = s := by
    obtain ⟨l2, c⟩ := s
    simp only [wstep, handleFrame_sid _ _ _ _ hs, hget, hstep, applyOps, tag, List.map_nil, tPut, tDel_absent id _ hget]
    rfl
  rw [hw]; exact h

/-! ### a new stream -/

theorem new_stream_step (id : Nat) (fields : Fields) (es : Bool) (e0 : Expect)
    (hb : e0.body = (fields, [], es, none, [], none)) :
    ∃ st, streamStep 0 true id none (.headers id fields es) = (some st, [COp.newAttempt (getHeader fields testNameHeader)]) ∧
      SRel e0 st := by
  cases es with
  | false =>
    refine ⟨newStream fields, ?_, newStream_rel fields hb⟩
    simp [streamStep, finishStep, completes_nil, newStream]
  | true =>
    have h0 : SRel ({ id := id, fields := fields } : Expect) (newStream fields) := newStream_rel fields rfl
    have v := close_reqEnd (e' := e0) h0 rfl (by rw [hb])
    refine ⟨((newStream fields).close true .none).1, ?_, v.2⟩
    simp only [streamStep, Bool.not_true, Bool.false_eq_true, if_false, bne_self_eq_false, Bool.false_and, finishStep, if_true,
      closeLocal, v.1, completes_nil, List.append_nil, Bool.or_false]
    rfl

theorem step_new {isServer g : Bool} {acc : List Expect} {s : L2 × Coll} (h : Inv isServer g acc s) (hg : g = false)
    (id : Nat) (fields : Fields) (es : Bool) (hno : acc.any (fun e => e.id == id && e.isOpen) = false)
    (hgood : Good (expects acc [.frame true (.headers id fields es)])) :
    Inv isServer g (expects acc [.frame true (.headers id fields es)]) (wstep s (.frame true (.headers id fields es))) := by
  have hno' : ∀ e ∈ acc, e.id = id → e.isOpen = false := by
    intro e he hid
    cases ho : e.isOpen with
    | false => rfl
    | true =>
      have : acc.any (fun e => e.id == id && e.isOpen) = true := List.any_eq_true.mpr ⟨e, he, by simp [hid, ho]⟩
      rw [hno] at this; cases this
  have hmap := map_see_id (acc := acc) true (.headers id fields es) id rfl hno'
  rw [expects_one_open acc id fields es hno, hmap] at hgood ⊢
  generalize hn0 : getHeader fields testNameHeader = n0 at hgood ⊢
  generalize he0 : ({ id := id, fields := fields, reqEnded := es, odd := (supersede n0 acc).2 } : Expect) = e0 at hgood ⊢
  have e0id : e0.id = id := by rw [← he0]
  have e0name : e0.name = n0 := by rw [← he0, ← hn0]; rfl
  have e0open : e0.isOpen = true := by rw [← he0]; rfl
  have e0fl : e0.flushedAfter = false := by rw [← he0]
  have e0sup : e0.superseded = false := by rw [← he0]
  have e0body : e0.body = (fields, [], es, none, [], none) := by rw [← he0]; rfl
  have hoddF : (supersede n0 acc).2 = false := by
    have := hgood.1 e0 (List.mem_append_right _ (List.mem_singleton.mpr rfl))
    rw [← he0] at this; exact this
  have hany : n0 ≠ "" → acc.any (fun x => x.name == n0 && !x.held && !x.superseded) = false := by
    intro hne
    rw [supersede_snd] at hoddF
    have : (n0 == "") = false := by simp [hne]
    simpa [this] using hoddF
  have hnd : (acc.map (·.id) ++ [id]).Nodup := by
    have := hgood.2
    simp only [List.map_append, List.map_map, List.map_cons, List.map_nil, e0id] at this
    have e : ((fun x : Expect => x.id) ∘ supOne n0) = (fun x : Expect => x.id) := by funext x; simp [supOne_id]
    rw [e] at this; exact this
  have hidfresh : ∀ e ∈ acc, e.id ≠ id := by
    intro e he hid
    have := (List.nodup_append.mp hnd).2.2 e.id (List.mem_map_of_mem he) id (by simp)
    exact this hid
  -- the model
  have hget : tGet id s.1.streams = none := by
    cases hgt : tGet id s.1.streams with
    | none => rfl
    | some st =>
      obtain ⟨e, he, hid, _⟩ := h.tblOnly id st hgt
      exact absurd hid (hidfresh e he)
  obtain ⟨stn, hstep, hrel0⟩ := new_stream_step id fields es e0 e0body
  have hw : wstep s (.frame true (.headers id fields es)) =
      (({ isServer := s.1.isServer, streams := tPut id (some stn) s.1.streams, maxId := s.1.maxId } : L2),
        s.2.run [COp.newAttempt n0]) := by
    have hm := h.max hg
    simp only [wstep, handleFrame_sid _ true (.headers id fields es) id rfl, hget, hm, hstep, applyOps, map_snd_tag, hn0]
  rw [hw]
  -- a not superseded earlier stream of the same name would be odd
  have hsupfalse : ∀ x ∈ acc, x.name = n0 → n0 ≠ "" → (supOne n0 x).superseded = false → False := by
    intro x hx hxn hne hs
    rw [supOne_superseded] at hs
    have hxs : x.superseded = false := by
      cases hq : x.superseded with
      | false => rfl
      | true => simp [hq] at hs
    have hh : x.held = false := by
      cases hq : x.held with
      | false => rfl
      | true => simp [hxs, hxn, hq, hne] at hs
    have : acc.any (fun x => x.name == n0 && !x.held && !x.superseded) = true :=
      List.any_eq_true.mpr ⟨x, hx, by simp [hxn, hh, hxs]⟩
    rw [hany hne] at this; cases this
  have hacc' : AccOK (acc.map (supOne n0) ++ [e0]) := by
    refine ⟨?_, ?_, ?_⟩
    · simp only [List.map_append, List.map_map, List.map_cons, List.map_nil, e0id]
      have e : ((fun x : Expect => x.id) ∘ supOne n0) = (fun x : Expect => x.id) := by funext x; simp [supOne_id]
      rw [e]; exact hnd
    · intro e he ho
      rcases List.mem_append.mp he with he | he
      · obtain ⟨x, hx, rfl⟩ := List.mem_map.mp he
        rw [supOne_isOpen] at ho
        rw [supOne_open n0 x ho]
        exact h.accOK.fresh x hx ho
      · simp only [List.mem_singleton] at he; subst he; exact ⟨e0fl, e0sup⟩
    · intro e1 h1 e2 h2 hn hne hs1 hs2
      rcases List.mem_append.mp h1 with h1 | h1 <;> rcases List.mem_append.mp h2 with h2 | h2
      · obtain ⟨x1, hx1, rfl⟩ := List.mem_map.mp h1
        obtain ⟨x2, hx2, rfl⟩ := List.mem_map.mp h2
        rw [supOne_name] at hne
        rw [supOne_name, supOne_name] at hn
        rw [supOne_id, supOne_id]
        have q1 : x1.superseded = false := by
          rw [supOne_superseded] at hs1
          cases hq : x1.superseded with
          | false => rfl
          | true => simp [hq] at hs1
        have q2 : x2.superseded = false := by
          rw [supOne_superseded] at hs2
          cases hq : x2.superseded with
          | false => rfl
          | true => simp [hq] at hs2
        exact h.accOK.uniq x1 hx1 x2 hx2 hn hne q1 q2
      · obtain ⟨x1, hx1, rfl⟩ := List.mem_map.mp h1
        simp only [List.mem_singleton] at h2; subst h2
        rw [supOne_name] at hn hne
        rw [e0name] at hn
        exact (hsupfalse x1 hx1 hn (by rw [← hn]; exact hne) hs1).elim
      · obtain ⟨x2, hx2, rfl⟩ := List.mem_map.mp h2
        simp only [List.mem_singleton] at h1; subst h1
        rw [supOne_name] at hn
        rw [e0name] at hn hne
        exact (hsupfalse x2 hx2 hn.symm hne hs2).elim
      · simp only [List.mem_singleton] at h1 h2; rw [h1, h2]
  refine Inv.intro _ _ hacc' (TOK_tPut id (some stn) _ h.tok) (WOK_run _ _ h.wok) h.srv (fun hgf => h.max hgf) ?_ ?_ ?_ ?_
  · intro e he ho
    rcases List.mem_append.mp he with he | he
    · obtain ⟨x, hx, rfl⟩ := List.mem_map.mp he
      rw [supOne_isOpen] at ho
      rw [supOne_open n0 x ho]
      simp only [tGet_tPut]
      rw [if_neg (fun hh => hidfresh x hx hh.symm)]
      exact h.tblOpen x hx ho
    · simp only [List.mem_singleton] at he; subst he
      simp only [tGet_tPut, e0id, if_true]
      exact ⟨stn, rfl, hrel0⟩
  · intro i st2 hg2
    simp only [tGet_tPut] at hg2
    by_cases hid : id = i
    · exact ⟨e0, List.mem_append_right _ (List.mem_singleton.mpr rfl), by rw [e0id]; exact hid, e0open⟩
    · rw [if_neg hid] at hg2
      obtain ⟨e, he, hei, heo⟩ := h.tblOnly i st2 hg2
      refine ⟨supOne n0 e, List.mem_append_left _ (List.mem_map_of_mem he), by rw [supOne_id]; exact hei, ?_⟩
      rw [supOne_isOpen]; exact heo
  · intro n hn
    have hc := coll_name s.2 h.wok n [COp.newAttempt n0]
    by_cases hnn : n0 = n
    · subst hnn
      have : [COp.newAttempt n0].filter (concerns n0) = [COp.newAttempt n0] := by simp [concerns]
      rw [this, heldAfter_one, deliveries_one, stepFor_newAttempt] at hc
      rw [hc.1, hc.2, List.append_nil]
      exact (NOK_new (h.names n0 hn) hn (hany hn) e0 e0name e0open).2
    · have : [COp.newAttempt n0].filter (concerns n) = [] := by simp [concerns, hnn]
      rw [this] at hc
      simp only [heldAfter, List.foldl_nil, deliveriesFor, List.append_nil] at hc
      rw [hc.1, hc.2]
      apply NOK_append_other _ e0 (by rw [e0name]; exact hnn)
      exact NOK_stable (supOne n0) (h.names n hn) (fun e _ => supOne_name n0 e)
        (fun e _ hen => by rw [supOne_other n0 e (by rw [hen]; exact fun hh => hnn hh.symm)])
        (fun e _ _ => supOne_isOpen n0 e)
        (fun e _ hen _ => by rw [supOne_other n0 e (by rw [hen]; exact fun hh => hnn hh.symm)]; exact ⟨rfl, rfl⟩)
  · have hc := coll_name s.2 h.wok "" [COp.newAttempt n0]
    rw [h.unnamed.1, h.unnamed.2] at hc
    by_cases hnn : n0 = ""
    · subst hnn
      have : [COp.newAttempt ""].filter (concerns "") = [COp.newAttempt ""] := by simp [concerns]
      rw [this, heldAfter_one, deliveries_one, stepFor_newAttempt] at hc
      exact ⟨hc.1, by rw [hc.2]; rfl⟩
    · have : [COp.newAttempt n0].filter (concerns "") = [] := by simp [concerns, hnn]
      rw [this] at hc
      exact ⟨hc.1, by rw [hc.2]; rfl⟩

/-! ### passes over the whole table: GOAWAY, connection loss -/

theorem abort_step (isServer : Bool) {e : Expect} {st : Stream} (h : SRel e st) (ho : e.isOpen = true) (r : Bool) (last code : Nat)
    (hl : e.id > last) :
    (e.name = "" → (st.abort (.conn code)).2 = []) ∧
    (e.name ≠ "" → ∃ t, (st.abort (.conn code)).2 = [t] ∧ TRel isServer (e.see (.frame r (.goaway last code))) t) := by
  refine ⟨fun hn => close_unnamed h hn false _, fun hn => ?_⟩
  rw [see_goaway, if_pos ⟨ho, hl⟩]
  exact close_resp_named isServer (e' := { e with ending := .goaway code }) h hn (.conn code) (.goaway code) rfl rfl rfl

theorem isLoss_not_retryable (err : Err) (h : err.isLoss = true) : err.retryable = false ∧ err ≠ .none := by
  cases err <;> simp_all [Err.isLoss, Err.retryable]

theorem lost_step (isServer : Bool) {e : Expect} {st : Stream} (h : SRel e st) (ho : e.isOpen = true) (err : Err)
    (hl : err.isLoss = true) :
    (e.name = "" → (if isServer then st.abort err else st.cancelClient err).2 = []) ∧
    (e.name ≠ "" → ∃ t, (if isServer then st.abort err else st.cancelClient err).2 = [t] ∧ TRel isServer (e.see (.lost err)) t) := by
  rw [see_open_lost e ho]
  cases isServer with
  | true =>
    refine ⟨fun hn => close_unnamed h hn false _, fun hn => ?_⟩
    exact close_resp_named true (e' := { e with ending := .lost err }) h hn err (.lost err) rfl rfl rfl
  | false =>
    refine ⟨fun hn => cancelClient_unnamed h hn _, fun hn => ?_⟩
    exact cancelClient_named (e' := { e with ending := .lost err }) h hn err (isLoss_not_retryable err hl).2 rfl

/-- the operations of a pass over (part of) the table, seen from test name `n` -/
theorem pass_ops {isServer g : Bool} {acc : List Expect} {s : L2 × Coll} (h : Inv isServer g acc s) (tbl' : Tbl) (sel : Nat → Bool)
    (F : Stream → List Trace) (w : WEv) (htok : TOK tbl') (hsub : ∀ p ∈ tbl', p ∈ s.1.streams ∧ sel p.1 = true)
    (hsup : ∀ i st, tGet i s.1.streams = some st → sel i = true → tGet i tbl' = some st)
    (hF : ∀ e ∈ acc, e.isOpen = true → sel e.id = true → ∀ st, SRel e st →
      (e.name = "" → F st = []) ∧ (e.name ≠ "" → ∃ t, F st = [t] ∧ TRel isServer (e.see w) t))
    (n : String) :
    (∀ x ∈ acc, x.isOpen = true → x.name = n → n ≠ "" → sel x.id = true →
      ∃ t, (tbl'.flatMap (fun p => completes (F p.2))).filter (concerns n) = [COp.complete t] ∧ TRel isServer (x.see w) t) ∧
    ((n = "" ∨ ∀ x ∈ acc, x.isOpen = true → x.name = n → sel x.id = false) →
      (tbl'.flatMap (fun p => completes (F p.2))).filter (concerns n) = []) := by
  rw [List.filter_flatMap]
  -- one table entry
  have hentry : ∀ p ∈ tbl', ∃ e ∈ acc, e.id = p.1 ∧ e.isOpen = true ∧ SRel e p.2 ∧ sel e.id = true := by
    intro p hp
    obtain ⟨e, he, hid, ho, hrel⟩ := h.rel p.1 p.2 (tGet_of_mem _ h.tok p (hsub p hp).1)
    exact ⟨e, he, hid, ho, hrel, by rw [hid]; exact (hsub p hp).2⟩
  have hzero : ∀ p ∈ tbl', (∀ e ∈ acc, e.id = p.1 → e.isOpen = true → e.name ≠ "" → e.name ≠ n) →
      (completes (F p.2)).filter (concerns n) = [] := by
    intro p hp hne
    obtain ⟨e, he, hid, ho, hrel, hsel⟩ := hentry p hp
    have hf := hF e he ho hsel p.2 hrel
    by_cases hn : e.name = ""
    · rw [hf.1 hn]; rfl
    · obtain ⟨t, ht, hT⟩ := hf.2 hn
      rw [ht, completes_one, filter_one_complete, if_neg]
      rw [hT.1, see_name]
      exact hne e he hid ho hn
  refine ⟨fun x hx hxo hxn hn hsel => ?_, fun hcase => ?_⟩
  · obtain ⟨st, hget, hrel⟩ := h.tblOpen x hx hxo
    obtain ⟨t, ht, hT⟩ := (hF x hx hxo hsel st hrel).2 (by rw [hxn]; exact hn)
    refine ⟨t, ?_, hT⟩
    rw [flatMap_only (fun p => (completes (F p.2)).filter (concerns n)) tbl' htok x.id st (hsup x.id st hget hsel)]
    · simp only [ht, completes_one, filter_one_complete]
      rw [if_pos]
      rw [hT.1, see_name]; exact hxn
    · intro p hp hne
      apply hzero p hp
      intro e he hid ho hen hname
      apply hne
      rw [← hid]
      exact h.accOK.uniq e he x hx (hname.trans hxn.symm) hen (h.accOK.fresh e he ho).2 (h.accOK.fresh x hx hxo).2
  · apply flatMap_none
    intro p hp
    apply hzero p hp
    intro e he hid ho hen hname
    rcases hcase with h0 | hall
    · exact hen (hname.trans h0)
    · have := hall e he ho hname
      have hsel := (hsub p hp).2
      rw [← hid, this] at hsel; cases hsel

theorem step_other {isServer g : Bool} {acc : List Expect} {s : L2 × Coll} (h : Inv isServer g acc s) (r : Bool) :
    Inv isServer g (acc.map (fun e => e.see (.frame r .other))) (wstep s (.frame r .other)) := by
  have hm : acc.map (fun e => e.see (.frame r .other)) = acc := by
    rw [List.map_congr_left (fun e _ => see_frame_other e r), List.map_id']
  have hw : wstep s (.frame r .other) = s := by
    obtain ⟨l2, c⟩ := s
    simp [wstep, handleFrame, applyOps, Coll.run]
  rw [hm, hw]; exact h

theorem flushed_closed (e : Expect) (hc : e.isOpen = false) :
    ({ e with flushedAfter := true } : Expect).core = e.core ∧ ({ e with flushedAfter := true } : Expect).isOpen = false ∧
    ({ e with flushedAfter := true } : Expect).held = false := by
  refine ⟨rfl, hc, ?_⟩
  simp [Expect.held]

theorem step_timers {isServer g : Bool} {acc : List Expect} {s : L2 × Coll} (h : Inv isServer g acc s) :
    Inv isServer g (acc.map (fun e => e.see .timers)) (wstep s .timers) := by
  rw [wstep_timers s h.wok]
  have hopen : ∀ e ∈ acc, e.isOpen = true → e.see .timers = e := fun e _ ho => see_open_timers e ho
  refine Inv.intro _ _ (AccOK_map_see h.accOK .timers) h.tok (by simp [Coll.cancel, WOK]) h.srv h.max ?_ ?_ ?_ ?_
  · intro e' he' ho
    obtain ⟨e, he, rfl⟩ := List.mem_map.mp he'
    have ho' := see_open_of_open e _ ho
    rw [hopen e he ho']
    exact h.tblOpen e he ho'
  · intro i st hg
    obtain ⟨e, he, hid, ho⟩ := h.tblOnly i st hg
    exact ⟨e.see .timers, List.mem_map_of_mem (f := fun e => e.see .timers) he, by rw [see_id]; exact hid, by rw [hopen e he ho]; exact ho⟩
  · intro n hn
    have hs := step_for s.2 h.wok n .cancel
    simp only [Coll.step, stepFor] at hs
    rw [hs.1, hs.2]
    exact NOK_flush (fun e => e.see .timers) (h.names n hn) (fun e _ => see_name e _) (fun e _ => see_superseded e _)
      (fun e he _ ho => hopen e he ho)
      (fun e _ _ hc => by rw [see_closed_timers e hc]; exact flushed_closed e hc)
  · have hs := step_for s.2 h.wok "" .cancel
    simp only [Coll.step, stepFor] at hs
    rw [hs.1, hs.2, h.unnamed.1, h.unnamed.2]
    exact ⟨rfl, rfl⟩

theorem step_goaway {isServer g : Bool} {acc : List Expect} {s : L2 × Coll} (h : Inv isServer g acc s) (r : Bool) (last code : Nat) :
    Inv isServer true (acc.map (fun e => e.see (.frame r (.goaway last code)))) (wstep s (.frame r (.goaway last code))) := by
  have hw : wstep s (.frame r (.goaway last code)) =
      (({ isServer := s.1.isServer, streams := s.1.streams.filter (fun p => !(p.1 > last)), maxId := last } : L2),
        s.2.run ((s.1.streams.filter (fun p => p.1 > last)).flatMap (fun p => completes (p.2.abort (.conn code)).2))) := by
    simp only [wstep, handleFrame, setMax, applyOps]
    rw [map_snd_flatMap_tag (fun p => completes (p.2.abort (.conn code)).2)]
  rw [hw]
  have hkeep : ∀ e ∈ acc, ¬ (e.isOpen = true ∧ e.id > last) → e.see (.frame r (.goaway last code)) = e := by
    intro e _ hc; rw [see_goaway, if_neg hc]
  have hpass := pass_ops h (s.1.streams.filter (fun p => decide (p.1 > last))) (fun i => decide (i > last))
    (fun st => (st.abort (.conn code)).2) (.frame r (.goaway last code)) (TOK_filter _ _ h.tok)
    (fun p hp => ⟨(List.mem_filter.mp hp).1, (List.mem_filter.mp hp).2⟩)
    (fun i st hg hsel => by rw [tGet_filter (fun k => decide (k > last)) i s.1.streams, if_pos hsel]; exact hg)
    (fun e _ ho hsel st hrel => abort_step isServer hrel ho r last code (by simpa using hsel))
  refine Inv.intro _ _ (AccOK_map_see h.accOK _) (TOK_filter _ _ h.tok) (WOK_run _ _ h.wok) h.srv (fun hgf => by cases hgf) ?_ ?_ ?_ ?_
  · intro e' he' ho
    obtain ⟨e, he, rfl⟩ := List.mem_map.mp he'
    have ho' := see_open_of_open e _ ho
    have hnl : ¬ e.id > last := by
      intro hl
      rw [see_goaway, if_pos ⟨ho', hl⟩] at ho
      simp [Expect.isOpen] at ho
    rw [hkeep e he (fun hc => hnl hc.2)]
    obtain ⟨st, hg, hrel⟩ := h.tblOpen e he ho'
    refine ⟨st, ?_, hrel⟩
    show tGet e.id (s.1.streams.filter (fun p => !(p.1 > last))) = some st
    rw [tGet_filter (fun k => !(decide (k > last))) e.id s.1.streams]
    simp [hnl, hg]
  · intro i st hg
    have hg' : tGet i (s.1.streams.filter (fun p => !(p.1 > last))) = some st := hg
    rw [tGet_filter (fun k => !(decide (k > last))) i s.1.streams] at hg'
    by_cases hl : i > last
    · simp [hl] at hg'
    · simp only [hl, decide_false, Bool.not_false, if_true] at hg'
      obtain ⟨e, he, hid, ho⟩ := h.tblOnly i st hg'
      refine ⟨e.see (.frame r (.goaway last code)), List.mem_map_of_mem (f := fun e => e.see (.frame r (.goaway last code))) he,
        by rw [see_id]; exact hid, ?_⟩
      rw [hkeep e he (fun hc => hl (by rw [← hid]; exact hc.2))]; exact ho
  · intro n hn
    have hc := coll_name s.2 h.wok n ((s.1.streams.filter (fun p => decide (p.1 > last))).flatMap (fun p => completes (p.2.abort (.conn code)).2))
    by_cases hex : ∃ x ∈ acc, x.isOpen = true ∧ x.name = n ∧ x.id > last
    · obtain ⟨x, hx, hxo, hxn, hxl⟩ := hex
      obtain ⟨t, ht, hT⟩ := (hpass n).1 x hx hxo hxn hn (by simpa using hxl)
      rw [ht, heldAfter_one, deliveries_one] at hc
      rw [hc.1, hc.2]
      refine NOK_close (fun e => e.see (.frame r (.goaway last code))) (h.names n hn) h.accOK x hx hxn hn hxo
        (fun e _ => see_name e _) (fun e _ => see_superseded e _) (fun e _ => see_id e _) ?_
        (by rw [see_open_flushed x hxo]; exact (h.accOK.fresh x hx hxo).1) t hT
      rw [see_goaway, if_pos ⟨hxo, hxl⟩]; simp [Expect.isOpen]
    · have hnone : ∀ x ∈ acc, x.isOpen = true → x.name = n → decide (x.id > last) = false := by
        intro x hx hxo hxn
        cases hd : decide (x.id > last) with
        | false => rfl
        | true => exact absurd ⟨x, hx, hxo, hxn, by simpa using hd⟩ hex
      rw [(hpass n).2 (Or.inr hnone)] at hc
      simp only [heldAfter, List.foldl_nil, deliveriesFor, List.append_nil] at hc
      rw [hc.1, hc.2]
      refine NOK_stable (fun e => e.see (.frame r (.goaway last code))) (h.names n hn) (fun e _ => see_name e _)
        (fun e _ _ => see_superseded e _) (fun e he hen => ?_) (fun e he _ hcl => by rw [see_closed_frame e hcl]; exact ⟨rfl, rfl⟩)
      rw [hkeep e he]
      intro hcc
      have := hnone e he hcc.1 hen
      simp [hcc.2] at this
  · have hc := coll_name s.2 h.wok "" ((s.1.streams.filter (fun p => decide (p.1 > last))).flatMap (fun p => completes (p.2.abort (.conn code)).2))
    rw [(hpass "").2 (Or.inl rfl)] at hc
    simp only [heldAfter, List.foldl_nil, deliveriesFor, List.append_nil] at hc
    rw [hc.1, hc.2]; exact h.unnamed

theorem run_snoc (c : Coll) (ops : List COp) (op : COp) : c.run (ops ++ [op]) = (c.run ops).step op := by
  simp [Coll.run, List.foldl_append]

theorem step_lost {isServer g : Bool} {acc : List Expect} {s : L2 × Coll} (h : Inv isServer g acc s) (err : Err)
    (hl : err.isLoss = true) :
    Inv isServer g (acc.map (fun e => e.see (.lost err))) (wstep s (.lost err)) := by
  have hw : wstep s (.lost err) =
      (({ isServer := s.1.isServer, streams := [], maxId := s.1.maxId } : L2),
        (s.2.run (s.1.streams.flatMap (fun p => completes (if isServer then p.2.abort err else p.2.cancelClient err).2))).step .cancel) := by
    simp only [wstep, cancelAll, applyOps, List.map_append, List.map_cons, List.map_nil, h.srv]
    rw [map_snd_flatMap_tag (fun p => completes (if isServer then p.2.abort err else p.2.cancelClient err).2), run_snoc]
  rw [hw]
  have hpass := pass_ops h s.1.streams (fun _ => true)
    (fun st => (if isServer then st.abort err else st.cancelClient err).2) (.lost err) h.tok
    (fun p hp => ⟨hp, rfl⟩) (fun i st hg _ => hg)
    (fun e _ ho _ st hrel => by
      have := lost_step isServer hrel ho err hl
      cases isServer <;> exact this)
  have hpass' : ∀ n, _ := fun n => hpass n
  have hwok : WOK (s.2.run (s.1.streams.flatMap (fun p => completes (if isServer then p.2.abort err else p.2.cancelClient err).2))).waiting :=
    WOK_run _ _ h.wok
  have hflat : ∀ p : Nat × Stream, completes (if isServer = true then p.2.abort err else p.2.cancelClient err).2 =
      completes ((fun st : Stream => (if isServer = true then st.abort err else st.cancelClient err).2) p.2) := fun p => rfl
  refine Inv.intro _ _ (AccOK_map_see h.accOK _) (by simp [TOK]) (WOK_step _ hwok .cancel) h.srv h.max ?_ ?_ ?_ ?_
  · intro e' he' ho
    obtain ⟨e, he, rfl⟩ := List.mem_map.mp he'
    have ho' := see_open_of_open e _ ho
    rw [see_open_lost e ho'] at ho
    simp [Expect.isOpen] at ho
  · intro i st hg
    simp [tGet] at hg
  · intro n hn
    have hc := coll_name s.2 h.wok n (s.1.streams.flatMap (fun p => completes (if isServer then p.2.abort err else p.2.cancelClient err).2))
    have hs := step_for _ hwok n .cancel
    simp only [stepFor] at hs
    rw [hs.1, hs.2]
    by_cases hex : ∃ x ∈ acc, x.isOpen = true ∧ x.name = n
    · obtain ⟨x, hx, hxo, hxn⟩ := hex
      obtain ⟨t, ht, hT⟩ := (hpass n).1 x hx hxo hxn hn rfl
      rw [ht, heldAfter_one, deliveries_one] at hc
      have hx0 := ((h.names n hn).1 x hx hxn (h.accOK.fresh x hx hxo).2).1 hxo
      have htn : t.name = n := by rw [hT.1, see_name]; exact hxn
      have hnr : t.err.retryable = false := by
        rw [hT.2.1, see_open_lost x hxo]
        exact (isLoss_not_retryable err hl).1
      have hclose := NOK_close (fun e => e.see (.lost err)) (h.names n hn) h.accOK x hx hxn hn hxo
        (fun e _ => see_name e _) (fun e _ => see_superseded e _) (fun e _ => see_id e _)
        (by rw [see_open_lost x hxo]; simp [Expect.isOpen])
        (by rw [see_open_flushed x hxo]; exact (h.accOK.fresh x hx hxo).1) t hT
      rw [hx0.1, hx0.2] at hc hclose
      have hsf : stepFor n none (COp.complete t) = (none, [t]) := stepFor_final n t htn hnr
      rw [hsf] at hc hclose
      rw [hc.1, hc.2]
      simpa using hclose
    · have hnone : ∀ x ∈ acc, x.isOpen = true → x.name = n → (fun _ : Nat => true) x.id = false := by
        intro x hx hxo hxn
        exact absurd ⟨x, hx, hxo, hxn⟩ hex
      rw [(hpass n).2 (Or.inr hnone)] at hc
      simp only [heldAfter, List.foldl_nil, deliveriesFor, List.append_nil] at hc
      rw [hc.1, hc.2]
      exact NOK_flush (fun e => e.see (.lost err)) (h.names n hn) (fun e _ => see_name e _) (fun e _ => see_superseded e _)
        (fun e he hen ho => absurd ⟨e, he, ho, hen⟩ hex)
        (fun e _ _ hcl => by rw [see_closed_lost e hcl]; exact flushed_closed e hcl)
  · have hc := coll_name s.2 h.wok "" (s.1.streams.flatMap (fun p => completes (if isServer then p.2.abort err else p.2.cancelClient err).2))
    have hs := step_for _ hwok "" .cancel
    simp only [stepFor] at hs
    rw [hs.1, hs.2]
    rw [(hpass "").2 (Or.inl rfl)] at hc
    simp only [heldAfter, List.foldl_nil, deliveriesFor, List.append_nil] at hc
    rw [hc.1, hc.2, h.unnamed.1, h.unnamed.2]
    exact ⟨rfl, rfl⟩

end ConfModel.H2
