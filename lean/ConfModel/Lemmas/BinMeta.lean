/-
Helper lemmas for the binary-metadata part of C13.
-/
import ConfModel.Model.BinMeta
import ConfModel.Spec.BinMeta
import ConfModel.Lemmas.ConnectJson
namespace ConfModel.BinMeta
open ConfModel.BinMetaSpec
open ConfModel.ConnectJson (rawStdDecode)
open ConfModel.ServerTimeout (Bytes)

theorem mapM_isSome (l : Bytes) : (Base64.mapM? Base64.decChar l).isSome = l.all inAlphabet := by
  induction l with
  | nil => rfl
  | cons a t ih =>
    unfold Base64.mapM?
    simp only [List.all_cons, inAlphabet, ← ih]
    cases Base64.decChar a <;> cases Base64.mapM? Base64.decChar t <;> rfl

theorem mapM_length (l : Bytes) (sx : List Nat) (h : Base64.mapM? Base64.decChar l = some sx) :
    sx.length = l.length := by
  induction l generalizing sx with
  | nil => cases h; rfl
  | cons a t ih =>
    unfold Base64.mapM? at h
    cases ha : Base64.decChar a with
    | none => simp [ha] at h
    | some x =>
      cases ht : Base64.mapM? Base64.decChar t with
      | none => simp [ha, ht] at h
      | some r =>
        simp only [ha, ht, Option.some.injEq] at h
        subst h
        simp [ih r ht]

theorem unsextets_isSome (l : List Nat) : (Base64.unsextets l).isSome = (l.length % 4 != 1) := by
  fun_induction Base64.unsextets l with
  | case1 w x y z t ih =>
    simp only [Option.isSome_map, ih, List.length_cons]
    congr 1
    omega
  | case2 => rfl
  | case3 => rfl
  | case4 => rfl
  | case5 => rfl

theorem decodeRaw_isSome (w : Bytes) :
    (Base64.decodeRaw w).isSome = (w.all inAlphabet && w.length % 4 != 1) := by
  unfold Base64.decodeRaw
  cases h : Base64.mapM? Base64.decChar w with
  | none =>
    have := mapM_isSome w
    rw [h] at this
    simp [← this]
  | some sx =>
    have h1 := mapM_isSome w
    rw [h] at h1
    simp only [Option.isSome_map, unsextets_isSome, mapM_length w sx h, ← h1, Option.isSome_some, Bool.true_and]

theorem rawStd_isSome (v : Bytes) : (rawStdDecode v).isSome = unpaddedB64 v := by
  unfold rawStdDecode unpaddedB64 isCRLF
  exact decodeRaw_isSome _

theorem padBody_length (w b : Bytes) (h : padBody w = some b) : b.length + 1 = w.length ∨ b.length + 2 = w.length := by
  unfold padBody at h
  have hlen : w.reverse.length = w.length := List.length_reverse
  split at h
  · rename_i t hr
    rw [hr] at hlen
    simp only [Option.some.injEq] at h; subst h
    right; simp only [List.length_cons] at hlen; simp; omega
  · rename_i t _ hr
    rw [hr] at hlen
    simp only [Option.some.injEq] at h; subst h
    left; simp only [List.length_cons] at hlen; simp; omega
  · cases h

/-- when the unpadded decoder fails, the padded one succeeds exactly on `paddedB64` -/
theorem std_isSome (v : Bytes) (h : unpaddedB64 v = false) : (stdDecode v).isSome = paddedB64 v := by
  unfold stdDecode paddedB64
  simp only []
  generalize hw : v.filter (fun c => !isCRLF c) = w
  have hu : (w.all inAlphabet && w.length % 4 != 1) = false := by
    unfold unpaddedB64 at h; simp only [hw] at h; exact h
  by_cases hl : w.length % 4 = 0
  · have hl' : (w.length % 4 != 0) = false := by simp [hl]
    simp only [hl', Bool.false_eq_true, if_false, hl, beq_self_eq_true, Bool.true_and]
    cases hp : padBody w with
    | none =>
      have h1 : (w.length % 4 != 1) = true := by simp [hl]
      rw [h1, Bool.and_true] at hu
      simp [decodeRaw_isSome, hu]
    | some b =>
      have hb : (b.length % 4 != 1) = true := by
        rcases padBody_length w b hp with hlen | hlen
        · have : b.length % 4 = 3 := by omega
          simp [this]
        · have : b.length % 4 = 2 := by omega
          simp [this]
      simp [decodeRaw_isSome, hb]
  · have hl' : (w.length % 4 != 0) = true := by simp [hl]
    have hl2 : (w.length % 4 == 0) = false := by simp [hl]
    simp [hl', hl2]

theorem binValueFb_none (v : Bytes) : binValueFb v = none ↔ unpaddedB64 v = true := by
  unfold binValueFb
  rw [rawStd_isSome]
  cases h : unpaddedB64 v with
  | true => simp
  | false => cases (stdDecode v).isSome <;> simp

theorem binValueFb_padded (v : Bytes) : binValueFb v = some .padded ↔ (unpaddedB64 v = false ∧ paddedB64 v = true) := by
  unfold binValueFb
  rw [rawStd_isSome]
  cases h : unpaddedB64 v with
  | true => simp
  | false => rw [std_isSome v h]; cases paddedB64 v <;> simp

theorem binValueFb_invalid (v : Bytes) : binValueFb v = some .invalid ↔ (unpaddedB64 v = false ∧ paddedB64 v = false) := by
  unfold binValueFb
  rw [rawStd_isSome]
  cases h : unpaddedB64 v with
  | true => simp
  | false => rw [std_isSome v h]; cases paddedB64 v <;> simp

/-! ### the loop over entries and values -/

/-- the examination of a flat list of values -/
theorem valuesFb_append (a b : List Bytes) :
    valuesFb (a ++ b) = if (valuesFb a).2 then valuesFb a else ((valuesFb a).1 ++ (valuesFb b).1, (valuesFb b).2) := by
  induction a with
  | nil => simp [valuesFb]
  | cons v t ih =>
    cases hv : binValueFb v with
    | none => simpa [valuesFb, hv] using ih
    | some f =>
      cases f with
      | padded =>
        simp only [List.cons_append, valuesFb, hv, ih]
        rcases valuesFb t with ⟨fb, stop⟩
        cases stop <;> simp
      | invalid => simp [valuesFb, hv]

theorem check_eq_values (md : List (Bytes × List Bytes)) :
    checkBinaryMetadata md = (valuesFb (examinedValues md)).1 := by
  induction md with
  | nil => rfl
  | cons e t ih =>
    obtain ⟨name, vals⟩ := e
    unfold checkBinaryMetadata examinedValues
    by_cases hx : examined name = true
    · simp only [hx, if_true, List.filter_cons, List.flatMap_cons]
      have ih' : checkBinaryMetadata t = (valuesFb ((t.filter (fun e => examined e.1)).flatMap (·.2))).1 := ih
      rw [valuesFb_append, ih']
      cases (valuesFb vals).2 <;> simp
    · have hx' : examined name = false := by simpa using hx
      simp only [hx', Bool.false_eq_true, if_false, List.filter_cons]
      exact ih

theorem valuesFb_nil_iff (vs : List Bytes) : (valuesFb vs).1 = [] ↔ vs.all unpaddedB64 = true := by
  induction vs with
  | nil => simp [valuesFb]
  | cons v t ih =>
    cases hv : binValueFb v with
    | none => simp [valuesFb, hv, (binValueFb_none v).mp hv, ih]
    | some f =>
      have hn : unpaddedB64 v = false := by
        cases f with
        | padded => exact ((binValueFb_padded v).mp hv).1
        | invalid => exact ((binValueFb_invalid v).mp hv).1
      cases f <;> simp [valuesFb, hv, hn]

theorem valuesFb_invalid (vs : List Bytes) (h : vs.any (fun v => !unpaddedB64 v && !paddedB64 v) = true) :
    BinFb.invalid ∈ (valuesFb vs).1 := by
  induction vs with
  | nil => simp at h
  | cons v t ih =>
    cases hv : binValueFb v with
    | none =>
      have := (binValueFb_none v).mp hv
      simp only [List.any_cons, this, Bool.not_true, Bool.false_and, Bool.false_or] at h
      simpa [valuesFb, hv] using ih h
    | some f =>
      cases f with
      | invalid => simp [valuesFb, hv]
      | padded =>
        have := (binValueFb_padded v).mp hv
        simp only [List.any_cons, this.2, Bool.not_true, Bool.and_false, Bool.false_or] at h
        simp [valuesFb, hv, ih h]

theorem valuesFb_padded_count (vs : List Bytes) (h : vs.any (fun v => !unpaddedB64 v && !paddedB64 v) = false) :
    ((valuesFb vs).1.filter (· == .padded)).length = (vs.filter (fun v => !unpaddedB64 v)).length := by
  induction vs with
  | nil => rfl
  | cons v t ih =>
    simp only [List.any_cons, Bool.or_eq_false_iff] at h
    cases hv : binValueFb v with
    | none => simp [valuesFb, hv, (binValueFb_none v).mp hv, ih h.2]
    | some f =>
      cases f with
      | padded => simp [valuesFb, hv, ((binValueFb_padded v).mp hv).1, ih h.2]
      | invalid =>
        have := (binValueFb_invalid v).mp hv
        simp [this.1, this.2] at h

end ConfModel.BinMeta
