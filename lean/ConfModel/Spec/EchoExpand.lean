/-
C02 ∘ C19: what C02's load model (`EchoLoad.Dir`) keeps of a directive of C19's model of
`expandRequestData`'s arithmetic (`Expand.Directive`, `Expand.expand`): no size given / the padding
loop ends in `ok` / it ends in any error (range, negative length, "can't pad to exactly").
-/
import ConfModel.Model.EchoLoad
import ConfModel.Model.Expand
namespace ConfModel.EchoLoad
open ConfModel

def dirOf (limit : Nat) (d : Expand.Directive) : Dir :=
  match d.off with
  | none => .absent
  | some off => if (Expand.expand limit d.r d.l0 off).isOk then .fits else .misfit

end ConfModel.EchoLoad
