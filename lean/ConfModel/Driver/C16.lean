import ConfModel.Driver.Common
namespace ConfModel.Driver.C16
open Lean ConfModel.Driver

def handle : Handler := fun op _inp _impl => bad ("C16: unknown op " ++ op)

end ConfModel.Driver.C16
