import ConfModel.Driver.Common
import ConfModel.Model.DataTracer
import ConfModel.Model.DataTracerSeg
import ConfModel.Model.H2Body
import ConfModel.Model.H2DataFrame
import ConfModel.Spec.Envelopes
import ConfModel.Model.Builder
import ConfModel.Spec.Handoff
namespace ConfModel.Driver.C14
open Lean ConfModel.Driver ConfModel.DataTracer ConfModel.Envelopes

def errName : EndErr → String
  | .nil => "nil"
  | .inner => "inner"
  | .other => "other"

/-- same canonical form as `VerifBodyEvents` on the Go side -/
def render (side : String) : NEv → String
  | .data none n i => s!"{side}d:-:-:{n}:{i}"
  | .data (some e) n i => s!"{side}d:{e.flags.toNat}:{e.len}:{n}:{i}"
  | .endStream x => s!"{side}s:{hex x}"
  | .bodyEnd e => s!"{side}e:{errName e}"

/-- the decompressor of the run: a finite table supplied by the harness (real decompressor
outputs); `"!"` = it failed -/
def decOf (table : List (String × Bytes × Option Bytes)) (name : String) (payload : Bytes) : Option Bytes :=
  match table.find? (fun t => t.1 == name && t.2.1 == payload) with
  | some t => t.2.2
  | none => none

def decTable (j : Json) : List (String × Bytes × Option Bytes) :=
  (arr j).map fun row =>
    match strList row with
    | [n, p, x] => (n, unhex p, if x == "!" then none else some (unhex x))
    | _ => ("?", [], none)

/-- configuration of one side from the header fields of the input -/
def cfgOf (inp : Json) (isReq : Bool) (table : List (String × Bytes × Option Bytes)) : Cfg :=
  let props := propsFromHeaders (str (field inp "ct")) (str (field inp "ce"))
  let name := if props.2 == 1 then str (field inp "cce") else if props.2 == 2 then str (field inp "ge") else "?"
  { isRequest := isReq, isStream := props.1, dec := decOf table name }

/-- the wrapper operations of a reader session: reads, the ending, what follows -/
def readerOps (reads : List Bytes) (ending : String) (post : List String) : List Op × EndErr :=
  let datas := reads.map Op.data
  let endErr : EndErr := match ending with
    | "eof" | "eofdata" => .nil
    | "err" | "errdata" | "closeerr" => .inner
    | _ => .other
  let readAfter : EndErr := if ending == "err" || ending == "errdata" then .inner else .nil
  let closeAfter : EndErr := if ending == "closeerr" then .inner else .other
  let postOps := post.flatMap fun a => if a == "c" then [Op.fin closeAfter] else [Op.data [], Op.fin readAfter]
  (datas ++ [Op.fin endErr] ++ postOps, endErr)

def stepsOf (j : Json) : List (String × String) := (arr j).map fun s => (str (field s "d"), str (field s "e"))

def tailName : Tail → String
  | .clean => "clean"
  | .partialPrefix _ => "partial-prefix"
  | .partialPayload _ _ => "partial-payload"

/-! ### middleware sessions: both sides of one operation go through one builder -/

/-- what the middleware hands to `builder.add`, in program order -/
inductive MEv
  | out (isReq : Bool) (o : Out)
  | respStart
  | respErr

def MEv.kind : MEv → Builder.Kind
  | .out true (.ev (.data _ _)) => .reqData
  | .out false (.ev (.data _ _)) => .respData
  | .out _ (.ev (.endStream _)) => .respEos
  | .out true (.bodyEnd .nil) => .reqEnd
  | .out true (.bodyEnd _) => .reqEndErr
  | .out false (.bodyEnd .nil) => .respEnd
  | .out false (.bodyEnd _) => .respEndErr
  | .respStart => .respStart
  | .respErr => .respErr

def renderItem (evs : Array MEv) (it : Builder.Item) : String :=
  match evs[it.id]? with
  | some (.out isReq (.ev (.data e n))) => render (if isReq then "q" else "p") (.data e n (it.index.getD 0))
  | some (.out isReq (.ev (.endStream x))) => render (if isReq then "q" else "p") (.endStream x)
  | some (.out isReq (.bodyEnd e)) => render (if isReq then "q" else "p") (.bodyEnd e)
  | some .respStart => "P"
  | some .respErr => "PX"
  | none => "?"

/-- run the builder model over the middleware's events (`build`: the server side defers it) -/
def deliver (evs : List MEv) (build : Bool) : List (List String) :=
  let ops := evs.zipIdx.map (fun p => Builder.Op.add p.1.kind p.2) ++ (if build then [Builder.Op.build] else [])
  (Builder.exec (Builder.init true) ops).2.map (·.map (renderItem evs.toArray))

def sideCfg (j : Json) (isReq : Bool) (table : List (String × Bytes × Option Bytes)) : Cfg := cfgOf j isReq table

/-- the scripted inner reader: the steps it returns, in order (`(data, none)` = nil error) -/
def scriptSteps (reads : List Bytes) (ending : String) : List (Bytes × Option EndErr) :=
  let ok := reads.map (fun d => (d, (none : Option EndErr)))
  let e : EndErr := if ending.startsWith "err" then .inner else .nil
  match ending with
  | "eof" | "err" => ok ++ [([], some e)]
  | "eofdata" | "errdata" =>
    match ok.reverse with
    | [] => [([], some e)]
    | (d, _) :: rest => (rest.reverse) ++ [(d, some e)]
  | _ => ok

/-- events of the complete messages only (a side that was not read to an end) -/
def unfinishedSpec (c : Cfg) (b : Bytes) : List NEv :=
  if c.isStream then numberEvs 0 ((parse b).1.flatMap (itemEvents c)) else []

def isPrefixOf (a b : List String) : Bool := a.length ≤ b.length && b.take a.length == a

structure HSt where
  req : WSt := winit
  resp : WSt := winit
  steps : List (Bytes × Option EndErr)
  after : Option EndErr := none   -- what a Read past the script's end returns
  reqBytes : Bytes := []
  reqEnd : Option EndErr := none
  started : Bool := false
  written : Bytes := []
  respEnd : Option EndErr := none
  evs : List MEv := []
  panicked : Bool := false
  -- the first finishing event (request-body error, or the end of the response body) takes the
  -- trace; which sides had reached their end by then
  finished : Bool := false
  reqDoneAtFinish : Bool := false
  respDoneAtFinish : Bool := false

def hReqOp (cq : Cfg) (h : HSt) (o : Op) : HSt :=
  let r := wstep cq h.req o
  let endNow : Option EndErr := match o with
    | .fin e => if h.req.closed then none else some e
    | _ => none
  let h := { h with req := r.1, evs := h.evs ++ r.2.map (MEv.out true),
                    reqEnd := if h.reqEnd.isSome then h.reqEnd else endNow }
  match endNow with
  | some e => if !h.finished && e != .nil then
      { h with finished := true, reqDoneAtFinish := true, respDoneAtFinish := h.respEnd.isSome } else h
  | none => h

def hRespOp (cp : Cfg) (h : HSt) (o : Op) : HSt :=
  let r := wstep cp h.resp o
  let endNow : Option EndErr := match o with
    | .fin e => if h.resp.closed then none else some e
    | _ => none
  let h := { h with resp := r.1, evs := h.evs ++ r.2.map (MEv.out false),
                    respEnd := if h.respEnd.isSome then h.respEnd else endNow }
  match endNow with
  | some _ => if !h.finished then
      { h with finished := true, respDoneAtFinish := true, reqDoneAtFinish := h.reqEnd.isSome } else h
  | none => h

def hStart (h : HSt) : HSt := if h.started then h else { h with started := true, evs := h.evs ++ [MEv.respStart] }

/-- one action of the scripted handler -/
def hAction (cq cp : Cfg) (accept : Int) (h : HSt) (a : Json) : HSt :=
  if h.panicked then h else
  match str (field a "k") with
  | "read" =>
    let (d, e, rest, after) := match h.steps with
      | (d, e) :: rest => (d, e, rest, if e.isSome then e else h.after)
      | [] => (([] : Bytes), some (h.after.getD .nil), ([] : List (Bytes × Option EndErr)), h.after)
    let h := { h with steps := rest, after := after, reqBytes := if h.reqEnd.isSome then h.reqBytes else h.reqBytes ++ d }
    let h := hReqOp cq h (.data d)
    match e with
    | some e => hReqOp cq h (.fin e)
    | none => h
  | "closeReq" => hReqOp cq h (.fin .other)
  | "wh" => hStart h
  | "w" =>
    let d := unhex (str (field a "d"))
    let h := hStart h
    let room : Nat := if accept < 0 then d.length else (accept.toNat - h.written.length)
    let n := min d.length room
    let h := { h with written := h.written ++ d.take n }
    let h := hRespOp cp h (.data (d.take n))
    if n < d.length then hRespOp cp h (.fin .inner) else h
  | "panic" => { h with panicked := true }
  | _ => h

/-- the whole server-side session: actions, then the deferred `tryFinish` -/
def hRun (cq cp : Cfg) (accept : Int) (steps : List (Bytes × Option EndErr)) (actions : List Json) : HSt :=
  let h := actions.foldl (hAction cq cp accept) { steps := steps }
  let h := hStart h
  hRespOp cp h (.fin (if h.panicked then .other else .nil))

/-- per-side projection of an observed trace against the specification: a side that had
reached its end when the trace was taken must show exactly its specified events; the other side
a prefix of the events of its complete messages -/
def projOk (side : String) (c : Cfg) (bytes : Bytes) (ended : Option EndErr) (doneAtFinish : Bool)
    (events : List String) : Bool :=
  let mine := events.filter (fun (e : String) => e.startsWith side && e.length > 1)
  match doneAtFinish, ended with
  | true, some e =>
    mine == (specTrace c bytes e).map (render side) || mine == (specTraceAlt c bytes e).map (render side)
  | _, _ => isPrefixOf mine ((unfinishedSpec c bytes).map (render side))

/-- the response start precedes every response-body event and occurs at most once -/
def startOk (events : List String) : Bool :=
  (events.filter (· == "P")).length ≤ 1 &&
  match events.findIdx? (fun e => e.startsWith "p") with
  | some i => (events.take i).contains "P"
  | none => true

/-! ### op `big`: bodies given by segments (calls) and by their structure (envelopes) -/

/-- the calls of one direction: `{"x": hex}` literal bytes, `{"z": n, "t": times}` filler -/
def segsOf (j : Json) : List Seg :=
  (arr j).flatMap fun g =>
    let times := max 1 (nat (field g "t"))
    let z := nat (field g "z")
    let x := str (field g "x")
    List.replicate times (if z > 0 || x == "" then Seg.fill z else Seg.lit (unhex x))

/-- the structure of a direction's body: its complete envelopes (the payload is given where the
specification looks at it, see `Lemmas.EnvelopeEncode.itemEvents_payload_irrel`) and what is
left after the last one -/
def structOf (j : Json) : List Item × Tail :=
  let items := (arr (field j "items")).map fun it =>
    (⟨⟨UInt8.ofNat (nat (field it "flags")), nat (field it "len")⟩, unhex (str (field it "payload"))⟩ : Item)
  let tail : Tail := match arr (field j "tail") with
    | [k, n] => if str k == "prefix" then .partialPrefix (nat n) else .clean
    | [k, f, n, seen] => if str k == "payload" then .partialPayload ⟨UInt8.ofNat (nat f), nat n⟩ (nat seen) else .clean
    | _ => .clean
  (items, tail)

def endErrOf (ending : String) : EndErr :=
  match ending with
  | "eof" => .nil
  | "err" => .inner
  | _ => .other

/-- the specified events of a direction, from the structure (a stream) or from the byte total -/
def bigSpec (c : Cfg) (j : Json) (segs : List Seg) (e : EndErr) (alt : Bool) : List NEv :=
  let total := (segs.map Seg.length).foldl (· + ·) 0
  let st := structOf j
  let evs := if c.isStream then st.1.flatMap (itemEvents c) ++ (if alt then tailEventsAlt st.2 else tailEvents st.2)
             else countEvents total
  numberEvs 0 evs ++ [NEv.bodyEnd e]

structure BigSide where
  cfg : Cfg
  segs : List Seg
  err : EndErr
  model : List Out
  specA : List String
  specB : List String
  total : Nat

def bigSide (j : Json) (isReq : Bool) (e : EndErr) : BigSide :=
  let c := cfgOf j isReq []
  let segs := segsOf (field j "segs")
  let side := if isReq then "q" else "p"
  { cfg := c, segs := segs, err := e,
    model := (wrunS c winit (segs.map SOp.seg ++ [SOp.fin e])).2,
    specA := (bigSpec c j segs e false).map (render side),
    specB := (bigSpec c j segs e true).map (render side),
    total := (segs.map Seg.length).foldl (· + ·) 0 }

def sideOutOk (j : Json) (b : BigSide) (endCls : String) : Bool :=
  nat (field j "total") == b.total && nat (field j "mismatch") == 0 && str (field j "array") == "" &&
  nat (field j "calls") == b.segs.length && str (field j "end") == endCls

def handleBig (inp impl : Json) : Verdict :=
  if !(isNull (field impl "panic")) then
    { agree := false, holds := false, why := "panic: " ++ str (field impl "panic") } else
  let path := str (field inp "path")
  let sideName := str (field inp "side")
  let rq := field inp "req"
  let rp := field inp "resp"
  let implEvents := (strList (field impl "events")).filter (· != "Q")
  let completions := nat (field impl "completions")
  let qEv := implEvents.filter (fun (e : String) => e.startsWith "q")
  let pEv := implEvents.filter (fun (e : String) => e.startsWith "p")
  match path with
  | "reader" =>
    let isReq := sideName == "req"
    let j := if isReq then rq else rp
    let b := bigSide j isReq (endErrOf (str (field j "ending")))
    let side := if isReq then "q" else "p"
    let mEvents := (number 0 b.model).map (render side)
    let mine := if isReq then qEv else pEv
    let traceOk := mine == b.specA || mine == b.specB
    -- what the caller's final Read / Close returned: the inner reader's own result
    let endCls := match str (field j "ending") with | "eof" => "eof" | "err" => "inner" | _ => "nil"
    let passOk := sideOutOk (field impl (if isReq then "req" else "resp")) b endCls
    let holds := traceOk && passOk && completions == 1
    { agree := mine == mEvents && (mEvents == b.specA || mEvents == b.specB) && completions == 1 && passOk,
      holds := holds, nontrivial := b.total ≥ 2 ^ 32 || b.segs.length > 8,
      model := toJson mEvents, cls := if b.cfg.isStream then "big-stream" else "big-non-stream",
      why := if holds then "" else
        if !traceOk then s!"trace {mine} but a body of {b.total} bytes with this structure gives {b.specA}"
        else if !passOk then "the caller did not see what the inner reader returned (" ++ (field impl (if isReq then "req" else "resp")).compress ++ ")"
        else s!"trace delivered {completions} times" }
  | "handler" | "rt" =>
    -- the request body is read to its end (EOF) by the handler / the transport; then the response
    let q := bigSide rq true .nil
    let respErr : EndErr := if path == "handler" then .nil else endErrOf (str (field rp "ending"))
    let p := bigSide rp false respErr
    let evs := q.model.map (MEv.out true) ++ [MEv.respStart] ++ p.model.map (MEv.out false)
    let mEvents := match deliver evs (path == "handler") with | [l] => l | _ => []
    let traceOk := (qEv == q.specA || qEv == q.specB) && (pEv == p.specA || pEv == p.specB) && startOk implEvents
    let mQ := mEvents.filter (fun (e : String) => e.startsWith "q")
    let mP := mEvents.filter (fun (e : String) => e.startsWith "p")
    let respEnd := if path == "handler" then "nil" else
      match str (field rp "ending") with | "eof" => "eof" | "err" => "inner" | _ => "nil"
    let passOk := sideOutOk (field impl "req") q "eof" && sideOutOk (field impl "resp") p respEnd
    let holds := traceOk && passOk && completions == 1
    { agree := implEvents == mEvents && (mQ == q.specA || mQ == q.specB) && (mP == p.specA || mP == p.specB) &&
        completions == 1 && passOk,
      holds := holds, nontrivial := q.total ≥ 2 ^ 32 || p.total ≥ 2 ^ 32,
      model := toJson mEvents,
      cls := if (q.cfg.isStream && q.total ≥ 2 ^ 31) || (p.cfg.isStream && p.total ≥ 2 ^ 31) then "big-stream" else "big-non-stream",
      why := if holds then "" else
        if !traceOk then s!"trace {implEvents} but bodies of {q.total} / {p.total} bytes with these structures give {q.specA} / {p.specA}"
        else if !passOk then "the handler / transport / caller / underlying writer did not see the bodies unchanged (" ++
          (field impl "req").compress ++ " " ++ (field impl "resp").compress ++ ")"
        else s!"trace delivered {completions} times" }
  | _ => bad ("C14 big: unknown path " ++ path)

/-! ### op `h2`: a stream traced at the HTTP/2 connection level -/

def fieldsOf (j : Json) : List (String × String) :=
  (arr j).map (fun p => match arr p with | [k, v] => (str k, str v) | _ => ("", ""))

def hdr (f : List (String × String)) (k : String) : String :=
  match f.find? (fun kv => kv.1 == k) with | some kv => kv.2 | none => ""

/-- the tracer configuration `propertiesFromHeaders` derives from a HEADERS frame (identity
encodings only in generated traffic: the decompressor is never consulted) -/
def h2Cfg (f : List (String × String)) (isReq : Bool) : Cfg :=
  { isRequest := isReq, isStream := (propsFromHeaders (hdr f "content-type") (hdr f "content-encoding")).1, dec := fun _ => none }

structure H2Life where
  opened : Bool := false
  closed : Bool := false
  gotResp : Bool := false
  cq : Cfg := ⟨true, false, fun _ => none⟩
  cp : Cfg := ⟨false, false, fun _ => none⟩
  ops : List HOp := []
  reqEnded : Option EndErr := none
  respEnded : Option EndErr := none
  brokenQ : Bool := false   -- the request direction's frame tracer met a frame the framer rejects
  brokenP : Bool := false
  padded : Nat := 0         -- DATA frames with the PADDED flag that reached a tracer

/-- a DATA frame of the input as the sender describes it: data `x`, PADDED flag, padding octets `padx` -/
def h2PData (j : Json) : PData :=
  { data := unhex (str (field j "x")), pad := if bool (field j "padded") then some (unhex (str (field j "padx"))) else none }

/-- the bytes a DATA frame contributes to the body.  `wire = true`: what the code is given — the frame
as it is on the wire (`PData.wire`: Pad Length octet, data, padding), through the model of
`parseDataFrame` (`DFrame.data`).  `wire = false`: the specification's reading — the data. -/
def h2Data (wire : Bool) (j : Json) : Option Bytes :=
  if wire then (h2PData j).wire.data else some (h2PData j).data

/-- what the connection tracer does with the frames of stream `id`, in wire order (`handleFrame`) -/
def h2Frame (wire : Bool) (id : Nat) (l : H2Life) (j : Json) : H2Life :=
  let d := str (field j "d")
  let t := str (field j "t")
  let es := bool (field j "es")
  -- `http2FrameTracer.broken`: nothing of that direction is looked at any more
  if (d == "q" && l.brokenQ) || (d == "p" && l.brokenP) then l else
  if t == "D" && (h2Data wire j).isNone then
    (if d == "q" then { l with brokenQ := true } else { l with brokenP := true }) else
  let body := (h2Data wire j).getD []
  let pd := if bool (field j "padded") then 1 else 0
  if t == "G" then
    if l.opened && !l.closed && nat (field j "last") < id then
      { l with closed := true, ops := l.ops ++ [.respEnd], respEnded := some .other } else l
  else if nat (field j "id") != id then l
  else match d, t with
  | "q", "H" =>
    if !l.opened then
      let l := { l with opened := true, cq := h2Cfg (fieldsOf (field j "f")) true }
      if es then { l with ops := l.ops ++ [.reqEnd], reqEnded := some .nil } else l
    else if l.closed then l
    else if es then { l with ops := l.ops ++ [.reqEnd], reqEnded := if l.reqEnded.isSome then l.reqEnded else some .nil } else l
  | "q", "D" =>
    if !l.opened || l.closed then l else
    let l := { l with ops := l.ops ++ [.reqData body], padded := l.padded + pd }
    if es then { l with ops := l.ops ++ [.reqEnd], reqEnded := if l.reqEnded.isSome then l.reqEnded else some .nil } else l
  | "q", "R" =>
    if !l.opened || l.closed then l else
    { l with closed := true, ops := l.ops ++ [.reqAbort], reqEnded := if l.reqEnded.isSome then l.reqEnded else some .other }
  | "p", "H" =>
    if !l.opened || l.closed then l else
    let l := if l.gotResp then l else { l with gotResp := true, cp := h2Cfg (fieldsOf (field j "f")) false }
    if es then { l with closed := true, ops := l.ops ++ [.respEnd], respEnded := some .nil } else l
  | "p", "D" =>
    if !l.opened || l.closed then l else
    let l := if l.gotResp then { l with ops := l.ops ++ [.respData body], padded := l.padded + pd } else l
    if es then { l with closed := true, ops := l.ops ++ [.respEnd], respEnded := some .nil } else l
  | "p", "R" =>
    if !l.opened || l.closed then l else
    { l with closed := true, ops := l.ops ++ [.respEnd], respEnded := some .other }
  | _, _ => l

/-- canonical strings of a stream's outputs: data events numbered per side -/
def h2Render (outs : List HOut) (qe pe : EndErr) : List String :=
  let rec go (kq kp : Nat) (qe : EndErr) : List HOut → List String
    | [] => []
    | .q (Ev.data e n) :: t => render "q" (.data e n kq) :: go (kq+1) kp qe t
    | .q (Ev.endStream x) :: t => render "q" (.endStream x) :: go kq kp qe t
    | .qEnd :: t => render "q" (.bodyEnd qe) :: go kq kp .other t   -- a second one can only come from the loss of the connection
    | .p (Ev.data e n) :: t => render "p" (.data e n kp) :: go kq (kp+1) qe t
    | .p (Ev.endStream x) :: t => render "p" (.endStream x) :: go kq kp qe t
    | .pEnd :: t => render "p" (.bodyEnd pe) :: go kq kp qe t
  go 0 0 qe outs

def handleH2 (inp impl : Json) : Verdict :=
  if !(isNull (field impl "panic")) then
    { agree := false, holds := false, why := "panic: " ++ str (field impl "panic") } else
  if bool (field impl "slow") then { agree := true, holds := true, nontrivial := false, cls := "set-aside:machine-too-slow" } else
  let isServer := bool (field inp "server")
  let frames := arr (field inp "frames")
  -- the traced stream: the one the first request HEADERS opens
  let sid := match frames.find? (fun f => str (field f "d") == "q" && str (field f "t") == "H") with
    | some f => nat (field f "id") | none => 1
  -- the script ends with Close: the loss of the connection ends a stream that is still open
  let hasClose := (arr (field inp "calls")).any (fun c => match arr c with | k :: _ => str k == "c" | [] => false)
  let life := fun (wire : Bool) =>
    let l := frames.foldl (h2Frame wire sid) {}
    let clientLoss := !isServer && l.opened && !l.closed && hasClose
    let reqEndedBefore := l.reqEnded.isSome
    let l := if l.opened && !l.closed && hasClose then
        (if isServer then { l with closed := true, ops := l.ops ++ [.respEnd], respEnded := some .other }
         else { l with closed := true, ops := l.ops ++ [.reqAbort], reqEnded := if l.reqEnded.isSome then l.reqEnded else some .other })
      else l
    (l, clientLoss, reqEndedBefore)
  -- the code's view: frames as they are on the wire, DATA payloads through the model of parseDataFrame
  let (l, clientLoss, reqEndedBefore) := life true
  -- the specification's view: the body of a direction is the DATA of its frames, whatever their padding
  let (ls, _, _) := life false
  let qe := l.reqEnded.getD .nil
  let pe := l.respEnded.getD .nil
  -- a response that never started has no tracer yet: `responseTracer.builder == nil`, nothing to flush
  let outs := (hrun l.cq l.cp hinit l.ops).2
  let mEvents := h2Render outs qe pe
  let traces := (arr (field impl "traces")).filter (fun t => str (field t "name") == "h2")
  let implAll := match traces with | [t] => strList (field t "events") | _ => []
  let implEvents := implAll.filter (fun e => e != "P" && e != "QC")
  let qEv := implEvents.filter (fun (e : String) => e.startsWith "q")
  let pEv := implEvents.filter (fun (e : String) => e.startsWith "p")
  -- C14's specification on the bytes of each direction that arrived before the stream was gone
  let qb := (reqBytes ls.ops).flatten
  let pb := (respBytes ls.ops).flatten
  let specQ := (numberEvs 0 (specEvents ls.cq qb)).map (render "q") ++ (match ls.reqEnded with | some e => [render "q" (.bodyEnd e)] | none => [])
  let specP := (numberEvs 0 (specEvents ls.cp pb)).map (render "p") ++ (match ls.respEnded with | some e => [render "p" (.bodyEnd e)] | none => [])
  let transparent := bool (field impl "transparent")
  -- Loss of the connection on the client side (`cancelAll`, client branch) ends the stream with
  -- RequestBodyEnd(err) + RequestCanceled and does not touch the response tracer: as in C15's
  -- Spec.msgsOK, the cut remainder of the response need not be reported when the stream ends that way.
  let specPcomplete := (unfinishedSpec ls.cp pb).map (render "p")
  let pOk := pEv == specP || (clientLoss && pEv == specPcomplete)
  -- F33 (known finding): … and it adds RequestBodyEnd(err) even when the request had already ended (the code
  -- says so itself: "TODO: We shouldn't add RequestBodyEnd event if the trace already has an event of that
  -- type"): a second request body end.  That violates "a single body-end event": `holds` is false, and when
  -- the second body end is the ONLY deviation the reason starts with "F33: " (the registry's matcher).
  let secondEnd := clientLoss && reqEndedBefore
  let f33 := secondEnd && qEv == specQ ++ [render "q" (.bodyEnd .other)]
  let restOk := pOk && (!l.gotResp || startOk implAll)
  let traceOk := qEv == specQ && restOk
  let holds := traceOk && transparent && traces.length == 1
  let onlyF33 := f33 && restOk && transparent && traces.length == 1
  let mQ := mEvents.filter (fun (e : String) => e.startsWith "q")
  let mP := mEvents.filter (fun (e : String) => e.startsWith "p")
  { agree := implEvents == mEvents && (mQ == specQ || secondEnd) && (mP == specP || clientLoss) && traces.length == 1 && transparent,
    holds := holds,
    nontrivial := l.cq.isStream && !qb.isEmpty,
    model := toJson mEvents,
    cls := if secondEnd then "h2:client-connection-loss-after-request-end" else "h2:" ++ (if l.reqEnded == some .nil && l.respEnded.isSome then "request-ends-first"
                     else if l.respEnded.isSome then "response-ends-first" else "request-aborted") ++
           (if l.cq.isStream then ":" ++ tailName (parse qb).2 else "") ++ (if l.padded > 0 then ":padded-data-frames" else ""),
    why := if holds then "" else
      if onlyF33 then s!"F33: second request body end — the request had ended (END_STREAM) when the connection was lost on the client side, cancelAll added RequestBodyEnd again: {implEvents}"
      else if !transparent then "not transparent: " ++ str (field impl "viol")
      else if traces.length != 1 then s!"{traces.length} traces delivered for the stream"
      else s!"body events {implEvents} but the bytes that arrived (request {hex qb}, response {hex pb}) give {specQ ++ specP}" }

/-! ### op `serve`: TracingHandler behind a real net/http server -/

def handleServe (inp impl : Json) : Verdict :=
  if !(isNull (field impl "panic")) then
    { agree := false, holds := false, why := "panic: " ++ str (field impl "panic") } else
  let rq := field inp "req"
  let rp := field inp "resp"
  let cq := sideCfg rq true []
  let cp := sideCfg rp false []
  let reqBody := match strList (field rq "reads") with | b :: _ => unhex b | [] => []
  -- what the handler sends: every byte its sources deliver (a failing source fails AFTER its bytes) and it writes
  let pieces := (arr (field inp "actions")).filterMap fun a =>
    let k := str (field a "k")
    if k == "w" || k == "copy" || k == "readfrom" then some (unhex (str (field a "d"))) else none
  let tr := field impl "traced"
  let pl := field impl "plain"
  let received := unhex (str (field tr "received"))
  let implEvents := (strList (field impl "events")).filter (fun e => e != "Q")
  let qEv := implEvents.filter (fun (e : String) => e.startsWith "q")
  let pEv := implEvents.filter (fun (e : String) => e.startsWith "p")
  let completions := nat (field impl "completions")
  -- the specification on the bytes the client RECEIVED; the handler returned normally: no error
  let specQ := (specTrace cq reqBody .nil).map (render "q")
  let specP := (specTrace cp received .nil).map (render "p")
  let specPalt := (specTraceAlt cp received .nil).map (render "p")
  let traceOk := qEv == specQ && (pEv == specP || pEv == specPalt) && startOk implEvents
  -- passthrough: client and handler see the same with and without tracing
  let passOk := tr.compress == pl.compress && bool (field tr "clientOK")
  let holds := traceOk && passOk && completions == 1
  -- the model: the wrapper is handed each piece that went through, then the deferred tryFinish(nil)
  let mP := (observe cp (pieces.map Op.data ++ [Op.fin .nil])).map (render "p")
  let mQ := (observe cq [Op.data reqBody, Op.fin .nil]).map (render "q")
  { agree := qEv == mQ && pEv == mP && received == pieces.flatten && passOk && completions == 1,
    holds := holds, nontrivial := cp.isStream && !received.isEmpty,
    model := toJson (mQ ++ mP),
    cls := (if bool (field inp "h2") then "serve:http2" else "serve:http1") ++
      (if (arr (field inp "actions")).any (fun a => bool (field a "fail")) then "+source-error" else ""),
    why := if holds then "" else
      if !traceOk then s!"trace {implEvents} but the client received {hex received}, whose envelopes give {specP}"
      else if !passOk then "client or handler saw something else with tracing than without: " ++ tr.compress ++ " / " ++ pl.compress
      else s!"trace delivered {completions} times" }

def handle : Handler := fun op inp impl =>
  -- bodies on which a reused decompressor instance differs from a fresh one are outside the
  -- hypotheses (the decompressor is a function of the payload); they are counted, not judged
  if bool (field impl "skip") then
    { agree := true, holds := true, nontrivial := false, cls := "set-aside:decompressor-reuse-sensitive" } else
  match op with
  | "trace" =>
    if !(isNull (field impl "panic")) then
      { agree := false, holds := false, why := "panic: " ++ str (field impl "panic") } else
    let isReq := str (field inp "side") == "req"
    let side := if isReq then "q" else "p"
    let reads := (strList (field inp "reads")).map unhex
    let ending := str (field inp "ending")
    let post := strList (field inp "post")
    let c := cfgOf inp isReq (decTable (field impl "dec"))
    let (ops, endErr) := readerOps reads ending post
    let body := reads.flatten
    -- implementation's observations
    let implEvents := (strList (field impl "events")).filter (· != "Q")
    let seen := stepsOf (field impl "seen")
    let inner := stepsOf (field impl "inner")
    let completions := nat (field impl "completions")
    let done := nat (field impl "done")
    -- model
    let mEvents := (observe c ops).map (render side)
    let mDone := if isReq then 0 else 1
    -- property: the trace is the specified one; the caller saw what the inner reader returned
    -- (all bytes of the body, in order); the trace was delivered once
    let specA := (specTrace c body endErr).map (render side)
    let specB := (specTraceAlt c body endErr).map (render side)
    let traceOk := implEvents == specA || implEvents == specB
    let seenBytes := String.join (seen.map (·.1))
    -- … and nothing else in its (reused) array was touched
    let passOk := seen == inner && seenBytes == hex body && str (field impl "bufViol") == ""
    let holds := traceOk && passOk && completions == 1
    let p := parse body
    { agree := implEvents == mEvents && completions == 1 && done == mDone && passOk,
      holds := holds,
      nontrivial := c.isStream && reads.length > 1 && (!p.1.isEmpty || p.2 != .clean),
      model := Json.mkObj [("events", toJson mEvents), ("done", toJson mDone)],
      cls := (if c.isStream then tailName p.2 else "non-stream") ++
        (if mEvents.any (·.startsWith "ps:") then "+eos" else ""),
      why := if holds then "" else
        (if !traceOk then "trace " ++ toString implEvents ++ " but the body's envelopes give " ++ toString specA
         else if !passOk then "caller saw " ++ toString seen ++ " but the inner reader returned " ++ toString inner ++ " " ++ str (field impl "bufViol")
         else s!"trace delivered {completions} times") }
  | "handler" =>
    let tr := field impl "traced"
    let pl := field impl "plain"
    if !(isNull (field impl "panic")) then
      { agree := false, holds := false, why := "panic: " ++ str (field impl "panic") } else
    let table := decTable (field impl "dec")
    let rq := field inp "req"
    let rp := field inp "resp"
    let cq := sideCfg rq true table
    let cp := sideCfg rp false table
    let accept := int (field inp "accept")
    let steps := scriptSteps ((strList (field rq "reads")).map unhex) (str (field rq "ending"))
    let h := hRun cq cp accept steps (arr (field inp "actions"))
    let mEvents := match deliver h.evs true with | [l] => l | _ => []
    let implEvents := (strList (field tr "events")).filter (· != "Q")
    let completions := nat (field tr "completions")
    -- passthrough: the handler and the underlying writer see the same with and without tracing
    let same (k : String) : Bool := (field tr k).compress == (field pl k).compress
    -- (a handler that panics before writing anything: the middleware's deferred tryFinish calls
    -- WriteHeader(200) on the way out; net/http never sends that header, so it is not compared)
    let silentPanic := bool (field pl "panicked") && nat (field pl "status") == 0
    let passOk := same "saw" && same "inner" && (silentPanic || (same "status" && same "headerAtWH")) &&
      same "written" && same "finalHeader" && same "flushes" && same "panicked" && str (field tr "bufViol") == ""
    let written := unhex (str (field tr "written"))
    -- the request side ends the whole trace when it fails
    let reqFailed := match h.reqEnd with | some .nil => false | some _ => true | none => false
    let traceOk := projOk "q" cq h.reqBytes h.reqEnd h.reqDoneAtFinish implEvents &&
      projOk "p" cp written h.respEnd h.respDoneAtFinish implEvents && startOk implEvents
    let holds := traceOk && passOk && completions == 1
    { agree := implEvents == mEvents && completions == 1 && passOk && written == h.written,
      holds := holds, nontrivial := cp.isStream && !written.isEmpty,
      model := toJson mEvents, cls := if reqFailed then "req-failed" else if h.panicked then "panic" else "",
      why := if holds then "" else
        if !traceOk then s!"trace {implEvents} does not match the envelopes of the bodies (request {hex h.reqBytes}, response {hex written})"
        else if !passOk then "the handler or the underlying writer saw something else with tracing than without " ++ str (field tr "bufViol")
        else s!"trace delivered {completions} times" }
  | "rt" =>
    if !(isNull (field impl "panic")) then
      { agree := false, holds := false, why := "panic: " ++ str (field impl "panic") } else
    let table := decTable (field impl "dec")
    let rq := field inp "req"
    let rp := field inp "resp"
    let cq := sideCfg rq true table
    let cp := sideCfg rp false table
    let fail := bool (field inp "fail")
    let reqReads := (strList (field rq "reads")).map unhex
    let respReads := (strList (field rp "reads")).map unhex
    -- the transport reads the request body until an error, then closes it
    let (reqOps, reqErr) := readerOps reqReads (str (field rq "ending")) ["c"]
    let (respOps, respErr) := readerOps respReads (str (field rp "ending")) (strList (field rp "post"))
    let evs := (wrun cq winit reqOps).2.map (MEv.out true) ++
      (if fail then [MEv.respErr] else MEv.respStart :: (wrun cp winit respOps).2.map (MEv.out false))
    let mEvents := match deliver evs false with | [l] => l | _ => []
    let implEvents := (strList (field impl "events")).filter (· != "Q")
    let completions := nat (field impl "completions")
    let reqFailed := reqErr != .nil
    let hdrs := (["Connect-Content-Encoding=" ++ str (field rp "cce"), "Content-Encoding=" ++ str (field rp "ce"),
      "Content-Type=" ++ str (field rp "ct"), "Grpc-Encoding=" ++ str (field rp "ge")]).filter (fun s => !s.endsWith "=")
    let passOk := (field impl "transportSaw").compress == (field impl "reqInner").compress &&
      (field impl "callerSaw").compress == (field impl "respInner").compress &&
      String.join ((stepsOf (field impl "transportSaw")).map (·.1)) == hex reqReads.flatten &&
      bool (field impl "sameErr") && str (field impl "err") == (if fail then "inner" else "nil") && str (field impl "bufViol") == "" &&
      (fail || (nat (field impl "status") == nat (field inp "status") && strList (field impl "respHeader") == hdrs &&
        String.join ((stepsOf (field impl "callerSaw")).map (·.1)) == hex respReads.flatten))
    let traceOk := projOk "q" cq reqReads.flatten (some reqErr) true implEvents &&
      (if fail then (implEvents.filter (·.startsWith "p")).isEmpty && (reqFailed || implEvents.contains "PX")
       else projOk "p" cp respReads.flatten (some respErr) (!reqFailed) implEvents && startOk implEvents)
    let holds := traceOk && passOk && completions == 1
    { agree := implEvents == mEvents && completions == 1 && passOk, holds := holds,
      nontrivial := (cq.isStream || cp.isStream) && !fail, model := toJson mEvents,
      cls := if reqFailed then "req-failed" else if fail then "transport-error" else "",
      why := if holds then "" else
        if !traceOk then s!"trace {implEvents} does not match the envelopes of the bodies"
        else if !passOk then "the transport or the caller saw something else than the inner bodies / response"
        else s!"trace delivered {completions} times" }
  | "big" => handleBig inp impl
  | "h2" => handleH2 inp impl
  | "serve" => handleServe inp impl
  | _ => bad ("C14: unknown op " ++ op)

end ConfModel.Driver.C14
