/-
Executable model of internal/app/connectconformance/config.go
(resolveFeatures, computeCasesFromFeatures, resolveCase, parseConfig), branch by branch and in
the order of the Go code.  Core Lean only.

The enums include the proto zero values: protoyaml accepts `HTTP_VERSION_UNSPECIFIED` inside a
repeated field and the Go code then treats it like any other value (a case with version 0 is
produced); in a `ConfigCase` entry the zero value means "field omitted".
-/
namespace ConfModel.Config

inductive Ver | unspec | v1 | v2 | v3
  deriving DecidableEq, Repr, Inhabited
inductive Proto | unspec | connect | grpc | grpcWeb
  deriving DecidableEq, Repr, Inhabited
inductive Codec | unspec | proto | json | text
  deriving DecidableEq, Repr, Inhabited
inductive Comp | unspec | identity | gzip | br | zstd | deflate | snappy
  deriving DecidableEq, Repr, Inhabited
inductive ST | unspec | unary | client | server | half | full
  deriving DecidableEq, Repr, Inhabited
/-- `TestSuite.ConnectVersionMode`; `parseConfig` only ever produces `unspec`. -/
inductive CVM | unspec | require | ignore
  deriving DecidableEq, Repr, Inhabited


/-! proto enum numbers (used by the line protocol and by `fmt.Sprintf("HTTPVersion:%d", …)`) -/
def Ver.num : Ver → Nat | .unspec => 0 | .v1 => 1 | .v2 => 2 | .v3 => 3
def Proto.num : Proto → Nat | .unspec => 0 | .connect => 1 | .grpc => 2 | .grpcWeb => 3
def Codec.num : Codec → Nat | .unspec => 0 | .proto => 1 | .json => 2 | .text => 3
def Comp.num : Comp → Nat
  | .unspec => 0 | .identity => 1 | .gzip => 2 | .br => 3 | .zstd => 4 | .deflate => 5 | .snappy => 6
def ST.num : ST → Nat | .unspec => 0 | .unary => 1 | .client => 2 | .server => 3 | .half => 4 | .full => 5
def CVM.num : CVM → Nat | .unspec => 0 | .require => 1 | .ignore => 2

def allVer : List Ver := [.unspec, .v1, .v2, .v3]
def allProto : List Proto := [.unspec, .connect, .grpc, .grpcWeb]
def allCodec : List Codec := [.unspec, .proto, .json, .text]
def allComp : List Comp := [.unspec, .identity, .gzip, .br, .zstd, .deflate, .snappy]
def allST : List ST := [.unspec, .unary, .client, .server, .half, .full]
def allCVM : List CVM := [.unspec, .require, .ignore]

def Ver.ofNum (n : Nat) : Ver := allVer.getD n .unspec
def Proto.ofNum (n : Nat) : Proto := allProto.getD n .unspec
def Codec.ofNum (n : Nat) : Codec := allCodec.getD n .unspec
def Comp.ofNum (n : Nat) : Comp := allComp.getD n .unspec
def ST.ofNum (n : Nat) : ST := allST.getD n .unspec
def CVM.ofNum (n : Nat) : CVM := allCVM.getD n .unspec

def bnum (b : Bool) : Nat := if b then 1 else 0

/-- proto `Features`: five repeated enums, seven `optional bool`. -/
structure Features where
  versions : List Ver
  protocols : List Proto
  codecs : List Codec
  comps : List Comp
  sts : List ST
  h2c : Option Bool
  tls : Option Bool
  certs : Option Bool
  trailers : Option Bool
  halfH1 : Option Bool
  get : Option Bool
  limit : Option Bool
  deriving DecidableEq, Repr, Inhabited

/-- Go `supportedFeatures`. -/
structure Sup where
  versions : List Ver
  protocols : List Proto
  codecs : List Codec
  comps : List Comp
  sts : List ST
  h2c : Bool
  tls : Bool
  certs : Bool
  trailers : Bool
  halfH1 : Bool
  get : Bool
  limit : Bool
  deriving DecidableEq, Repr, Inhabited

/-- proto `ConfigCase`: zero enum value / absent optional bool = omitted. -/
structure Entry where
  v : Ver
  p : Proto
  c : Codec
  z : Comp
  s : ST
  tls : Option Bool
  certs : Option Bool
  limit : Option Bool
  deriving DecidableEq, Repr, Inhabited

/-- Go `configCase`. -/
structure Case where
  v : Ver
  p : Proto
  c : Codec
  z : Comp
  s : ST
  tls : Bool
  certs : Bool
  get : Bool
  limit : Bool
  cvm : CVM
  deriving DecidableEq, Repr, Inhabited

structure Config where
  features : Features
  includes : List Entry
  excludes : List Entry
  deriving Repr, Inhabited

/-- mixed-radix code of a case on the line protocol (same formula as `VerifC06Code`) -/
def Case.code (k : Case) : Nat :=
  ((((((((k.v.num * 4 + k.p.num) * 4 + k.c.num) * 7 + k.z.num) * 6 + k.s.num) * 2 + bnum k.tls) * 2
    + bnum k.certs) * 2 + bnum k.get) * 2 + bnum k.limit) + 43008 * k.cvm.num

def Case.ofCode (n : Nat) : Case :=
  let m := n % 43008
  { cvm := CVM.ofNum (n / 43008), limit := m % 2 = 1, get := m / 2 % 2 = 1, certs := m / 4 % 2 = 1,
    tls := m / 8 % 2 = 1, s := ST.ofNum (m / 16 % 6), z := Comp.ofNum (m / 96 % 7),
    c := Codec.ofNum (m / 672 % 4), p := Proto.ofNum (m / 2688 % 4), v := Ver.ofNum (m / 10752 % 4) }

/-- the `errors.New` sites of `resolveFeatures`, in source order -/
inductive FeatErr
  | certsWithoutTls | h2cWithoutHttp2 | http3WithoutTls | http2WithoutH2cOrTls
  | grpcWithoutTrailers | grpcWithoutHttp2 | fullDuplexOnlyHttp1 | halfDuplexOnlyHttp1
  deriving DecidableEq, Repr

/-- the `errors.New` sites of `resolveCase`, in source order -/
inductive CaseErr
  | http2NoTlsNoH2c | http3NoTls | grpcNoHttp2 | halfDuplexOnlyHttp1 | fullDuplexOnlyHttp1
  | certsButNoTls | certsTlsUnsupported
  deriving DecidableEq, Repr

inductive CfgErr
  | features (e : FeatErr)
  | includeCase (i : Nat) (e : CaseErr)   -- 1-based, as in the message
  | excludeCase (i : Nat) (e : CaseErr)
  | zeroCases
  deriving DecidableEq, Repr

/-- Go `only`: non-empty and every element equals `x`. -/
def only {α} [DecidableEq α] (l : List α) (x : α) : Bool :=
  !l.isEmpty && l.all (fun y => y = x)

/-- the flag defaults of `resolveFeatures` ("These flags should default to true if not provided";
the other getters return false for nil). -/
def flagH2c (fs : Features) : Bool := fs.h2c.getD true
def flagTls (fs : Features) : Bool := fs.tls.getD true
def flagCerts (fs : Features) : Bool := fs.certs.getD false
def flagTrailers (fs : Features) : Bool := fs.trailers.getD true
def flagHalfH1 (fs : Features) : Bool := fs.halfH1.getD false
def flagGet (fs : Features) : Bool := fs.get.getD true
def flagLimit (fs : Features) : Bool := fs.limit.getD true

/-- versions after the first defaulting block -/
def versions1 (fs : Features) : List Ver :=
  if fs.versions.isEmpty then
    (if flagTls fs || flagH2c fs then [.v1, .v2] else [.v1])
  else fs.versions

/-- versions after the second (dead) defaulting block, kept as in the code -/
def versions2 (fs : Features) : List Ver :=
  if (versions1 fs).isEmpty then
    (if flagH2c fs || flagTls fs then [.v1, .v2] else [.v1])
  else versions1 fs

/-- `includesHTTP2` as it stands after the second defaulting block -/
def includesHTTP2 (fs : Features) : Bool :=
  if (versions1 fs).isEmpty && (flagH2c fs || flagTls fs) then true else (versions1 fs).contains .v2

def includesHTTP3 (fs : Features) : Bool := (versions1 fs).contains .v3

def protocolsR (fs : Features) : List Proto :=
  if fs.protocols.isEmpty then
    (if flagTrailers fs && includesHTTP2 fs then [.connect, .grpc, .grpcWeb] else [.connect, .grpcWeb])
  else fs.protocols

def codecsR (fs : Features) : List Codec :=
  if fs.codecs.isEmpty then [.proto, .json] else fs.codecs

def compsR (fs : Features) : List Comp :=
  if fs.comps.isEmpty then [.identity, .gzip] else fs.comps

def onlyHTTP1 (fs : Features) : Bool := !includesHTTP2 fs && !includesHTTP3 fs

def stsR (fs : Features) : List ST :=
  if fs.sts.isEmpty then
    (if onlyHTTP1 fs then
      (if flagHalfH1 fs then [.unary, .client, .server, .half] else [.unary, .client, .server])
     else [.unary, .client, .server, .half, .full])
  else fs.sts

def resolved (fs : Features) : Sup :=
  { versions := versions2 fs, protocols := protocolsR fs, codecs := codecsR fs, comps := compsR fs,
    sts := stsR fs, h2c := flagH2c fs, tls := flagTls fs, certs := flagCerts fs,
    trailers := flagTrailers fs, halfH1 := flagHalfH1 fs, get := flagGet fs, limit := flagLimit fs }

/-- Go `resolveFeatures`: the checks in source order; the value is `resolved fs`. -/
def resolveFeatures (fs : Features) : Except FeatErr Sup :=
  if flagCerts fs = true ∧ flagTls fs = false then .error .certsWithoutTls else
  if fs.versions.isEmpty = false ∧ fs.h2c = some true ∧ (versions1 fs).contains .v2 = false then
    .error .h2cWithoutHttp2 else
  if includesHTTP3 fs = true ∧ flagTls fs = false then .error .http3WithoutTls else
  if (versions1 fs).contains .v2 = true ∧ (flagH2c fs || flagTls fs) = false then
    .error .http2WithoutH2cOrTls else
  if fs.protocols.contains .grpc = true ∧ flagTrailers fs = false then .error .grpcWithoutTrailers else
  if fs.protocols.contains .grpc = true ∧ includesHTTP2 fs = false then .error .grpcWithoutHttp2 else
  if fs.sts.contains .full = true ∧ onlyHTTP1 fs = true then .error .fullDuplexOnlyHttp1 else
  if fs.sts.contains .half = true ∧ onlyHTTP1 fs = true ∧ flagHalfH1 fs = false then
    .error .halfDuplexOnlyHttp1 else
  .ok (resolved fs)

/-- the three `if len(xCases) == 0 { … }` blocks of `computeCasesFromFeatures` -/
def orDefault (given : List Bool) (sup : Bool) : List Bool :=
  if given.isEmpty then (if sup then [false, true] else [false]) else given

/-- Go `computeCasesFromFeatures`: the nested loops in their order, `continue`s as empty lists.
The result list is read as a set (Go: keys of a map). -/
def computeCases (f : Sup) (tlsC certC limC : List Bool) : List Case :=
  f.versions.flatMap fun v =>
  (orDefault tlsC f.tls).flatMap fun t =>
    if t = false ∧ (v = .v3 ∨ (v = .v2 ∧ f.h2c = false)) then [] else
  (orDefault certC f.certs).flatMap fun cc =>
    if cc = true ∧ t = false then [] else
  f.protocols.flatMap fun p =>
    if p = .grpc ∧ v ≠ .v2 then [] else
  f.sts.flatMap fun s =>
    if (s = .half ∧ f.halfH1 = false ∧ v = .v1) ∨ (s = .full ∧ v = .v1) then [] else
  f.codecs.flatMap fun c =>
    if c = .text then [] else
  f.comps.flatMap fun z =>
  (if p = .connect ∧ f.get = true then [false, true] else [false]).flatMap fun g =>
  (orDefault limC f.limit).map fun l =>
    (⟨v, p, c, z, s, t, cc, g, l, .unspec⟩ : Case)

def optList (o : Option Bool) : List Bool :=
  match o with
  | some b => [b]
  | none => []

/-- `impliedFeatures` of `resolveCase`: lists replaced by singletons where the entry pins a value. -/
def implied (f : Sup) (e : Entry) : Sup :=
  { versions := if e.v = .unspec then f.versions else [e.v],
    protocols := if e.p = .unspec then f.protocols else [e.p],
    codecs := if e.c = .unspec then f.codecs else [e.c],
    comps := if e.z = .unspec then f.comps else [e.z],
    sts := if e.s = .unspec then f.sts else [e.s],
    h2c := f.h2c, tls := f.tls, certs := f.certs, trailers := f.trailers, halfH1 := f.halfH1,
    get := f.get, limit := f.limit }

/-- `usingTLS` of `resolveCase` -/
def usingTLS (f : Sup) (e : Entry) : Bool :=
  e.tls = some true || (e.tls = none && f.tls)

/-- Go `resolveCase` (after the repair of finding F17: the two client-certificate contradiction
checks apply only when `use_tls_client_certs` is *true*, not merely present). -/
def resolveCase (f : Sup) (e : Entry) : Except CaseErr (List Case) :=
  if e.v = .v2 ∧ usingTLS f e = false ∧ f.h2c = false then .error .http2NoTlsNoH2c else
  if e.v = .v3 ∧ usingTLS f e = false then .error .http3NoTls else
  if e.p = .grpc ∧ (implied f e).versions.contains .v2 = false then .error .grpcNoHttp2 else
  if e.s = .half ∧ f.halfH1 = false ∧ only (implied f e).versions .v1 = true then
    .error .halfDuplexOnlyHttp1 else
  if e.s = .full ∧ only (implied f e).versions .v1 = true then .error .fullDuplexOnlyHttp1 else
  if e.certs = some true ∧ e.tls = some false then .error .certsButNoTls else
  if e.certs = some true ∧ (optList e.tls).contains true = false ∧ f.tls = false then
    .error .certsTlsUnsupported else
  .ok (computeCases (implied f e) (optList e.tls) (optList e.certs) (optList e.limit))

/-- the include loop of `parseConfig` (`cases[include] = struct{}{}`), `i` = entries seen -/
def addIncludes (f : Sup) : Nat → List Entry → List Case → Except CfgErr (List Case)
  | _, [], acc => .ok acc
  | i, e :: es, acc =>
    match resolveCase f e with
    | .error x => .error (.includeCase (i + 1) x)
    | .ok cs => addIncludes f (i + 1) es (cs ++ acc)

/-- the exclude loop of `parseConfig` (`delete(cases, exclude)`) -/
def removeExcludes (f : Sup) : Nat → List Entry → List Case → Except CfgErr (List Case)
  | _, [], acc => .ok acc
  | i, e :: es, acc =>
    match resolveCase f e with
    | .error x => .error (.excludeCase (i + 1) x)
    | .ok cs => removeExcludes f (i + 1) es (acc.filter fun c => !cs.contains c)

/-- Go `parseConfig` after unmarshalling. The list is read as a set. -/
def parseConfig (cfg : Config) : Except CfgErr (List Case) :=
  match resolveFeatures cfg.features with
  | .error x => .error (.features x)
  | .ok f =>
    match addIncludes f 0 cfg.includes (computeCases f [] [] []) with
    | .error x => .error x
    | .ok withInc =>
      match removeExcludes f 0 cfg.excludes withInc with
      | .error x => .error x
      | .ok cs => if cs.isEmpty then .error .zeroCases else .ok cs

end ConfModel.Config
