#!/usr/bin/env python3
"""Applies a seeded regression (seeded/<id>/patch.diff) to /repo, runs the quick (or thorough)
check of the properties given (default: the one in meta.json), restores /repo and prints what
was detected.  Usage: python3 seeded_eval.py <seed-id> [--tier thorough] [--props C08,C02]"""
import sys, os, json, subprocess, time
VERIF = os.path.dirname(os.path.abspath(__file__))
REPO = os.environ.get("VERIF_REPO", "/repo")
def main():
    sid = sys.argv[1]
    tier = "quick"; props = None
    a = sys.argv[2:]
    while a:
        if a[0] == "--tier": tier = a[1]; a = a[2:]
        elif a[0] == "--props": props = a[1].split(","); a = a[2:]
        else: a = a[1:]
    d = os.path.join(VERIF, "seeded", sid)
    meta = json.load(open(os.path.join(d, "meta.json")))
    props = props or [meta["property"]]
    st = subprocess.run(["git", "-C", REPO, "status", "--porcelain"], capture_output=True, text=True).stdout
    if st.strip():
        print("refusing: the repository has uncommitted changes:\n" + st); return 2
    r = subprocess.run(["git", "-C", REPO, "apply", os.path.join(d, "patch.diff")], capture_output=True, text=True)
    if r.returncode != 0:
        print("patch does not apply:", r.stderr); return 2
    res = {}
    try:
        for p in props:
            t0 = time.time()
            out = subprocess.run(["python3", os.path.join(VERIF, "check.py"), p, "--tier", tier], capture_output=True, text=True, cwd=VERIF)
            viol = [l for l in out.stdout.splitlines() if l.startswith("VIOLATION")]
            res[p] = {"exit": out.returncode, "violations": viol, "wall_s": round(time.time() - t0, 1)}
            print(p, "exit", out.returncode, viol[:2], f"{time.time()-t0:.0f}s")
    finally:
        subprocess.run(["git", "-C", REPO, "checkout", "--", "."])
        subprocess.run(["git", "-C", REPO, "clean", "-fdq"])
        # facts regenerated from the changed tree and the evidence of this run are not the unchanged tree's
        subprocess.run(["git", "-C", VERIF, "checkout", "--", "lean/ConfModel/Generated"] + [f"evidence/{p}.json" for p in props], capture_output=True)
    print(json.dumps({"seed": sid, "tier": tier, "results": res}))
    ev = os.path.join(d, "eval.json")
    allr = json.load(open(ev)) if os.path.exists(ev) else {}
    for p, r in res.items():
        allr[f"{p}:{tier}"] = {"detected": r["exit"] != 0 and bool(r["violations"]), "violations": r["violations"], "wall_s": r["wall_s"]}
    json.dump(allr, open(ev, "w"), indent=1)
    return 0
if __name__ == "__main__":
    sys.exit(main())
