package main

import (
	"encoding/json"
	"io"
	"os"
	"sync"
	"sync/atomic"
	"time"

	"connectrpc.com/conformance/internal"
	conformancev1 "connectrpc.com/conformance/internal/gen/proto/go/connectrpc/conformance/v1"
	"connectrpc.com/conformance/internal/verifharness/gen"
)

// C09 op "pipe": the real reader over REAL pipes with write boundaries — an io.Pipe (synchronous:
// what makeProcess puts between the runner and every peer) or an os.Pipe — instead of a scripted
// reader. The peer's byte stream is given as a list of writes (empty ones allowed). After every write
// the writer pauses LOGICALLY: it goes on only when the reader has returned every message that is
// complete in the bytes written so far (Expect[i]; the driver checks these numbers against the model)
// — or when its patience (2 s) runs out, which is recorded (Late). For every result the op records
// how many writes had been started when it was returned (After): a message returned at After = k did
// not need any write after the k-th. After the last write the peer closes its end or stays silent
// (stall): the pending read must then time out within [timeout, timeout+5s] and say how much was
// received; a reader that has not returned 6 s after that is recorded as Hang.
type c09PipeIn struct {
	Kind      string   `json:"kind"` // io | os
	Writes    []string `json:"writes"`
	Expect    []int    `json:"expect"`
	End       string   `json:"end"` // close | stall
	Max       int      `json:"max"`
	Count     int      `json:"count"`
	TimeoutMs int      `json:"timeoutMs"`
	Via       string   `json:"via"` // raw | rdm
}

type c09PipeOut struct {
	Results []c09Res `json:"results"`
	After   []int    `json:"after"`
	Timely  bool     `json:"timely"`
	Hang    bool     `json:"hang"`
	Late    []int    `json:"late"`
	// Overtaken: the read that timed out had begun so early that its period ended before the writer
	// (delayed by the machine) had made its last write: the scenario says nothing and is set aside
	Overtaken bool `json:"overtaken"`
	// FrozenMs: the process was not scheduled for that long during (both attempts of) the scenario
	FrozenMs int64 `json:"frozenMs"`
}

const c09PipePatience = 2 * time.Second

func init() {
	gen.RegisterOp("c09", "pipe", func(c *gen.Ctx, raw json.RawMessage) any {
		in := gen.Into[c09PipeIn](raw)
		out, frozen := c09Steady(time.Second, func() c09PipeOut { return c09Pipe(in) })
		out.FrozenMs = frozen
		if out.Overtaken {
			c.E.Count("pipe:set-aside-overtaken")
		}
		if frozen > 0 {
			c.E.Count("pipe:set-aside-machine-stalled")
		}
		return out
	})
}

func c09Pipe(in c09PipeIn) c09PipeOut {
	var rd io.ReadCloser
	var wr io.WriteCloser
	switch in.Kind {
	case "io":
		rd, wr = io.Pipe()
	case "os":
		r, w, err := os.Pipe()
		if err != nil {
			panic(err)
		}
		rd, wr = r, w
	default:
		panic("c09 pipe: kind?")
	}
	if len(in.Expect) != len(in.Writes) {
		panic("c09 pipe: expect/writes")
	}
	timeout := time.Duration(in.TimeoutMs) * time.Millisecond
	out := c09PipeOut{Results: []c09Res{}, After: []int{}, Late: []int{}, Timely: true}
	var mu sync.Mutex
	got := 0
	gotCh := make(chan struct{}, 1)
	var started atomic.Int32
	var writerDoneAt atomic.Int64
	writerDone := make(chan struct{})
	readerDone := make(chan struct{})
	var late []int

	go func() {
		defer close(writerDone)
		for i, w := range in.Writes {
			started.Store(int32(i + 1))
			if _, err := wr.Write(c09Unhex(w)); err != nil {
				break
			}
			deadline := time.After(c09PipePatience)
		wait:
			for {
				mu.Lock()
				g := got
				mu.Unlock()
				if g >= in.Expect[i] {
					break
				}
				select {
				case <-gotCh:
				case <-readerDone:
					break wait
				case <-deadline:
					late = append(late, i)
					break wait
				}
			}
		}
		writerDoneAt.Store(time.Now().UnixNano())
		if in.End == "close" {
			_ = wr.Close()
		}
	}()

	var results []c09Res
	var after []int
	timely, overtaken := true, false
	go func() {
		defer close(readerDone)
		for i := 0; i < in.Count; i++ {
			var body []byte
			var err error
			t0 := time.Now()
			switch in.Via {
			case "raw":
				body, err = internal.VerifReadDelimitedRaw(rd, "src", timeout, in.Max)
			case "rdm":
				var h conformancev1.Header
				err = internal.ReadDelimitedMessage(rd, &h, "src", timeout, in.Max)
				if err == nil {
					body = c09Marshal(&h)
				}
			default:
				panic("c09 pipe: via?")
			}
			el := time.Since(t0)
			a := int(started.Load())
			if err == nil {
				s := gen.Hex(body)
				mu.Lock()
				results = append(results, c09Res{Msg: &s})
				after = append(after, a)
				got++
				mu.Unlock()
				select {
				case gotCh <- struct{}{}:
				default:
				}
				continue
			}
			res := c09Classify(err)
			mu.Lock()
			if res.Err == "timeout" {
				if el < timeout || el > timeout+5*time.Second {
					timely = false
				}
				select {
				case <-writerDone:
					if wd := writerDoneAt.Load(); wd > t0.Add(timeout).Add(-20*time.Millisecond).UnixNano() {
						overtaken = true
					}
				default:
					overtaken = true // timed out while the writer was still at work
				}
			}
			results = append(results, res)
			after = append(after, a)
			mu.Unlock()
			return
		}
	}()

	// the writer is done after at most patience per write; then the reader gets timeout + 6 s
	select {
	case <-writerDone:
	case <-readerDone:
	case <-time.After(time.Duration(len(in.Writes)+1)*c09PipePatience + 5*time.Second):
	}
	hangAt := -1
	select {
	case <-readerDone:
	case <-time.After(timeout + 6*time.Second):
		out.Hang = true
		mu.Lock()
		hangAt = len(results) // what had been returned by then; the rest only comes because the pipe is closed below
		mu.Unlock()
	}
	_ = rd.Close()
	_ = wr.Close()
	select {
	case <-readerDone:
	case <-time.After(2 * time.Second):
	}
	select {
	case <-writerDone:
	case <-time.After(2 * time.Second):
	}
	mu.Lock()
	defer mu.Unlock()
	if out.Hang {
		results, after = results[:hangAt], after[:hangAt]
	}
	out.Results = append(out.Results, results...)
	out.After = append(out.After, after...)
	out.Timely, out.Overtaken = timely, overtaken
	select {
	case <-writerDone:
		out.Late = append(out.Late, late...)
	default:
	}
	return out
}

// ---------------------------------------------------------------- generator

// c09PipeSplit cuts the stream of frames into writes according to pattern k.
func c09PipeSplit(r *gen.Rand, bodies [][]byte, k int) [][]byte {
	var writes [][]byte
	var all []byte
	for _, b := range bodies {
		all = append(all, c09Frame(b)...)
	}
	switch k {
	case 0: // everything in one write
		writes = [][]byte{all}
	case 1: // one write per frame
		for _, b := range bodies {
			writes = append(writes, c09Frame(b))
		}
	case 2: // prefix and body separately, as writeDelimitedMessageRaw does — an empty body is an empty write
		for _, b := range bodies {
			writes = append(writes, c09Frame(b)[:4], append([]byte{}, b...))
		}
	case 3: // the same as it arrives through exec's copier: no empty chunks
		for _, b := range bodies {
			writes = append(writes, c09Frame(b)[:4])
			if len(b) > 0 {
				writes = append(writes, append([]byte{}, b...))
			}
		}
	case 4: // byte by byte
		for _, c := range all {
			writes = append(writes, []byte{c})
		}
	case 5: // prefixes cut 2+2, the second half together with the body
		for _, b := range bodies {
			f := c09Frame(b)
			writes = append(writes, f[:2], f[2:])
		}
	default: // random cuts, now and then an empty write
		for rest := all; len(rest) > 0; {
			n := r.Range(1, 6)
			if n > len(rest) {
				n = len(rest)
			}
			if r.Chance(1, 6) {
				writes = append(writes, []byte{})
			}
			writes = append(writes, rest[:n])
			rest = rest[n:]
		}
	}
	return writes
}

func c09PipeCase(kind, via, end string, bodies [][]byte, writes [][]byte, timeoutMs int) c09PipeIn {
	// frame ends, for Expect
	var ends []int
	off := 0
	for _, b := range bodies {
		off += 4 + len(b)
		ends = append(ends, off)
	}
	in := c09PipeIn{Kind: kind, Via: via, End: end, Max: 64, Count: len(bodies) + 1, TimeoutMs: timeoutMs, Writes: []string{}, Expect: []int{}}
	written := 0
	for _, w := range writes {
		written += len(w)
		n := 0
		for _, e := range ends {
			if e <= written {
				n++
			}
		}
		in.Writes = append(in.Writes, gen.Hex(w))
		in.Expect = append(in.Expect, n)
	}
	return in
}

func c09PipeGen(c *gen.Ctx) {
	r := c.R
	var ins []any
	add := func(kind string, in c09PipeIn) {
		c.E.Count("pipe:" + kind)
		ins = append(ins, in)
	}
	maxLen := 3
	if c.Thorough() {
		maxLen = 4
	}
	// every sequence of message sizes over {0, 1|2, 3} up to maxLen: an empty message first, in the
	// middle, last, several in a row
	var seqs [][]int
	var rec func(cur []int)
	rec = func(cur []int) {
		if len(cur) > 0 {
			seqs = append(seqs, append([]int{}, cur...))
		}
		if len(cur) == maxLen {
			return
		}
		for _, s := range []int{0, 1, 3} {
			rec(append(cur, s))
		}
	}
	rec(nil)
	const never = 20000
	const stallMs = 400
	for si, sizes := range seqs {
		for _, kind := range []string{"io", "os"} {
			via := "raw"
			bodies := c09RawBodies(r, sizes)
			if (si+len(kind))%3 == 0 {
				via = "rdm"
				hs := make([]int, len(sizes))
				for i, s := range sizes {
					hs[i] = s
					if s == 1 {
						hs[i] = 2
					}
				}
				bodies = c09HdrBodies(r, hs)
			}
			for pat := 0; pat <= 6; pat++ {
				if kind == "os" && !c.Thorough() && pat != 1 && pat != 2 && pat != 3 && pat != si%7 {
					continue
				}
				writes := c09PipeSplit(r, bodies, pat)
				add("close", c09PipeCase(kind, via, "close", bodies, writes, never))
				// the peer stays silent after its last write
				if pat == 3 || (pat == 1 && kind == "io") || (c.Thorough() && kind == "io") || pat == (si+2)%7 && kind == "io" && len(sizes) <= 2 {
					add("stall", c09PipeCase(kind, via, "stall", bodies, writes, stallMs))
				}
			}
		}
	}
	// the stream ends / the peer falls silent inside a frame: every offset of two streams
	for _, sizes := range [][]int{{3, 0, 1}, {0, 0, 3}} {
		bodies := c09RawBodies(r, sizes)
		var all []byte
		for _, b := range bodies {
			all = append(all, c09Frame(b)...)
		}
		for cut := 0; cut < len(all); cut++ {
			for _, kind := range []string{"io", "os"} {
				if kind == "os" && cut%2 == 1 && !c.Thorough() {
					continue
				}
				// complete frames in one write each, the partial frame byte by byte
				var writes [][]byte
				var done [][]byte
				off := 0
				for _, b := range bodies {
					if off+4+len(b) <= cut {
						writes = append(writes, c09Frame(b))
						done = append(done, b)
						off += 4 + len(b)
					}
				}
				for _, ch := range all[off:cut] {
					writes = append(writes, []byte{ch})
				}
				in := c09PipeCase(kind, "raw", "close", done, writes, never)
				in.Count = len(sizes) + 1
				add("cut-close", in)
				if cut%2 == 0 || c.Thorough() {
					in := c09PipeCase(kind, "raw", "stall", done, writes, stallMs)
					in.Count = len(sizes) + 1
					add("cut-stall", in)
				}
			}
		}
	}
	c.DoParallel("pipe", ins, 16)
}
