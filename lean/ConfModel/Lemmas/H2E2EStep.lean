/-
End-to-end (C15): one frame for an open stream — the property's view (`Expect.see`) and the
tracer's table entry (`streamStep`) move together; when the stream ends, the completed trace
is the one the property promises.
-/
import ConfModel.Lemmas.H2E2EStream
set_option linter.unusedSimpArgs false
set_option linter.unusedVariables false
namespace ConfModel.H2

theorem isOpen_iff (e : Expect) : e.isOpen = true ↔ e.ending = .open := by
  simp [Expect.isOpen]

theorem completes_nil : completes [] = [] := rfl
theorem completes_one (t : Trace) : completes [t] = [COp.complete t] := rfl

theorem see_step (isServer : Bool) {e : Expect} {st : Stream} (maxId : Nat) (h : SRel e st) (ho : e.isOpen = true)
    (isReq : Bool) (f : Frame) (hsid : frameSid f = some e.id) (hodd : (e.see (.frame isReq f)).odd = false) :
    ((e.see (.frame isReq f)).isOpen = true →
      ∃ st', streamStep maxId isReq e.id (some st) f = (some st', []) ∧ SRel (e.see (.frame isReq f)) st') ∧
    ((e.see (.frame isReq f)).isOpen = false →
      (e.name = "" → streamStep maxId isReq e.id (some st) f = (none, [])) ∧
      (e.name ≠ "" → ∃ t, streamStep maxId isReq e.id (some st) f = (none, [.complete t]) ∧
        TRel isServer (e.see (.frame isReq f)) t)) := by
  have hen : e.ending = .open := (isOpen_iff e).mp ho
  cases f with
  | goaway last code => simp [frameSid] at hsid
  | other => simp [frameSid] at hsid
  | headers id fields es =>
    have hid : id = e.id := by simpa [frameSid] using hsid
    subst hid
    cases isReq with
    | true =>
      have hsee : e.see (.frame true (.headers e.id fields es)) =
          (if es then { e with odd := e.odd || e.reqEnded, reqEnded := true } else { e with odd := e.odd || e.reqEnded }) := by
        simp only [Expect.see, ho, Bool.not_true, Bool.false_eq_true, if_false, bne_self_eq_false, if_true]
      rw [hsee] at hodd ⊢
      have hre : e.reqEnded = false := by
        cases es <;> simp at hodd <;> exact hodd.2
      have u := headers_req_trailers (e' := { e with odd := e.odd || e.reqEnded }) h fields rfl
      cases es with
      | false =>
        simp only [Bool.false_eq_true, if_false]
        refine ⟨fun _ => ⟨(headersUpdate st true fields).1, ?_, u.2⟩, fun hc => ?_⟩
        · simp only [streamStep, finishStep, Bool.false_eq_true, if_false, u.1, completes_nil]
        · simp [Expect.isOpen, hen] at hc
      | true =>
        simp only [if_true]
        have v := close_reqEnd (e' := { e with odd := e.odd || e.reqEnded, reqEnded := true }) u.2 hre rfl
        refine ⟨fun _ => ⟨((headersUpdate st true fields).1.close true .none).1, ?_, v.2⟩, fun hc => ?_⟩
        · simp only [streamStep, finishStep, if_true, closeLocal, u.1, v.1, completes_nil, List.append_nil, Bool.not_true,
            bne_self_eq_false, Bool.or_false, Bool.false_eq_true, if_false]
        · simp [Expect.isOpen, hen] at hc
    | false =>
      cases hr : e.resp with
      | none =>
        have hsee : e.see (.frame false (.headers e.id fields es)) =
            (if es then { e with resp := some fields, ending := .done } else { e with resp := some fields }) := by
          simp only [Expect.see, ho, Bool.not_true, Bool.false_eq_true, if_false, bne_self_eq_false, if_true, hr, Option.isNone_none]
        rw [hsee]
        have u := headers_resp_first (e' := { e with resp := some fields }) h hr fields rfl
        cases es with
        | false =>
          simp only [Bool.false_eq_true, if_false]
          refine ⟨fun _ => ⟨(headersUpdate st false fields).1, ?_, u.2⟩, fun hc => ?_⟩
          · simp only [streamStep, finishStep, Bool.false_eq_true, if_false, u.1, completes_nil]
          · simp [Expect.isOpen, hen] at hc
        | true =>
          simp only [if_true]
          refine ⟨fun hc => by simp [Expect.isOpen] at hc, fun _ => ⟨fun hn => ?_, fun hn => ?_⟩⟩
          · have v := close_unnamed u.2 hn false .none
            simp only [streamStep, finishStep, if_true, closeLocal, u.1, v, completes_nil, List.append_nil, Bool.not_false,
              Bool.true_or]
          · obtain ⟨t, ht, hrel⟩ := close_resp_named isServer (e' := { e with resp := some fields, ending := .done }) u.2 hn .none .done rfl rfl rfl
            refine ⟨t, ?_, hrel⟩
            simp only [streamStep, finishStep, if_true, closeLocal, u.1, ht, completes_nil, completes_one, List.nil_append, Bool.not_false,
              Bool.true_or]
      | some f0 =>
        have hsee : e.see (.frame false (.headers e.id fields es)) =
            (if es then { e with respTrailers := some fields, ending := .done } else { e with respTrailers := some fields }) := by
          simp only [Expect.see, ho, Bool.not_true, Bool.false_eq_true, if_false, bne_self_eq_false, if_true, hr, Option.isNone_some]
        rw [hsee]
        have hr' : e.resp ≠ none := by rw [hr]; simp
        have u := headers_resp_trailers (e' := { e with respTrailers := some fields }) h hr' fields rfl
        cases es with
        | false =>
          simp only [Bool.false_eq_true, if_false]
          refine ⟨fun _ => ⟨(headersUpdate st false fields).1, ?_, u.2⟩, fun hc => ?_⟩
          · simp only [streamStep, finishStep, Bool.false_eq_true, if_false, u.1, completes_nil]
          · simp [Expect.isOpen, hen] at hc
        | true =>
          simp only [if_true]
          refine ⟨fun hc => by simp [Expect.isOpen] at hc, fun _ => ⟨fun hn => ?_, fun hn => ?_⟩⟩
          · have v := close_unnamed u.2 hn false .none
            simp only [streamStep, finishStep, if_true, closeLocal, u.1, v, completes_nil, List.append_nil, Bool.not_false,
              Bool.true_or]
          · obtain ⟨t, ht, hrel⟩ := close_resp_named isServer (e' := { e with respTrailers := some fields, ending := .done }) u.2 hn .none .done rfl rfl rfl
            refine ⟨t, ?_, hrel⟩
            simp only [streamStep, finishStep, if_true, closeLocal, u.1, ht, completes_nil, completes_one, List.nil_append, Bool.not_false,
              Bool.true_or]
  | data id payload es =>
    have hid : id = e.id := by simpa [frameSid] using hsid
    subst hid
    cases isReq with
    | true =>
      have hsee : e.see (.frame true (.data e.id payload es)) =
          (if es then { e with reqBody := e.reqBody ++ payload, odd := e.odd || e.reqEnded, reqEnded := true }
           else { e with reqBody := e.reqBody ++ payload, odd := e.odd || e.reqEnded }) := by
        simp only [Expect.see, ho, Bool.not_true, Bool.false_eq_true, if_false, bne_self_eq_false, if_true]
      rw [hsee] at hodd ⊢
      have hre : e.reqEnded = false := by
        cases es <;> simp at hodd <;> exact hodd.2
      have u := dataUpdate_req (e' := { e with reqBody := e.reqBody ++ payload, odd := e.odd || e.reqEnded }) h hre payload
        (by simp [Expect.body, hre])
      cases es with
      | false =>
        simp only [Bool.false_eq_true, if_false]
        refine ⟨fun _ => ⟨(dataUpdate st true payload).1, ?_, u.2⟩, fun hc => ?_⟩
        · simp only [streamStep, finishStep, Bool.false_eq_true, if_false, u.1, completes_nil]
        · simp [Expect.isOpen, hen] at hc
      | true =>
        simp only [if_true]
        have v := close_reqEnd (e' := { e with reqBody := e.reqBody ++ payload, odd := e.odd || e.reqEnded, reqEnded := true }) u.2 hre rfl
        refine ⟨fun _ => ⟨((dataUpdate st true payload).1.close true .none).1, ?_, v.2⟩, fun hc => ?_⟩
        · simp only [streamStep, finishStep, if_true, closeLocal, u.1, v.1, completes_nil, List.append_nil, Bool.not_true,
            bne_self_eq_false, Bool.or_false, Bool.false_eq_true, if_false]
        · simp [Expect.isOpen, hen] at hc
    | false =>
      have hsee : e.see (.frame false (.data e.id payload es)) =
          (if es then { e with respBody := e.respBody ++ payload, odd := e.odd || e.resp.isNone, ending := .done }
           else { e with respBody := e.respBody ++ payload, odd := e.odd || e.resp.isNone }) := by
        simp only [Expect.see, ho, Bool.not_true, Bool.false_eq_true, if_false, bne_self_eq_false, if_true]
      rw [hsee] at hodd ⊢
      have hr' : e.resp ≠ none := by
        intro hx
        cases es <;> simp [hx] at hodd
      have u := dataUpdate_resp (e' := { e with respBody := e.respBody ++ payload, odd := e.odd || e.resp.isNone }) h hr' payload rfl
      cases es with
      | false =>
        simp only [Bool.false_eq_true, if_false]
        refine ⟨fun _ => ⟨(dataUpdate st false payload).1, ?_, u.2⟩, fun hc => ?_⟩
        · simp only [streamStep, finishStep, Bool.false_eq_true, if_false, u.1, completes_nil]
        · simp [Expect.isOpen, hen] at hc
      | true =>
        simp only [if_true]
        refine ⟨fun hc => by simp [Expect.isOpen] at hc, fun _ => ⟨fun hn => ?_, fun hn => ?_⟩⟩
        · have v := close_unnamed u.2 hn false .none
          simp only [streamStep, finishStep, if_true, closeLocal, u.1, v, completes_nil, List.append_nil, Bool.not_false,
            Bool.true_or]
        · obtain ⟨t, ht, hrel⟩ := close_resp_named isServer
            (e' := { e with respBody := e.respBody ++ payload, odd := e.odd || e.resp.isNone, ending := .done }) u.2 hn .none .done rfl rfl rfl
          refine ⟨t, ?_, hrel⟩
          simp only [streamStep, finishStep, if_true, closeLocal, u.1, ht, completes_nil, completes_one, List.nil_append, Bool.not_false,
            Bool.true_or]
  | rst id code =>
    have hid : id = e.id := by simpa [frameSid] using hsid
    subst hid
    cases isReq with
    | true =>
      have hsee : e.see (.frame true (.rst e.id code)) = { e with ending := .resetReq code } := by
        simp only [Expect.see, ho, Bool.not_true, Bool.false_eq_true, if_false, bne_self_eq_false, if_true]
      rw [hsee]
      refine ⟨fun hc => by simp [Expect.isOpen] at hc, fun _ => ⟨fun hn => ?_, fun hn => ?_⟩⟩
      · have v := close_unnamed h hn true (.stream e.id code)
        simp [streamStep, closeLocal, v, completes_nil]
      · obtain ⟨t, ht, hrel, _⟩ := close_req_named isServer (e' := { e with ending := .resetReq code }) h hn (.stream e.id code)
          (by simp) (.resetReq code) rfl rfl (by simp) rfl
        refine ⟨t, ?_, hrel⟩
        simp [streamStep, closeLocal, ht, completes_one]
    | false =>
      have hsee : e.see (.frame false (.rst e.id code)) = { e with ending := .resetResp code } := by
        simp only [Expect.see, ho, Bool.not_true, Bool.false_eq_true, if_false, bne_self_eq_false, if_true]
      rw [hsee]
      refine ⟨fun hc => by simp [Expect.isOpen] at hc, fun _ => ⟨fun hn => ?_, fun hn => ?_⟩⟩
      · have v := close_unnamed h hn false (.stream e.id code)
        simp [streamStep, closeLocal, v, completes_nil]
      · obtain ⟨t, ht, hrel⟩ := close_resp_named isServer (e' := { e with ending := .resetResp code }) h hn (.stream e.id code)
          (.resetResp code) rfl rfl rfl
        refine ⟨t, ?_, hrel⟩
        simp [streamStep, closeLocal, ht, completes_one]

end ConfModel.H2
