/-
Model of `checkBinaryMetadata` (`internal/app/referenceclient/wire_details.go`): the reference
client's examination of the binary metadata of a gRPC / gRPC-Web response.  Every value of a key
ending in `-bin` (compared in lower case; `grpc-status-details-bin` is `checkGRPCStatus`'s) must be
unpadded standard base64 (`base64.RawStdEncoding.DecodeString`); one that decodes only with
`base64.StdEncoding` draws a padding complaint; anything else is "incorrectly-encoded" and ends
the whole examination (`return`).  Both Go decoders skip CR and LF anywhere.
-/
import ConfModel.Model.ConnectJson
namespace ConfModel.BinMeta
open ConfModel.WireChecks (bs toLowerByte)
open ConfModel.ConnectJson (rawStdDecode)
open ConfModel.ServerTimeout (Bytes)

inductive BinFb
  | padded | invalid
  deriving DecidableEq, Repr

def isCRLF (c : UInt8) : Bool := c.toNat == 10 || c.toNat == 13

/-- what precedes the padding of a value that ends in `=` or `==` -/
def padBody (w : Bytes) : Option Bytes :=
  match w.reverse with
  | 61 :: 61 :: t => some t.reverse
  | 61 :: t => some t.reverse
  | _ => none

/-- `base64.StdEncoding.DecodeString` (not strict): after removing CR / LF the length is a
multiple of four and the last quantum may end in `=` or `==` -/
def stdDecode (v : Bytes) : Option Bytes :=
  let w := v.filter (fun c => !isCRLF c)
  if w.length % 4 != 0 then none
  else Base64.decodeRaw ((padBody w).getD w)

/-- the message one value draws, if any -/
def binValueFb (v : Bytes) : Option BinFb :=
  if (rawStdDecode v).isSome then none
  else if (stdDecode v).isSome then some .padded
  else some .invalid

def binSuffix : Bytes := bs "-bin"
def detailsKey : Bytes := bs "grpc-status-details-bin"

/-- the entry is examined: lower-cased name ends in `-bin` and is not `grpc-status-details-bin` -/
def examined (name : Bytes) : Bool :=
  let l := name.map toLowerByte
  binSuffix.isSuffixOf l && l != detailsKey

/-- the values of one entry: feedback so far, and whether the examination ended (`return`) -/
def valuesFb : List Bytes → List BinFb × Bool
  | [] => ([], false)
  | v :: t =>
    match binValueFb v with
    | none => valuesFb t
    | some .padded => let (fb, stop) := valuesFb t; (.padded :: fb, stop)
    | some .invalid => ([.invalid], true)

/-- `checkBinaryMetadata` -/
def checkBinaryMetadata : List (Bytes × List Bytes) → List BinFb
  | [] => []
  | (name, vals) :: t =>
    if examined name then
      let (fb, stop) := valuesFb vals
      if stop then fb else fb ++ checkBinaryMetadata t
    else checkBinaryMetadata t

end ConfModel.BinMeta
