package main

// C13 — HISTORIES of calls through the reference client's own glue.
//
// Every other op of C13 hands the examiners ONE response (directly, through a hand-made trace or
// through one in-memory exchange with the package-level examineWireDetails). The reference client
// really runs thousands of RPCs in one process, each through invoker.Invoke: doUnary /
// serverStream, invoker.withWireCapture, the wire-capture transport, invoker.examineWireDetails
// (+ checkBinaryMetadata). Anything that glue keeps from one call to the next is invisible to a
// one-response op.
//
// op seq : {steps: [{op: zcerr|zcend|zgrpcweb, in: <input of that op>, trunc, trail}]}  (2..6 steps)
// The steps are answered one after the other by a scripted round tripper under ONE
// rc.VerifC13Session (one wire-capture transport, one invoker per protocol, one process). Per
// step the output is that of the z op on the plain payload (model data, `direct` = the examiner
// handed the plain payload), with the feedback replaced by the feedback invoker.Invoke reported
// for THAT call of the history (binary-metadata classes split off), plus `seq` (all classes of
// the call in the history) and `alone` (all classes when the same response is the only call of a
// fresh session). trunc / trail (zcerr): the coded body loses its last trunc bytes / is followed
// by the bytes trail - bodies the Content-Encoding decompressor cannot read to their end.

import (
	"encoding/json"
	"fmt"
	"os"
	"net/http"
	"strings"

	rc "connectrpc.com/conformance/internal/app/referenceclient"
	"connectrpc.com/conformance/internal/verifharness/gen"
)

func init() {
	gen.RegisterOp("c13", "seq", func(c *gen.Ctx, raw json.RawMessage) any {
		return c13Seq(c, gen.Into[c13SeqIn](raw))
	})
}

type c13SeqStep struct {
	Op    string `json:"op"`
	In    c13ZIn `json:"in"`
	Trunc int    `json:"trunc"`
	Trail string `json:"trail"` // hex
}

type c13SeqIn struct {
	Steps []c13SeqStep `json:"steps"`
}

type c13SeqStepOut struct {
	Impl    any      `json:"impl"`
	Seq     []string `json:"seq"`
	Alone   []string `json:"alone"`
	OK      bool     `json:"ok"`
	AloneOK bool     `json:"aloneOk"`
}

type c13SeqOut struct {
	Steps []c13SeqStepOut `json:"steps"`
}

// c13SeqResponse: the server's answer of one step and the protocol of the call.
func c13SeqResponse(st c13SeqStep) (string, rc.VerifC13Response) {
	in := st.In
	r := rc.VerifC13Response{StatusCode: http.StatusOK, Header: http.Header{}, Chunk: in.Chunk}
	switch st.Op {
	case "zcerr":
		r.StatusCode = in.Status
		r.Header.Set("Content-Type", "application/json")
		if in.Enc != nil {
			r.Header.Set("Content-Encoding", *in.Enc)
		}
		body := append([]byte(nil), c13Compress(in.Comp, c13Un(in.JSON))...)
		if st.Trunc > 0 && st.Trunc <= len(body) {
			body = body[:len(body)-st.Trunc]
		}
		r.Body = append(body, c13Un(st.Trail)...)
		return "connect", r
	case "zcend":
		r.Header.Set("Content-Type", "application/connect+proto")
		if in.Enc != nil {
			r.Header.Set("Connect-Content-Encoding", *in.Enc)
		}
		r.Body = c13ZStreamBody(in, 0x02, c13Un(in.JSON))
		return "connect-stream", r
	case "zgrpcweb":
		r.Header.Set("Content-Type", "application/grpc-web+proto")
		if in.Enc != nil {
			r.Header.Set("Grpc-Encoding", *in.Enc)
		}
		r.Body = c13ZStreamBody(in, 0x80, c13Un(in.Block))
		return "grpc-web", r
	}
	panic("c13 seq: unknown step op " + st.Op)
}

func c13SeqCall(c *gen.Ctx, s *rc.VerifC13Session, st c13SeqStep) ([]string, bool) {
	protocol, r := c13SeqResponse(st)
	res, err := s.Call(protocol, r)
	if err != nil {
		panic(err)
	}
	if os.Getenv("VERIF_C13_SEQ_DEBUG") != "" {
		fmt.Fprintf(os.Stderr, "seq %s examined=%v status=%d err=%q fb=%q\n", st.Op, res.Examined, res.Status, res.Err, res.Feedback)
	}
	msgs := make([]string, len(res.Feedback))
	for i, m := range res.Feedback {
		msgs[i] = strings.TrimSuffix(m, "\n")
	}
	return c13Classes(c, msgs), res.Examined
}

func c13Seq(c *gen.Ctx, in c13SeqIn) c13SeqOut {
	out := c13SeqOut{Steps: make([]c13SeqStepOut, len(in.Steps))}
	// the history
	session := rc.VerifC13NewSession()
	for k, st := range in.Steps {
		out.Steps[k].Seq, out.Steps[k].OK = c13SeqCall(c, session, st)
	}
	// every response on its own
	for k, st := range in.Steps {
		out.Steps[k].Alone, out.Steps[k].AloneOK = c13SeqCall(c, rc.VerifC13NewSession(), st)
	}
	for k, st := range in.Steps {
		so := &out.Steps[k]
		var wire []string // the classes of examineWireDetails, binary metadata split off
		for _, f := range so.Seq {
			if !strings.HasPrefix(f, "bm:") {
				wire = append(wire, f)
			}
		}
		if wire == nil {
			wire = []string{}
		}
		switch st.Op {
		case "zcerr", "zcend":
			o := c13ZJSONOut{c13JSONOut: c13ExamineJSON(c, c13JSONIn{JSON: st.In.JSON, Kind: st.In.Kind}, st.Op == "zcend")}
			o.Direct, o.Fb, o.OK = o.Fb, wire, so.OK
			so.Impl = o
		case "zgrpcweb":
			o := c13ZBlockOut{c13ExamineOut: c13Examine(c, string(c13Un(st.In.Block))), Other: []string{}}
			o.Direct1, o.Direct2, o.OK = o.Fb1, o.Fb2, so.OK
			o.Fb1, o.Fb2, o.Fb3 = []string{}, []string{}, nil
			for _, f := range wire {
				switch {
				case strings.HasPrefix(f, "es:"):
					o.Fb1 = append(o.Fb1, f)
				case strings.HasPrefix(f, "st:"):
					o.Fb2 = append(o.Fb2, f)
				default:
					o.Other = append(o.Other, f)
				}
			}
			so.Impl = o
		}
		c.E.Count("seq:step:" + st.Op)
	}
	c.E.Count("seq:len:" + string(rune('0'+len(in.Steps))))
	return out
}

// ---------------------------------------------------------------- generator

// c13SeqGen: histories of 2..6 responses of every class the generators of the z ops know -
// well-formed, one structured malformation, coding not announced / announced but not applied /
// unknown, truncated coded bodies, bytes after the coded body - in every order of two classes and
// in random longer runs.
func c13SeqGen(c *gen.Ctx, errBodies, endBodies [][]byte, blocks []string) {
	if len(errBodies) == 0 || len(endBodies) == 0 || len(blocks) == 0 {
		return
	}
	r := c.R
	chunks := []int{0, 0, 1, 3, 7, 64}
	statuses := []int{400, 404, 429, 500, 503}
	sp := func(s string) *string { return &s }
	errBody := func() []byte { return errBodies[r.Intn(len(errBodies))] }
	cerr := func(body []byte, kind string, comp int, enc *string) c13SeqStep {
		return c13SeqStep{Op: "zcerr", In: c13ZIn{JSON: gen.Hex(body), Kind: kind, Comp: comp, Enc: enc,
			Status: gen.Pick(r, statuses), Chunk: gen.Pick(r, chunks)}}
	}
	announced := func(comp int) *string {
		if comp == 0 && r.Bool() {
			return nil
		}
		cs := c13Casings(c13Codings[comp], false)
		return sp(cs[r.Intn(len(cs))])
	}
	streamEnc := func(comp int) *string { // what the connect-go client itself understands
		if comp == 0 {
			return nil
		}
		return sp(c13Codings[comp])
	}
	type class struct {
		name string
		make func() (c13SeqStep, bool)
	}
	classes := []class{
		{"cerr-own", func() (c13SeqStep, bool) {
			comp := r.Intn(6)
			return cerr(errBody(), "own", comp, announced(comp)), true
		}},
		{"cerr-mutant", func() (c13SeqStep, bool) {
			ms := c13JSONMutants(errBody(), false)
			if len(ms) == 0 {
				return c13SeqStep{}, false
			}
			m := ms[r.Intn(len(ms))]
			comp := r.Intn(6)
			return cerr(m.json, "mut:"+m.cls, comp, announced(comp)), true
		}},
		{"cerr-announced-not-applied", func() (c13SeqStep, bool) { // e.g. Content-Encoding: gzip, plain body
			return cerr(errBody(), "own", 0, sp(c13Codings[1+r.Intn(5)])), true
		}},
		{"cerr-other-coding", func() (c13SeqStep, bool) {
			comp := 1 + r.Intn(5)
			other := 1 + (comp+r.Intn(4))%5
			return cerr(errBody(), "own", comp, sp(c13Codings[other])), true
		}},
		{"cerr-unknown-coding", func() (c13SeqStep, bool) {
			encs := []string{"gzipx", "x-gzip", "snappy, gzip", "\xc3\x9fzip", "compress", " "}
			return cerr(errBody(), "own", r.Intn(6), sp(gen.Pick(r, encs))), true
		}},
		{"cerr-truncated", func() (c13SeqStep, bool) {
			comp := 1 + r.Intn(5)
			st := cerr(errBody(), "own", comp, announced(comp))
			st.Trunc = 1 + r.Intn(12)
			return st, true
		}},
		{"cerr-trailing-bytes", func() (c13SeqStep, bool) {
			comp := r.Intn(6)
			st := cerr(errBody(), "own", comp, announced(comp))
			st.Trail = gen.Hex([]byte(gen.Pick(r, []string{"a", "{}", "\x00", "garbage after the body", "\x1f\x8b"})))
			return st, true
		}},
		{"cend-own", func() (c13SeqStep, bool) {
			comp := r.Intn(6)
			return c13SeqStep{Op: "zcend", In: c13ZIn{JSON: gen.Hex(endBodies[r.Intn(len(endBodies))]), Kind: "own",
				Comp: comp, Enc: streamEnc(comp), Flag: comp != 0, Chunk: gen.Pick(r, chunks)}}, true
		}},
		{"cend-mutant", func() (c13SeqStep, bool) {
			ms := c13JSONMutants(endBodies[r.Intn(len(endBodies))], true)
			if len(ms) == 0 {
				return c13SeqStep{}, false
			}
			m := ms[r.Intn(len(ms))]
			comp := r.Intn(6)
			return c13SeqStep{Op: "zcend", In: c13ZIn{JSON: gen.Hex(m.json), Kind: "mut:" + m.cls,
				Comp: comp, Enc: streamEnc(comp), Flag: comp != 0, Chunk: gen.Pick(r, chunks)}}, true
		}},
		{"grpcweb-own", func() (c13SeqStep, bool) {
			comp := r.Intn(6)
			return c13SeqStep{Op: "zgrpcweb", In: c13ZIn{Block: c13Hx(blocks[r.Intn(len(blocks))]),
				Comp: comp, Enc: streamEnc(comp), Flag: comp != 0, Chunk: gen.Pick(r, chunks)}}, true
		}},
		{"grpcweb-mutant", func() (c13SeqStep, bool) {
			ms := c13StructuredMutants(r, blocks[r.Intn(len(blocks))])
			if len(ms) == 0 {
				return c13SeqStep{}, false
			}
			m := ms[r.Intn(len(ms))]
			if m == "" {
				return c13SeqStep{}, false
			}
			comp := r.Intn(6)
			return c13SeqStep{Op: "zgrpcweb", In: c13ZIn{Block: c13Hx(m),
				Comp: comp, Enc: streamEnc(comp), Flag: comp != 0, Chunk: gen.Pick(r, chunks)}}, true
		}},
	}
	emit := func(idx []int) {
		steps := make([]c13SeqStep, 0, len(idx))
		names := make([]string, 0, len(idx))
		for _, i := range idx {
			st, ok := classes[i].make()
			if !ok {
				return
			}
			steps = append(steps, st)
			names = append(names, classes[i].name)
		}
		c.Do("seq", c13SeqIn{Steps: steps})
		c.E.Count("kind:seq")
		for k := 1; k < len(names); k++ {
			c.E.Count("seq:pair:" + names[k-1] + ">" + names[k])
		}
	}
	// every ordered pair of classes (the same class twice included), twice
	reps := 2
	if c.Thorough() {
		reps = 8
	}
	for rep := 0; rep < reps; rep++ {
		for a := range classes {
			for b := range classes {
				emit([]int{a, b})
			}
		}
	}
	// random histories of 3..6 calls
	n := 150
	if c.Thorough() {
		n = 4000
	}
	for i := 0; i < n; i++ {
		idx := make([]int, 3+r.Intn(4))
		for k := range idx {
			idx[k] = r.Intn(len(classes))
		}
		emit(idx)
	}
}
