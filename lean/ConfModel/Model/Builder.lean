/-
Model of `internal/tracer/builder.go` (`builder.add`, `getAndClearLocked`, `finish`, `build`).
Every operation is atomic (it runs under `b.mu`; the collector is called after the lock is
released, with the trace that was taken under the lock).  Events are identified by an `id`
chosen by the caller so that the delivered list can be compared with what was added.
-/
namespace ConfModel.Builder

/-- the event types of `tracer.go`; `reqEnd`/`respEnd` are split by `Err == nil` -/
inductive Kind
  | reqData | reqEnd | reqEndErr | respStart | respErr | respData | respEos | respEnd | respEndErr | cancel
deriving DecidableEq, Repr

/-- the `finish = true` cases of the type switch in `builder.add` -/
def Kind.finishes : Kind → Bool
  | .reqEndErr | .respErr | .respEnd | .respEndErr | .cancel => true
  | _ => false

structure Item where
  kind : Kind
  id : Nat
  /-- `MessageIndex` of body-data events -/
  index : Option Nat
deriving DecidableEq, Repr

inductive Op
  | add (k : Kind) (id : Nat)
  | build
deriving DecidableEq, Repr

structure St where
  /-- `b.trace.TestName != ""`: a named operation whose trace has not been taken yet -/
  live : Bool
  events : List Item
  reqCount : Nat
  respCount : Nat
deriving DecidableEq, Repr

/-- `newBuilder`: `named` = the request carries the test-case-name header -/
def init (named : Bool) : St := ⟨named, [], 0, 0⟩

/-- one operation; the second component lists the `Collector.Complete` calls it makes -/
def step (s : St) : Op → St × List (List Item)
  | .add k id =>
    if !s.live then (s, [])
    else
      let idx : Option Nat := match k with
        | .reqData => some s.reqCount
        | .respData => some s.respCount
        | _ => none
      let evs := s.events ++ [⟨k, id, idx⟩]
      let rq := if k = .reqData then s.reqCount + 1 else s.reqCount
      let rp := if k = .respData then s.respCount + 1 else s.respCount
      if k.finishes then (⟨false, [], rq, rp⟩, [evs]) else (⟨true, evs, rq, rp⟩, [])
  | .build =>
    if !s.live then (s, []) else (⟨false, [], s.reqCount, s.respCount⟩, [s.events])

def exec : St → List Op → St × List (List Item)
  | s, [] => (s, [])
  | s, o :: os =>
    let r1 := step s o
    let r2 := exec r1.1 os
    (r2.1, r1.2 ++ r2.2)

end ConfModel.Builder
