/-
Helper lemmas for C16 (models `ConfModel.TracerSlots`, `ConfModel.Builder`, spec `ConfModel.Handoff`).
-/
import ConfModel.Spec.Handoff
namespace ConfModel.Builder
open ConfModel.Handoff

theorem exec_dead : ∀ (ops : List Op) (s : St), s.live = false → (exec s ops).2 = [] ∧ (exec s ops).1 = s
  | [], s, _ => by simp [exec]
  | .add k id :: ops, s, h => by
    have := exec_dead ops s h
    simp [exec, step, h, this]
  | .build :: ops, s, h => by
    have := exec_dead ops s h
    simp [exec, step, h, this]

theorem exec_live : ∀ (ops : List Op) (evs : List Item) (rq rp : Nat),
    (exec ⟨true, evs, rq, rp⟩ ops).2 =
      if ops.any isCloser then [evs ++ numberFrom rq rp (kept ops)] else []
  | [], evs, rq, rp => by simp [exec]
  | .build :: ops, evs, rq, rp => by
    simp [exec, step, isCloser, kept, numberFrom, (exec_dead ops ⟨false, [], rq, rp⟩ rfl).1]
  | .add k id :: ops, evs, rq, rp => by
    cases hk : k.finishes
    · have ih := exec_live ops
      cases k <;> simp [Kind.finishes] at hk <;>
        simp [exec, step, isCloser, kept, numberFrom, Kind.finishes, ih, List.append_assoc]
    · cases k <;> simp [Kind.finishes] at hk <;>
        simp [exec, step, isCloser, kept, numberFrom, Kind.finishes,
          (exec_dead ops ⟨false, [], rq, rp⟩ rfl).1]

end ConfModel.Builder

namespace ConfModel.TracerSlots
open ConfModel.Handoff

@[simp] theorem upd_same {α β} [DecidableEq α] (f : α → β) (a : α) (b : β) : upd f a b a = b := by simp [upd]
theorem upd_other {α β} [DecidableEq α] (f : α → β) (a x : α) (b : β) (h : x ≠ a) : upd f a b x = f x := by
  simp [upd, h]

/-- generations in the map are allocated ones, and two names never share a `traceResult` -/
def WF' (tr : Name → Option Nat) (ng : Nat) : Prop :=
  (∀ n g, tr n = some g → g < ng) ∧ (∀ n1 n2 g, tr n1 = some g → tr n2 = some g → n1 = n2)

def WF (s : St) : Prop := WF' s.traces s.nextGen

theorem wf_init : WF init := by simp [WF, WF', init]

theorem wf_step (s : St) (o : Op) (h : WF s) : WF (step s o).1 := by
  obtain ⟨hb, hi⟩ := h
  cases o with
  | init m =>
    show WF' (upd s.traces m (some s.nextGen)) (s.nextGen + 1)
    refine ⟨?_, ?_⟩
    · intro n g hg
      by_cases hn : n = m
      · subst hn; simp at hg; omega
      · rw [upd_other _ _ _ _ hn] at hg; have := hb n g hg; omega
    · intro n1 n2 g h1 h2
      by_cases e1 : n1 = m <;> by_cases e2 : n2 = m
      · rw [e1, e2]
      · subst e1; rw [upd_other _ _ _ _ e2] at h2; simp at h1; have := hb n2 g h2; omega
      · subst e2; rw [upd_other _ _ _ _ e1] at h1; simp at h2; have := hb n1 g h1; omega
      · rw [upd_other _ _ _ _ e1] at h1; rw [upd_other _ _ _ _ e2] at h2; exact hi n1 n2 g h1 h2
  | clear m =>
    show WF' (upd s.traces m none) s.nextGen
    refine ⟨?_, ?_⟩
    · intro n g hg
      by_cases hn : n = m
      · subst hn; simp at hg
      · rw [upd_other _ _ _ _ hn] at hg; exact hb n g hg
    · intro n1 n2 g h1 h2
      by_cases e1 : n1 = m
      · subst e1; simp at h1
      · by_cases e2 : n2 = m
        · subst e2; simp at h2
        · rw [upd_other _ _ _ _ e1] at h1; rw [upd_other _ _ _ _ e2] at h2; exact hi n1 n2 g h1 h2
  | complete m t => exact ⟨hb, hi⟩
  | await w m => exact ⟨hb, hi⟩
  | join w => exact ⟨hb, hi⟩
  | peek w => exact ⟨hb, hi⟩
  | ctx w => exact ⟨hb, hi⟩

theorem wf_exec : ∀ (ops : List Op) (s : St), WF s → WF (exec s ops).1
  | [], _, h => h
  | o :: os, s, h => wf_exec os _ (wf_step s o h)

theorem exec_append : ∀ (a b : List Op) (s : St),
    exec s (a ++ b) = ((exec (exec s a).1 b).1, (exec s a).2 ++ (exec (exec s a).1 b).2)
  | [], b, s => by simp [exec]
  | o :: a, b, s => by simp [exec, exec_append a b]

/-- how one operation moves the result of the slot of `n` -/
def advance (n : Name) (r : Res) (o : Op) : Res :=
  match r, completesOn n o with
  | .pending, some t => .done t
  | r, _ => r

theorem completeResults_at (s : St) (n : Name) (t : Nat) (g : Nat) (ht : s.traces n = some g) :
    completeResults s n t g = match s.results g with | .pending => .done t | r => r := by
  unfold completeResults
  rw [ht]
  cases hr : s.results g <;> simp [hr]

theorem completeResults_other (s : St) (m : Name) (t : Nat) (g : Nat) (h : s.traces m ≠ some g) :
    completeResults s m t g = s.results g := by
  unfold completeResults
  cases hm : s.traces m with
  | none => rfl
  | some g' =>
    have hne : g ≠ g' := fun e => h (e ▸ hm)
    simp only
    split
    · exact upd_other _ _ _ _ hne
    · rfl

theorem step_slot (s : St) (o : Op) (n : Name) (g : Nat) (hwf : WF s) (ht : s.traces n = some g)
    (hno : touches n o = false) :
    (step s o).1.traces n = some g ∧ (step s o).1.results g = advance n (s.results g) o := by
  obtain ⟨hb, hi⟩ := hwf
  have hlt := hb n g ht
  have hid : ∀ (o : Op), completesOn n o = none → ∀ r, advance n r o = r := by
    intro o h r; cases r <;> simp [advance, h]
  cases o with
  | init m =>
    have hne : n ≠ m := by intro e; subst e; simp [touches] at hno
    show upd s.traces m (some s.nextGen) n = some g ∧ upd s.results s.nextGen .pending g = _
    rw [upd_other _ _ _ _ hne, upd_other _ _ _ _ (by omega : g ≠ s.nextGen), hid _ rfl]
    exact ⟨ht, rfl⟩
  | clear m =>
    have hne : n ≠ m := by intro e; subst e; simp [touches] at hno
    show upd s.traces m none n = some g ∧ s.results g = _
    rw [upd_other _ _ _ _ hne, hid _ rfl]
    exact ⟨ht, rfl⟩
  | complete m t =>
    show s.traces n = some g ∧ completeResults s m t g = _
    refine ⟨ht, ?_⟩
    by_cases hmn : m = n
    · subst hmn
      rw [completeResults_at s m t g ht]
      cases hr : s.results g <;> simp [advance, completesOn]
    · have hc : completesOn n (.complete m t) = none := by simp [completesOn, hmn]
      rw [hid _ hc, completeResults_other]
      intro hm; exact hmn (hi m n g hm ht)
  | await w m => exact ⟨ht, (hid _ rfl _).symm⟩
  | join w => exact ⟨ht, (hid _ rfl _).symm⟩
  | peek w => exact ⟨ht, (hid _ rfl _).symm⟩
  | ctx w => exact ⟨ht, (hid _ rfl _).symm⟩

theorem exec_slot (n : Name) (g : Nat) : ∀ (ops : List Op) (s : St), WF s → s.traces n = some g →
    (∀ o ∈ ops, touches n o = false) →
    (exec s ops).1.traces n = some g ∧ (exec s ops).1.results g = ops.foldl (advance n) (s.results g)
  | [], s, _, ht, _ => by simp [exec, ht]
  | o :: os, s, hwf, ht, hno => by
    have h1 := step_slot s o n g hwf ht (hno o (by simp))
    have ih := exec_slot n g os (step s o).1 (wf_step s o hwf) h1.1 (fun o' ho' => hno o' (by simp [ho']))
    simp only [exec, List.foldl_cons]
    rw [← h1.2]; exact ih

theorem foldl_advance_done (n : Name) (t : Nat) : ∀ ops : List Op, ops.foldl (advance n) (.done t) = .done t
  | [] => rfl
  | o :: os => by simp only [List.foldl_cons]; rw [show advance n (.done t) o = .done t by simp [advance]]; exact foldl_advance_done n t os

theorem foldl_advance_pending (n : Name) : ∀ ops : List Op,
    ops.foldl (advance n) .pending = match firstComplete n ops with | some t => .done t | none => .pending
  | [] => rfl
  | o :: os => by
    simp only [List.foldl_cons, firstComplete, List.filterMap_cons]
    cases hc : completesOn n o with
    | none =>
      have : advance n .pending o = .pending := by simp [advance, hc]
      rw [this]; exact foldl_advance_pending n os
    | some t =>
      have : advance n .pending o = .done t := by simp [advance, hc]
      rw [this, foldl_advance_done]; simp

theorem step_waiter (s : St) (o : Op) (w : Nat) (h : usesWaiter w o = false) :
    (step s o).1.waiters w = s.waiters w := by
  cases o with
  | init m => rfl
  | clear m => rfl
  | complete m t => rfl
  | await v m =>
    have hne : w ≠ v := by intro e; subst e; simp [usesWaiter] at h
    show awaitWaiters s v m w = _
    unfold awaitWaiters
    cases awaitTarget s v m with
    | none => rfl
    | some g => exact upd_other _ _ _ _ hne
  | join v =>
    have hne : w ≠ v := by intro e; subst e; simp [usesWaiter] at h
    show joinWaiters s v w = _
    unfold joinWaiters
    cases joinDone s v with
    | false => rfl
    | true => exact upd_other _ _ _ _ hne
  | peek v =>
    have hne : w ≠ v := by intro e; subst e; simp [usesWaiter] at h
    show joinWaiters s v w = _
    unfold joinWaiters
    cases joinDone s v with
    | false => rfl
    | true => exact upd_other _ _ _ _ hne
  | ctx v =>
    have hne : w ≠ v := by intro e; subst e; simp [usesWaiter] at h
    exact upd_other _ _ _ _ hne

theorem exec_waiter (w : Nat) : ∀ (ops : List Op) (s : St), (∀ o ∈ ops, usesWaiter w o = false) →
    (exec s ops).1.waiters w = s.waiters w
  | [], _, _ => rfl
  | o :: os, s, h => by
    simp only [exec]
    rw [exec_waiter w os _ (fun o' ho' => h o' (by simp [ho'])), step_waiter s o w (h o (by simp))]

/-! ### the state is a function of the history: model = history-based specification -/

def resOf : Option Nat → Res
  | none => .pending
  | some t => .done t


theorem epochMid_snoc (n : Name) (pre : List Op) (o : Op) :
    epochMid n (pre ++ [o]) = epochStep n (epochMid n pre) o := by
  simp [epochMid, List.foldl_append]

theorem firstComplete_snoc (n : Name) (l : List Op) (o : Op) :
    firstComplete n (l ++ [o]) = match firstComplete n l with | some t => some t | none => completesOn n o := by
  unfold firstComplete
  rw [List.filterMap_append]
  cases h : List.filterMap (completesOn n) l with
  | nil => cases hc : completesOn n o <;> simp [hc]
  | cons a t => simp

theorem advance_resOf (n : Name) (x : Option Nat) (o : Op) :
    advance n (resOf x) o = resOf (match x with | some t => some t | none => completesOn n o) := by
  cases x with
  | some t => simp [advance, resOf]
  | none => cases hc : completesOn n o <;> simp [advance, resOf, hc]

/-- state = function of the history, for the slot of every name -/
def Hist (pre : List Op) (s : St) : Prop :=
  ∀ n, match epochMid n pre with
    | none => s.traces n = none
    | some mid => ∃ g, s.traces n = some g ∧ s.results g = resOf (firstComplete n mid)

theorem hist_init : Hist [] init := by
  intro n; simp [epochMid, init]

theorem hist_step (pre : List Op) (s : St) (o : Op) (hwf : WF s) (h : Hist pre s) :
    Hist (pre ++ [o]) (step s o).1 := by
  intro n
  rw [epochMid_snoc]
  have hn := h n
  by_cases ht : touches n o = true
  · -- o is init n or clear n
    cases o with
    | init m =>
      have hm : m = n := by simpa [touches] using ht
      subst hm
      simp only [epochStep, ht, if_true]
      refine ⟨s.nextGen, ?_, ?_⟩
      · show upd s.traces m (some s.nextGen) m = _; simp
      · show upd s.results s.nextGen Res.pending s.nextGen = _; simp [firstComplete, resOf]
    | clear m =>
      have hm : m = n := by simpa [touches] using ht
      subst hm
      simp only [epochStep, ht, if_true]
      show upd s.traces m none m = none; simp
    | complete m t => simp [touches] at ht
    | await w m => simp [touches] at ht
    | join w => simp [touches] at ht
    | peek w => simp [touches] at ht
    | ctx w => simp [touches] at ht
  · have htf : touches n o = false := by simpa using ht
    simp only [epochStep, htf, Bool.false_eq_true, if_false]
    cases hem : epochMid n pre with
    | none =>
      rw [hem] at hn
      simp only [Option.map_none]
      -- traces n stays none
      cases o with
      | init m =>
        have hne : n ≠ m := by intro e; subst e; simp [touches] at htf
        show upd s.traces m (some s.nextGen) n = none
        rw [upd_other _ _ _ _ hne]; exact hn
      | clear m =>
        have hne : n ≠ m := by intro e; subst e; simp [touches] at htf
        show upd s.traces m none n = none
        rw [upd_other _ _ _ _ hne]; exact hn
      | complete m t => exact hn
      | await w m => exact hn
      | join w => exact hn
      | peek w => exact hn
      | ctx w => exact hn
    | some mid =>
      rw [hem] at hn
      obtain ⟨g, hg, hr⟩ := hn
      simp only [Option.map_some]
      have := step_slot s o n g hwf hg htf
      refine ⟨g, this.1, ?_⟩
      rw [this.2, hr, advance_resOf, firstComplete_snoc]

theorem hist_exec : ∀ (post pre : List Op) (s : St), WF s → Hist pre s → Hist (pre ++ post) (exec s post).1
  | [], pre, s, _, h => by simpa [exec] using h
  | o :: os, pre, s, hwf, h => by
    have := hist_exec os (pre ++ [o]) (step s o).1 (wf_step s o hwf) (hist_step pre s o hwf h)
    simpa [exec, List.append_assoc] using this

theorem hist_of_history (ops : List Op) : Hist ops (exec init ops).1 := by
  simpa using hist_exec ops [] init wf_init hist_init

def noTouch (n : Name) (l : List Op) : Bool := l.all (fun o => !touches n o)
def waitRes (n : Name) (l : List Op) : Option Nat := firstComplete n (sameEpoch n l)

theorem sameEpoch_snoc (n : Name) : ∀ (l : List Op) (o : Op),
    sameEpoch n (l ++ [o]) = if noTouch n l && !touches n o then sameEpoch n l ++ [o] else sameEpoch n l
  | [], o => by
    cases h : touches n o <;> simp [sameEpoch, noTouch, h]
  | a :: l, o => by
    have ih := sameEpoch_snoc n l o
    unfold sameEpoch at ih ⊢
    cases ha : touches n a
    · have hnt : noTouch n (a :: l) = noTouch n l := by simp [noTouch, ha]
      simp only [List.cons_append, List.takeWhile_cons, ha, Bool.not_false, if_true]
      rw [ih, hnt]
      split <;> rfl
    · simp [ha, noTouch]

theorem waitRes_snoc (n : Name) (l : List Op) (o : Op) :
    waitRes n (l ++ [o]) =
      if noTouch n l && !touches n o then (match waitRes n l with | some t => some t | none => completesOn n o)
      else waitRes n l := by
  unfold waitRes
  rw [sameEpoch_snoc]
  split
  · rw [firstComplete_snoc]
  · rfl

theorem noTouch_snoc (n : Name) (l : List Op) (o : Op) : noTouch n (l ++ [o]) = (noTouch n l && !touches n o) := by
  simp [noTouch, List.all_append]

theorem lookup_filter_ne {β} (busy : List (Nat × β)) (w v : Nat) (h : v ≠ w) :
    (busy.filter (·.1 != w)).lookup v = busy.lookup v := by
  induction busy with
  | nil => rfl
  | cons p t ih =>
    obtain ⟨k, x⟩ := p
    by_cases hk : k = w
    · subst hk
      have : (v == k) = false := by simpa using h
      simp [List.filter_cons, List.lookup_cons, this, ih]
    · have hk' : (k != w) = true := by simpa using hk
      simp only [List.filter_cons, hk', if_true, List.lookup_cons]
      rw [ih]

theorem lookup_filter_self {β} (busy : List (Nat × β)) (w : Nat) :
    (busy.filter (·.1 != w)).lookup w = none := by
  induction busy with
  | nil => rfl
  | cons p t ih =>
    obtain ⟨k, x⟩ := p
    by_cases hk : k = w
    · subst hk; simp [List.filter_cons, ih]
    · have hk' : (k != w) = true := by simpa using hk
      have : (w == k) = false := beq_eq_false_iff_ne.mpr (Ne.symm hk)
      simp [List.filter_cons, hk', List.lookup_cons, this, ih]

theorem nextGen_mono (s : St) (o : Op) : s.nextGen ≤ (step s o).1.nextGen := by
  cases o <;> simp [step]


/-- what the state knows about a waiter `w` that began its Await on `n` at position `i` of the
history `pre` and now sits on generation `g` -/
structure WInv (pre : List Op) (s : St) (w : Nat) (n : Name) (i : Nat) (g : Nat) : Prop where
  hw : s.waiters w = some g
  hi : i < pre.length
  hlt : g < s.nextGen
  hres : s.results g = resOf (waitRes n (pre.drop (i+1)))
  hcur : noTouch n (pre.drop (i+1)) = true → s.traces n = some g
  horph : noTouch n (pre.drop (i+1)) = false → ∀ m, s.traces m ≠ some g

/-- a generation no name points to any more is never changed again -/
theorem step_orphan (s : St) (o : Op) (g : Nat) (hlt : g < s.nextGen) (h : ∀ m, s.traces m ≠ some g) :
    (step s o).1.results g = s.results g ∧ ∀ m, (step s o).1.traces m ≠ some g := by
  cases o with
  | init k =>
    refine ⟨upd_other _ _ _ _ (by omega), fun m => ?_⟩
    show upd s.traces k (some s.nextGen) m ≠ some g
    by_cases e : m = k
    · subst e; simp; omega
    · rw [upd_other _ _ _ _ e]; exact h m
  | clear k =>
    refine ⟨rfl, fun m => ?_⟩
    show upd s.traces k none m ≠ some g
    by_cases e : m = k
    · subst e; simp
    · rw [upd_other _ _ _ _ e]; exact h m
  | complete k t => exact ⟨completeResults_other s k t g (h k), h⟩
  | await w k => exact ⟨rfl, h⟩
  | join w => exact ⟨rfl, h⟩
  | peek w => exact ⟨rfl, h⟩
  | ctx w => exact ⟨rfl, h⟩

theorem winv_step (pre : List Op) (s : St) (o : Op) (w : Nat) (n : Name) (i g : Nat) (hwf : WF s)
    (h : WInv pre s w n i g) (hsame : (step s o).1.waiters w = s.waiters w) :
    WInv (pre ++ [o]) (step s o).1 w n i g := by
  have hdrop : (pre ++ [o]).drop (i+1) = pre.drop (i+1) ++ [o] :=
    List.drop_append_of_le_length (by have := h.hi; omega)
  have hmono := nextGen_mono s o
  refine ⟨by rw [hsame]; exact h.hw, by simp; have := h.hi; omega, by have := h.hlt; omega, ?_, ?_, ?_⟩
  all_goals rw [hdrop]
  · -- results
    rw [waitRes_snoc]
    cases hnt : noTouch n (pre.drop (i+1))
    · -- orphaned already
      simp only [Bool.false_and, Bool.false_eq_true, if_false]
      rw [(step_orphan s o g h.hlt (h.horph hnt)).1]; exact h.hres
    · have hg := h.hcur hnt
      cases hto : touches n o
      · simp only [Bool.true_and, Bool.not_false, if_true]
        rw [(step_slot s o n g hwf hg hto).2, h.hres, advance_resOf]
      · simp only [Bool.true_and, Bool.not_true, Bool.false_eq_true, if_false]
        -- o is init n or clear n: the result object is left alone
        cases o with
        | init k =>
          show upd s.results s.nextGen Res.pending g = _
          rw [upd_other _ _ _ _ (by have := h.hlt; omega)]; exact h.hres
        | clear k => exact h.hres
        | complete k t => simp [touches] at hto
        | await v k => simp [touches] at hto
        | join v => simp [touches] at hto
        | peek v => simp [touches] at hto
        | ctx v => simp [touches] at hto
  · -- still current
    intro hnt'
    rw [noTouch_snoc] at hnt'
    have hnt : noTouch n (pre.drop (i+1)) = true := by
      cases hx : noTouch n (pre.drop (i+1)) <;> simp [hx] at hnt' ⊢
    have hto : touches n o = false := by
      cases hx : touches n o <;> simp [hx, hnt] at hnt' ⊢
    exact (step_slot s o n g hwf (h.hcur hnt) hto).1
  · -- orphaned
    intro hnt'
    rw [noTouch_snoc] at hnt'
    cases hnt : noTouch n (pre.drop (i+1))
    · exact (step_orphan s o g h.hlt (h.horph hnt)).2
    · have hg := h.hcur hnt
      have hto : touches n o = true := by
        cases hx : touches n o <;> simp [hx, hnt] at hnt' ⊢
      obtain ⟨hb, hinj⟩ := hwf
      cases o with
      | init k =>
        have hk : k = n := by simpa [touches] using hto
        subst hk
        intro m
        show upd s.traces k (some s.nextGen) m ≠ some g
        by_cases e : m = k
        · subst e; simp; have := h.hlt; omega
        · rw [upd_other _ _ _ _ e]; intro hm; exact e (hinj m k g hm hg)
      | clear k =>
        have hk : k = n := by simpa [touches] using hto
        subst hk
        intro m
        show upd s.traces k none m ≠ some g
        by_cases e : m = k
        · subst e; simp
        · rw [upd_other _ _ _ _ e]; intro hm; exact e (hinj m k g hm hg)
      | complete k t => simp [touches] at hto
      | await v k => simp [touches] at hto
      | join v => simp [touches] at hto
      | peek v => simp [touches] at hto
      | ctx v => simp [touches] at hto


def Rel (pre : List Op) (busy : List (Nat × Name × Nat)) (s : St) : Prop :=
  ∀ w, match busy.lookup w with
    | none => s.waiters w = none
    | some (n, i) => ∃ g, WInv pre s w n i g

theorem rel_init : Rel [] [] init := by intro w; simp [init]

/-- the relation survives a step that leaves every busy waiter (other than possibly `w0`, which
is handled by the caller) alone -/
theorem rel_step_others (pre : List Op) (busy busy' : List (Nat × Name × Nat)) (s : St) (o : Op) (w0 : Nat)
    (hwf : WF s) (hr : Rel pre busy s)
    (hl : ∀ v, v ≠ w0 → busy'.lookup v = busy.lookup v)
    (hwt : ∀ v, v ≠ w0 → (step s o).1.waiters v = s.waiters v)
    (h0 : match busy'.lookup w0 with
      | none => (step s o).1.waiters w0 = none
      | some (n, i) => ∃ g, WInv (pre ++ [o]) (step s o).1 w0 n i g) :
    Rel (pre ++ [o]) busy' (step s o).1 := by
  intro v
  by_cases hv : v = w0
  · subst hv; exact h0
  · rw [hl v hv]
    have := hr v
    cases hb : busy.lookup v with
    | none => rw [hb] at this; simp only; rw [hwt v hv]; exact this
    | some p =>
      obtain ⟨n, i⟩ := p
      rw [hb] at this
      obtain ⟨g, hg⟩ := this
      exact ⟨g, winv_step pre s o v n i g hwf hg (hwt v hv)⟩

theorem spec_step_ok (pre post : List Op) (busy : List (Nat × Name × Nat)) (s : St) (o : Op)
    (hwf : WF s) (hh : Hist pre s) (hr : Rel pre busy s) :
    (step s o).2 = (specStep (pre ++ o :: post) busy pre.length o).2 ∧
    Rel (pre ++ [o]) (specStep (pre ++ o :: post) busy pre.length o).1 (step s o).1 := by
  have htake : (pre ++ o :: post).take pre.length = pre := by simp
  -- a step that changes no waiter keeps the relation with the same busy list
  have keep : (∀ v, (step s o).1.waiters v = s.waiters v) → Rel (pre ++ [o]) busy (step s o).1 := by
    intro hall
    refine rel_step_others pre busy busy s o 0 hwf hr (fun _ _ => rfl) (fun v _ => hall v) ?_
    have := hr 0
    cases hb : busy.lookup 0 with
    | none => rw [hb] at this; simp only; rw [hall 0]; exact this
    | some p =>
      obtain ⟨n, i⟩ := p
      rw [hb] at this
      obtain ⟨g, hg⟩ := this
      exact ⟨g, winv_step pre s o 0 n i g hwf hg (hall 0)⟩
  cases o with
  | init k => exact ⟨rfl, keep (fun _ => rfl)⟩
  | clear k => exact ⟨rfl, keep (fun _ => rfl)⟩
  | complete k t => exact ⟨rfl, keep (fun _ => rfl)⟩
  | await w n =>
    have hrw := hr w
    cases hb : busy.lookup w with
    | some p =>
      obtain ⟨n', i⟩ := p
      rw [hb] at hrw
      obtain ⟨g, hg⟩ := hrw
      have hsome : (s.waiters w).isSome = true := by rw [hg.hw]; rfl
      have hst : ∀ v, (step s (.await w n)).1.waiters v = s.waiters v := by
        intro v; show awaitWaiters s w n v = _; simp [awaitWaiters, awaitTarget, hsome]
      refine ⟨?_, ?_⟩
      · show [awaitObs s w n] = _
        simp [specStep, hb, awaitObs, hsome]
      · simp only [specStep, hb]; exact keep hst
    | none =>
      rw [hb] at hrw
      have hidle : s.waiters w = none := hrw
      have hn := hh n
      simp only [specStep, hb, htake]
      cases hem : epochMid n pre with
      | none =>
        rw [hem] at hn
        have hst : ∀ v, (step s (.await w n)).1.waiters v = s.waiters v := by
          intro v; show awaitWaiters s w n v = _; simp [awaitWaiters, awaitTarget, hidle, hn]
        exact ⟨by show [awaitObs s w n] = _; simp [awaitObs, hidle, hn], keep hst⟩
      | some mid =>
        rw [hem] at hn
        obtain ⟨g, hg, hres⟩ := hn
        simp only []
        cases hf : firstComplete n mid with
        | some t =>
          rw [hf] at hres
          have hst : ∀ v, (step s (.await w n)).1.waiters v = s.waiters v := by
            intro v; show awaitWaiters s w n v = _; simp [awaitWaiters, awaitTarget, hidle, hg, hres, resOf]
          exact ⟨by show [awaitObs s w n] = _; simp [awaitObs, hidle, hg, hres, resOf], keep hst⟩
        | none =>
          rw [hf] at hres
          have hpend : s.results g = .pending := hres
          have hwts : (step s (.await w n)).1.waiters = upd s.waiters w (some g) := by
            show awaitWaiters s w n = _; simp [awaitWaiters, awaitTarget, hidle, hg, hpend]
          refine ⟨by show [awaitObs s w n] = _; simp [awaitObs, hidle, hg, hpend], ?_⟩
          refine rel_step_others pre busy ((w, n, pre.length) :: busy) s (.await w n) w hwf hr ?_ ?_ ?_
          · intro v hv
            have : (v == w) = false := beq_eq_false_iff_ne.mpr hv
            simp [List.lookup_cons, this]
          · intro v hv; rw [hwts]; exact upd_other _ _ _ _ hv
          · simp only [List.lookup_cons, beq_self_eq_true]
            refine ⟨g, ⟨by rw [hwts]; simp, by simp, hwf.1 n g hg, ?_, ?_, ?_⟩⟩
            · have : (pre ++ [Op.await w n]).drop (pre.length + 1) = [] := by simp
              rw [this]; exact hpend
            · intro _; exact hg
            · intro hnt
              have : (pre ++ [Op.await w n]).drop (pre.length + 1) = [] := by simp
              rw [this] at hnt; simp [noTouch] at hnt
  | join w =>
    have hrw := hr w
    simp only [specStep, htake]
    cases hb : busy.lookup w with
    | none =>
      rw [hb] at hrw
      have hidle : s.waiters w = none := hrw
      have hst : ∀ v, (step s (.join w)).1.waiters v = s.waiters v := by
        intro v; show joinWaiters s w v = _; simp [joinWaiters, joinDone, hidle]
      exact ⟨by show [joinObs s w] = _; simp [joinObs, hidle], keep hst⟩
    | some p =>
      obtain ⟨n, i⟩ := p
      rw [hb] at hrw
      obtain ⟨g, hg⟩ := hrw
      have hres : s.results g = resOf (firstComplete n (sameEpoch n (pre.drop (i+1)))) := hg.hres
      simp only []
      cases hf : firstComplete n (sameEpoch n (pre.drop (i+1))) with
      | none =>
        rw [hf] at hres
        have hpend : s.results g = .pending := hres
        have hst : ∀ v, (step s (.join w)).1.waiters v = s.waiters v := by
          intro v; show joinWaiters s w v = _; simp [joinWaiters, joinDone, hg.hw, hpend]
        exact ⟨by show [joinObs s w] = _; simp [joinObs, hg.hw, hpend], keep hst⟩
      | some t =>
        rw [hf] at hres
        have hdone : s.results g = .done t := hres
        have hwts : (step s (.join w)).1.waiters = upd s.waiters w none := by
          show joinWaiters s w = _; simp [joinWaiters, joinDone, hg.hw, hdone]
        refine ⟨by show [joinObs s w] = _; simp [joinObs, hg.hw, hdone], ?_⟩
        refine rel_step_others pre busy (busy.filter (·.1 != w)) s (.join w) w hwf hr
          (fun v hv => lookup_filter_ne busy w v hv) (fun v hv => by rw [hwts]; exact upd_other _ _ _ _ hv) ?_
        rw [lookup_filter_self]; simp only; rw [hwts]; simp
  | peek w =>
    have hrw := hr w
    simp only [specStep, htake]
    cases hb : busy.lookup w with
    | none =>
      rw [hb] at hrw
      have hidle : s.waiters w = none := hrw
      have hst : ∀ v, (step s (.peek w)).1.waiters v = s.waiters v := by
        intro v; show joinWaiters s w v = _; simp [joinWaiters, joinDone, hidle]
      exact ⟨by show [joinObs s w] = _; simp [joinObs, hidle], keep hst⟩
    | some p =>
      obtain ⟨n, i⟩ := p
      rw [hb] at hrw
      obtain ⟨g, hg⟩ := hrw
      have hres : s.results g = resOf (firstComplete n (sameEpoch n (pre.drop (i+1)))) := hg.hres
      simp only []
      cases hf : firstComplete n (sameEpoch n (pre.drop (i+1))) with
      | none =>
        rw [hf] at hres
        have hpend : s.results g = .pending := hres
        have hst : ∀ v, (step s (.peek w)).1.waiters v = s.waiters v := by
          intro v; show joinWaiters s w v = _; simp [joinWaiters, joinDone, hg.hw, hpend]
        exact ⟨by show [joinObs s w] = _; simp [joinObs, hg.hw, hpend], keep hst⟩
      | some t =>
        rw [hf] at hres
        have hdone : s.results g = .done t := hres
        have hwts : (step s (.peek w)).1.waiters = upd s.waiters w none := by
          show joinWaiters s w = _; simp [joinWaiters, joinDone, hg.hw, hdone]
        refine ⟨by show [joinObs s w] = _; simp [joinObs, hg.hw, hdone], ?_⟩
        refine rel_step_others pre busy (busy.filter (·.1 != w)) s (.peek w) w hwf hr
          (fun v hv => lookup_filter_ne busy w v hv) (fun v hv => by rw [hwts]; exact upd_other _ _ _ _ hv) ?_
        rw [lookup_filter_self]; simp only; rw [hwts]; simp
  | ctx w =>
    have hrw := hr w
    simp only [specStep, htake]
    have hwts : (step s (.ctx w)).1.waiters = upd s.waiters w none := rfl
    cases hb : busy.lookup w with
    | none =>
      rw [hb] at hrw
      have hidle : s.waiters w = none := hrw
      refine ⟨by show ctxObs s w = _; simp [ctxObs, hidle], ?_⟩
      refine rel_step_others pre busy busy s (.ctx w) w hwf hr (fun _ _ => rfl)
        (fun v hv => by rw [hwts]; exact upd_other _ _ _ _ hv) ?_
      rw [hb]; simp only; rw [hwts]; simp
    | some p =>
      obtain ⟨n, i⟩ := p
      rw [hb] at hrw
      obtain ⟨g, hg⟩ := hrw
      have hres : s.results g = resOf (firstComplete n (sameEpoch n (pre.drop (i+1)))) := hg.hres
      have hrel : Rel (pre ++ [Op.ctx w]) (busy.filter (·.1 != w)) (step s (.ctx w)).1 := by
        refine rel_step_others pre busy (busy.filter (·.1 != w)) s (.ctx w) w hwf hr
          (fun v hv => lookup_filter_ne busy w v hv) (fun v hv => by rw [hwts]; exact upd_other _ _ _ _ hv) ?_
        rw [lookup_filter_self]; simp only; rw [hwts]; simp
      simp only []
      cases hf : firstComplete n (sameEpoch n (pre.drop (i+1))) with
      | none =>
        rw [hf] at hres
        have hpend : s.results g = .pending := hres
        exact ⟨by show ctxObs s w = _; simp [ctxObs, hg.hw, hpend], hrel⟩
      | some t =>
        rw [hf] at hres
        have hdone : s.results g = .done t := hres
        exact ⟨by show ctxObs s w = _; simp [ctxObs, hg.hw, hdone], hrel⟩

theorem exec_spec_go : ∀ (post pre : List Op) (busy : List (Nat × Name × Nat)) (s : St),
    WF s → Hist pre s → Rel pre busy s →
    (exec s post).2 = specGo (pre ++ post) busy pre.length post
  | [], _, _, _, _, _, _ => rfl
  | o :: os, pre, busy, s, hwf, hh, hr => by
    have h1 := spec_step_ok pre os busy s o hwf hh hr
    have ih := exec_spec_go os (pre ++ [o]) (specStep (pre ++ o :: os) busy pre.length o).1 (step s o).1
      (wf_step s o hwf) (hist_step pre s o hwf hh) h1.2
    simp only [exec, specGo]
    rw [h1.1]
    have e1 : pre ++ [o] ++ os = pre ++ o :: os := by simp
    have e2 : (pre ++ [o]).length = pre.length + 1 := by simp
    rw [e1, e2] at ih
    rw [ih]


/-! ### the runner's consumer: history lemmas -/

theorem foldl_epochStep_noTouch (n : Name) : ∀ (mid acc : List Op), (∀ o ∈ mid, touches n o = false) →
    mid.foldl (epochStep n) (some acc) = some (acc ++ mid)
  | [], acc, _ => by simp
  | o :: mid, acc, h => by
    have ho : touches n o = false := h o (by simp)
    have ih := foldl_epochStep_noTouch n mid (acc ++ [o]) (fun x hx => h x (by simp [hx]))
    simp only [List.foldl_cons, epochStep, ho]
    simpa using ih

theorem epochMid_init_mid (n : Name) (pre mid : List Op) (h : ∀ o ∈ mid, touches n o = false) :
    epochMid n (pre ++ [.init n] ++ mid) = some mid := by
  unfold epochMid
  rw [List.foldl_append, List.foldl_append]
  have : List.foldl (epochStep n) (List.foldl (epochStep n) none pre) [Op.init n] = some [] := by
    simp [epochStep, touches]
  rw [this, foldl_epochStep_noTouch n mid [] h]
  simp

theorem sameEpoch_noTouch (n : Name) : ∀ (post : List Op), (∀ o ∈ post, touches n o = false) → sameEpoch n post = post
  | [], _ => by simp [sameEpoch]
  | o :: post, h => by
    have ho : touches n o = false := h o (by simp)
    have ih := sameEpoch_noTouch n post (fun x hx => h x (by simp [hx]))
    unfold sameEpoch at ih ⊢
    simp [List.takeWhile_cons, ho, ih]

theorem firstComplete_append (n : Name) (a b : List Op) :
    firstComplete n (a ++ b) = match firstComplete n a with | some t => some t | none => firstComplete n b := by
  unfold firstComplete
  rw [List.filterMap_append]
  cases h : List.filterMap (completesOn n) a with
  | nil => simp
  | cons x t => simp

end ConfModel.TracerSlots
