#!/usr/bin/env python3
"""False-alarm test: applies each behaviour-preserving refactoring benign/Bk/patch.diff to /repo, runs the
quick checks of every property anchored in the touched file (properties.jsonl anchors) and restores /repo.
A check that reports a VIOLATION on such a tree is a false alarm (or, by the rules of the task, at best a
`no-failing-input-found` report of a broken correspondence). Results: benign/Bk/eval.json."""
import json, os, subprocess, sys, glob, fnmatch
VERIF = os.path.dirname(os.path.abspath(__file__))
REPO = os.environ.get("VERIF_REPO", "/repo")
props = [json.loads(l) for l in open(os.path.join(VERIF, "properties.jsonl"))]
def props_for(path):
    out = []
    for p in props:
        for a in p["anchors"]["files"]:
            if fnmatch.fnmatch(path, a) or a == path:
                out.append(p["id"]); break
    return sorted(set(out))
only = sys.argv[1:] 
for d in sorted(glob.glob(os.path.join(VERIF, "benign", "B*")), key=lambda x: int(os.path.basename(x)[1:])):
    bid = os.path.basename(d)
    if only and bid not in only: continue
    meta = json.load(open(os.path.join(d, "meta.json")))
    f = meta["file"]
    ps = props_for(f)
    if subprocess.run(["git", "-C", REPO, "status", "--porcelain"], capture_output=True, text=True).stdout.strip():
        print("refusing: /repo dirty"); sys.exit(2)
    r = subprocess.run(["git", "-C", REPO, "apply", os.path.join(d, "patch.diff")], capture_output=True, text=True)
    if r.returncode != 0:
        print(bid, "patch does not apply:", r.stderr[:200]); continue
    res = {}
    try:
        for p in ps:
            if p == "C01" and os.environ.get("BENIGN_C01") != "1":
                continue
            out = subprocess.run(["python3", os.path.join(VERIF, "check.py"), p], capture_output=True, text=True, cwd=VERIF)
            viol = [l for l in out.stdout.splitlines() if l.startswith("VIOLATION")]
            res[p] = {"exit": out.returncode, "violations": viol}
    finally:
        subprocess.run(["git", "-C", REPO, "checkout", "--", "."]); subprocess.run(["git", "-C", REPO, "clean", "-fdq"])
    json.dump({"file": f, "checks": res}, open(os.path.join(d, "eval.json"), "w"), indent=1)
    print(bid, f, {p: ("ALARM " + (v["violations"][0] if v["violations"] else f"exit {v['exit']}")) if v["exit"] != 0 else "quiet" for p, v in res.items()}, flush=True)
subprocess.run(["git", "checkout", "evidence/"], cwd=VERIF, capture_output=True)
