/-
The runner's glue around the tracer slots (`runTestCasesForServer`, server_runner.go, together
with `testResults.fetchTrace`, results.go) as a sequence of slot operations over the slot model
`ConfModel.TracerSlots`:

    tracer.Init(name)                      -- before the request is announced / handed over
    … the producer may complete the trace: while the request is announced, inside
      client.sendRequest, after it returned, inside the response callback …        (`pre`)
    outcome recorded → fetchTrace: a goroutine does  Await(ctx, name)
    … the producer may complete the trace now …                                     (`post`)
    the waiter returns (trace, or its deadline) and does  Clear(name)

Where `Init` sits relative to the producer's activity is a parameter (`initAt`: the number of
operations of `pre` that come before it); the code has `initAt = 0` — and the theorems of
Props/C16 say why it has to.
Core Lean only.
-/
import ConfModel.Model.TracerSlots
namespace ConfModel.HandoffInit
open ConfModel.TracerSlots

/-- one test case of a batch -/
structure Case where
  name : Name
  /-- the waiter goroutine that `fetchTrace` starts for the case -/
  w : Nat
  /-- what happens on the tracer between the moment the runner turns to the case and the
  recording of its outcome (other cases' operations included) -/
  pre : List Op
  /-- what happens after the outcome was recorded until the waiter is joined -/
  post : List Op

/-- the operations up to the outcome, with `Init` after the first `initAt` of them -/
def upToOutcome (initAt : Nat) (c : Case) : List Op :=
  c.pre.take initAt ++ [.init c.name] ++ c.pre.drop initAt

/-- all slot operations of the case in order -/
def caseOps (initAt : Nat) (c : Case) : List Op :=
  upToOutcome initAt c ++ [.await c.w c.name] ++ c.post ++ [.join c.w, .clear c.name]

/-- what the waiter of the case hands to the results (and whether it ran into its deadline),
after the history `hist` -/
def caseCollects (hist : List Op) (initAt : Nat) (c : Case) : Option Nat × Bool :=
  collects c.w c.name (hist ++ upToOutcome initAt c) c.post

/-- the outcome is recorded before the slot exists (response faster than a late `Init`):
`Await` fails, the waiter clears, then `Init` creates a slot nobody will ever clear -/
def outcomeBeforeInit (c : Case) : List Op :=
  c.pre ++ [.await c.w c.name, .clear c.name, .init c.name] ++ c.post

/-! ### the flattened timeline of a scripted batch (op `glue`) -/

/-- a token of the timeline: a slot operation of the producer, or the point at which the
outcome of case `k` is recorded (its waiter starts) -/
inductive Ev
  | op (o : Op)
  | outcome (k : Nat) (n : Name)
deriving Repr

def evOps : List Ev → List Op
  | [] => []
  | .op o :: r => o :: evOps r
  | .outcome k n :: r => .await k n :: evOps r

/-- position of the outcome of case `k` in the timeline -/
def outcomeAt (k : Nat) : List Ev → Nat → Option (Nat × Name)
  | [], _ => none
  | .outcome j n :: r, i => if j == k then some (i, n) else outcomeAt k r (i+1)
  | .op _ :: r, i => outcomeAt k r (i+1)

/-- the waiters return and clear their slots -/
def closing : List Ev → List Op
  | [] => []
  | .op _ :: r => closing r
  | .outcome k n :: r => .join k :: .clear n :: closing r

/-- what the waiter of case `k` collects according to the slot model -/
def timelineCollects (tl : List Ev) (k : Nat) : Option Nat × Bool :=
  match outcomeAt k tl 0 with
  | none => (none, false)
  | some (i, n) => collects k n ((evOps tl).take i) ((evOps tl).drop (i+1))

/-- is there a slot for `n` when everything is over? -/
def slotLeft (tl : List Ev) (n : Name) : Bool :=
  ((exec init (evOps tl ++ closing tl)).1.traces n).isSome

end ConfModel.HandoffInit
