/-
Helper lemmas for property C07, second part: the exact list `newLibrary` builds (insertion
order), acceptance of well-formed input (the converse of `newLibrary_ok`), and the counting
argument that relates the traversal of `expandSuite` (relevant lists, in the order of its nested
loops) to the comprehension `specList` (given cases, in their order).
-/
import ConfModel.Lemmas.Library
namespace ConfModel.Library
open ConfModel.Config

/-! ### generic list facts -/

theorem nodup_reverse_iff {α} (l : List α) : l.reverse.Nodup ↔ l.Nodup := by
  unfold List.Nodup
  rw [List.pairwise_reverse]
  constructor <;> intro h <;> exact h.imp (fun hab => Ne.symm hab)

theorem nodup_of_nodup_map {α β} (f : α → β) (l : List α) (h : (l.map f).Nodup) : l.Nodup := by
  unfold List.Nodup at h ⊢
  rw [List.pairwise_map] at h
  exact h.imp (fun hab e => hab (by rw [e]))

theorem nodup_map_of_inj_on {α β} (f : α → β) : ∀ (l : List α), l.Nodup →
    (∀ a ∈ l, ∀ b ∈ l, f a = f b → a = b) → (l.map f).Nodup
  | [], _, _ => by simp
  | x :: xs, h, hinj => by
    simp only [List.nodup_cons] at h
    simp only [List.map_cons, List.nodup_cons]
    refine ⟨?_, nodup_map_of_inj_on f xs h.2
      (fun a ha b hb => hinj a (List.mem_cons_of_mem _ ha) b (List.mem_cons_of_mem _ hb))⟩
    intro hm
    obtain ⟨y, hy, hfy⟩ := List.mem_map.1 hm
    have := hinj y (List.mem_cons_of_mem _ hy) x List.mem_cons_self hfy
    subst this; exact h.1 hy

/-- a nested loop whose body records the loop variable: the multiplicity of an element is the
multiplicity of its loop value times its multiplicity in that iteration -/
theorem count_flatMap_proj {α β} [DecidableEq α] [DecidableEq β] (f : α → List β) (proj : β → α)
    (h : ∀ a, ∀ x ∈ f a, proj x = a) (y : β) :
    ∀ l : List α, (l.flatMap f).count y = l.count (proj y) * (f (proj y)).count y
  | [] => by simp
  | a :: l => by
    rw [List.flatMap_cons, List.count_append, count_flatMap_proj f proj h y l, List.count_cons]
    by_cases e : a = proj y
    · subst e; simp [Nat.add_mul, Nat.add_comm]
    · have : (f a).count y = 0 := List.count_eq_zero.2 (fun hm => e (h a y hm).symm)
      simp [this, e]

/-- iterations that produce something run for pairwise different loop values ⇒ the pieces are
pairwise disjoint (each produced element records its loop value) -/
theorem pairwise_disjoint_of_count {α β} [DecidableEq α] (g : α → List β) (key : β → α)
    (hkey : ∀ a, ∀ x ∈ g a, key x = a) :
    ∀ l : List α, (∀ a ∈ l, g a ≠ [] → l.count a ≤ 1) →
      l.Pairwise (fun a b => ∀ x ∈ g a, ∀ y ∈ g b, x ≠ y)
  | [], _ => List.Pairwise.nil
  | a :: l, h => by
    rw [List.pairwise_cons]
    constructor
    · intro b hb x hx y hy hxy
      subst hxy
      have e : a = b := by rw [← hkey a x hx, ← hkey b x hy]
      subst e
      have hne : g a ≠ [] := fun e => by rw [e] at hx; cases hx
      have := h a List.mem_cons_self hne
      have hpos : 0 < l.count a := List.count_pos_iff.2 hb
      rw [List.count_cons_self] at this
      omega
    · apply pairwise_disjoint_of_count g key hkey l
      intro b hb hne
      have := h b (List.mem_cons_of_mem _ hb) hne
      have hle : l.count b ≤ (a :: l).count b := by rw [List.count_cons]; omega
      omega

theorem count_le_one_of_nodup_flatMap {α β} [DecidableEq α] (g : α → List β) :
    ∀ l : List α, (l.flatMap g).Nodup → ∀ a, g a ≠ [] → l.count a ≤ 1
  | [], _, _, _ => by simp
  | b :: l, h, a, hne => by
    rw [List.flatMap_cons, List.nodup_append] at h
    obtain ⟨_, h2, h3⟩ := h
    have ih := count_le_one_of_nodup_flatMap g l h2 a hne
    by_cases e : b = a
    · subst e
      have : l.count b = 0 := by
        apply List.count_eq_zero.2
        intro hm
        cases hg : g b with
        | nil => exact hne hg
        | cons x xs =>
          have hx : x ∈ g b := by rw [hg]; exact List.mem_cons_self
          exact h3 x hx x (List.mem_flatMap.2 ⟨b, hm, hx⟩) rfl
      rw [List.count_cons_self]; omega
    · rw [List.count_cons_of_ne e]; exact ih

/-! ### the exact list built, in insertion order -/

/-- what `expandCases` inserts for one looked-up config case, in order -/
def casePerms (join : List String → String) (s : Suite) (c : Case) (pre : List String) (ts : List Test) : List Perm :=
  (ts.filter fun t => decide (t.st = c.s)).map (mkPerm join s c pre)

/-- what `expandSuite` inserts for the looked-up cases `cs`, in order -/
def suitePerms (join : List String → String) (s : Suite) (cs : List Case) : List Perm :=
  cs.flatMap fun c => casePerms join s c (namePrefix s c) s.tests

/-- everything `newTestCaseLibrary` inserts, in order -/
def allPerms (join : List String → String) (inCases : Case → Bool) (mode : Mode) (ss : List Suite) : List Perm :=
  ss.flatMap fun s =>
    if ModeAdmits s mode then suitePerms join s ((suiteCases s).filter inCases) else []

theorem casePerms_cons (join : List String → String) (s : Suite) (c : Case) (pre : List String) (t : Test) (ts : List Test) :
    casePerms join s c pre (t :: ts) =
      if t.st = c.s then mkPerm join s c pre t :: casePerms join s c pre ts else casePerms join s c pre ts := by
  unfold casePerms
  by_cases h : t.st = c.s <;> simp [h]

theorem expandCases_exact (join : List String → String) (s : Suite) (c : Case) (pre : List String) (ts : List Test) :
    ∀ (i : Nat) (acc r : List Perm), expandCases join s c pre ts i acc = .ok r →
      r = (casePerms join s c pre ts).reverse ++ acc := by
  induction ts with
  | nil => intro i acc r h; simp only [expandCases] at h; injection h with h; subst h; simp [casePerms]
  | cons t ts ih =>
    intro i acc r h
    unfold expandCases at h
    split at h
    · injection h
    split at h
    · injection h
    split at h
    · rename_i h3
      rw [casePerms_cons, if_neg h3]; exact ih _ _ _ h
    rename_i h3
    split at h
    · injection h
    split at h
    · injection h
    simp only at h
    split at h
    · injection h
    have h3' : t.st = c.s := Decidable.of_not_not h3
    rw [casePerms_cons, if_pos h3', ih _ _ _ h]
    simp

/-- `expandCases` succeeds when the tests are valid for the case and the names to insert are new
and pairwise different -/
theorem expandCases_accepts (join : List String → String) (s : Suite) (c : Case) (pre : List String) (ts : List Test) :
    ∀ (i : Nat) (acc : List Perm),
      (∀ t ∈ ts, t.name ≠ "" ∧ t.st ≠ .unspec ∧ (t.st = c.s → ServiceMethodOk t)) →
      (names ((casePerms join s c pre ts).reverse ++ acc)).Nodup →
      expandCases join s c pre ts i acc = .ok ((casePerms join s c pre ts).reverse ++ acc) := by
  induction ts with
  | nil => intro i acc _ _; simp [expandCases, casePerms]
  | cons t ts ih =>
    intro i acc hok hnd
    obtain ⟨h1, h2, h3⟩ := hok t List.mem_cons_self
    have hok' : ∀ t' ∈ ts, t'.name ≠ "" ∧ t'.st ≠ .unspec ∧ (t'.st = c.s → ServiceMethodOk t') :=
      fun t' ht' => hok t' (List.mem_cons_of_mem _ ht')
    unfold expandCases
    rw [if_neg h1, if_neg h2]
    by_cases hst : t.st = c.s
    · have hsm := h3 hst
      unfold ServiceMethodOk at hsm
      have n4 : ¬ (t.service = "" ∧ t.method ≠ "") := fun x => x.2 (hsm.1 x.1)
      have n5 : ¬ (t.service ≠ "" ∧ t.method = "") := fun x => x.1 (hsm.2 x.2)
      rw [if_neg (not_not_intro hst), if_neg n4, if_neg n5]
      rw [casePerms_cons, if_pos hst] at hnd ⊢
      have e : (mkPerm join s c pre t :: casePerms join s c pre ts).reverse ++ acc =
          (casePerms join s c pre ts).reverse ++ (mkPerm join s c pre t :: acc) := by simp
      rw [e] at hnd ⊢
      have hnew : ¬ (acc.any (fun q => q.fullName = join (pre ++ [t.name])) = true) := by
        intro hx
        simp only [List.any_eq_true, decide_eq_true_eq] at hx
        obtain ⟨q, hq, hqn⟩ := hx
        simp only [names, List.map_append, List.map_cons] at hnd
        have h' := (List.nodup_append.1 hnd).2.1
        rw [List.nodup_cons] at h'
        apply h'.1
        exact List.mem_map.2 ⟨q, hq, hqn⟩
      simp only
      rw [if_neg hnew]
      exact ih _ _ hok' hnd
    · rw [if_pos hst]
      rw [casePerms_cons, if_neg hst] at hnd ⊢
      exact ih _ _ hok' hnd

theorem expandAll_exact (join : List String → String) (s : Suite) (cs : List Case) :
    ∀ (acc r : List Perm), expandAll join s cs acc = .ok r → r = (suitePerms join s cs).reverse ++ acc := by
  induction cs with
  | nil => intro acc r h; simp only [expandAll] at h; injection h with h; subst h; simp [suitePerms]
  | cons c cs ih =>
    intro acc r h
    unfold expandAll at h
    split at h
    · injection h
    rename_i acc' h1
    rw [ih _ _ h, expandCases_exact join s c _ _ _ _ _ h1]
    simp [suitePerms]

theorem expandAll_accepts (join : List String → String) (s : Suite) (cs : List Case) :
    ∀ (acc : List Perm), (∀ c ∈ cs, TestsOkAt s c) →
      (names ((suitePerms join s cs).reverse ++ acc)).Nodup →
      expandAll join s cs acc = .ok ((suitePerms join s cs).reverse ++ acc) := by
  induction cs with
  | nil => intro acc _ _; simp [expandAll, suitePerms]
  | cons c cs ih =>
    intro acc hok hnd
    have e : (suitePerms join s (c :: cs)).reverse ++ acc =
        (suitePerms join s cs).reverse ++ ((casePerms join s c (namePrefix s c) s.tests).reverse ++ acc) := by
      simp [suitePerms]
    rw [e] at hnd ⊢
    have hnd1 : (names ((casePerms join s c (namePrefix s c) s.tests).reverse ++ acc)).Nodup := by
      simp only [names, List.map_append] at hnd ⊢
      exact (List.nodup_append.1 hnd).2.1
    unfold expandAll
    rw [expandCases_accepts join s c _ _ 0 acc (hok c List.mem_cons_self) hnd1]
    exact ih _ (fun c' hc' => hok c' (List.mem_cons_of_mem _ hc')) hnd

theorem allPerms_cons (join : List String → String) (inCases : Case → Bool) (mode : Mode) (s : Suite) (ss : List Suite) :
    allPerms join inCases mode (s :: ss) =
      (if ModeAdmits s mode then suitePerms join s ((suiteCases s).filter inCases) else []) ++
        allPerms join inCases mode ss := by
  simp [allPerms]

theorem modeAdmits_iff (s : Suite) (mode : Mode) : ModeAdmits s mode ↔ ¬ (s.mode ≠ .unspec ∧ s.mode ≠ mode) := by
  unfold ModeAdmits
  constructor
  · rintro (h | h) ⟨h1, h2⟩
    · exact h1 h
    · exact h2 h
  · intro h
    by_cases hx : s.mode = .unspec
    · exact Or.inl hx
    · by_cases hy : s.mode = mode
      · exact Or.inr hy
      · exact absurd ⟨hx, hy⟩ h

theorem expandSuites_exact (join : List String → String) (inCases : Case → Bool) (mode : Mode) (ss : List Suite) :
    ∀ (seen : List String) (acc r : List Perm), expandSuites join inCases mode ss seen acc = .ok r →
      r = (allPerms join inCases mode ss).reverse ++ acc := by
  induction ss with
  | nil => intro seen acc r h; simp only [expandSuites] at h; injection h with h; subst h; simp [allPerms]
  | cons s ss ih =>
    intro seen acc r h
    unfold expandSuites at h
    split at h
    · injection h
    split at h
    · injection h
    split at h
    · injection h
    split at h
    · rename_i h4
      have hnot : ¬ ModeAdmits s mode := fun hx => (modeAdmits_iff s mode).1 hx h4
      rw [allPerms_cons, if_neg hnot, ih _ _ _ h]; simp
    · rename_i h4
      have hadm : ModeAdmits s mode := (modeAdmits_iff s mode).2 h4
      split at h
      · injection h
      rename_i acc' h5
      unfold expandSuite at h5
      split at h5
      · injection h5
      rw [allPerms_cons, if_pos hadm, ih _ _ _ h, expandAll_exact join s _ _ _ h5]
      simp

theorem expandSuites_accepts (join : List String → String) (inCases : Case → Bool) (mode : Mode) (ss : List Suite) :
    ∀ (seen : List String) (acc : List Perm),
      (∀ s ∈ ss, s.name ≠ "" ∧ s.tests ≠ [] ∧ s.name ∉ seen) →
      (ss.map (·.name)).Nodup →
      (∀ s ∈ ss, SuiteOk inCases mode s) →
      (names ((allPerms join inCases mode ss).reverse ++ acc)).Nodup →
      expandSuites join inCases mode ss seen acc = .ok ((allPerms join inCases mode ss).reverse ++ acc) := by
  induction ss with
  | nil => intro seen acc _ _ _ _; simp [expandSuites, allPerms]
  | cons s ss ih =>
    intro seen acc h1 h2 h3 hnd
    obtain ⟨a1, a2, a3⟩ := h1 s List.mem_cons_self
    simp only [List.map_cons, List.nodup_cons] at h2
    have h1' : ∀ s' ∈ ss, s'.name ≠ "" ∧ s'.tests ≠ [] ∧ s'.name ∉ s.name :: seen := by
      intro s' hs'
      obtain ⟨b1, b2, b3⟩ := h1 s' (List.mem_cons_of_mem _ hs')
      refine ⟨b1, b2, fun hm => ?_⟩
      rcases List.mem_cons.1 hm with e | hm
      · exact h2.1 (List.mem_map.2 ⟨s', hs', e⟩)
      · exact b3 hm
    have h3' : ∀ s' ∈ ss, SuiteOk inCases mode s' := fun s' hs' => h3 s' (List.mem_cons_of_mem _ hs')
    have n2 : ¬ (s.tests.isEmpty = true) := by
      intro hx; apply a2; exact List.isEmpty_iff.1 hx
    have n3 : ¬ (seen.contains s.name = true) := by
      intro hx; apply a3; simpa using hx
    unfold expandSuites
    rw [if_neg a1, if_neg n2, if_neg n3]
    rw [allPerms_cons] at hnd ⊢
    by_cases hadm : ModeAdmits s mode
    · rw [if_neg ((modeAdmits_iff s mode).1 hadm)]
      rw [if_pos hadm] at hnd ⊢
      obtain ⟨hmis, htests⟩ := h3 s List.mem_cons_self hadm
      have e : (suitePerms join s ((suiteCases s).filter inCases) ++ allPerms join inCases mode ss).reverse ++ acc =
          (allPerms join inCases mode ss).reverse ++ ((suitePerms join s ((suiteCases s).filter inCases)).reverse ++ acc) := by
        simp
      rw [e] at hnd ⊢
      have hnd1 : (names ((suitePerms join s ((suiteCases s).filter inCases)).reverse ++ acc)).Nodup := by
        simp only [names, List.map_append] at hnd ⊢
        exact (List.nodup_append.1 hnd).2.1
      have hs : expandSuite join s inCases acc =
          .ok ((suitePerms join s ((suiteCases s).filter inCases)).reverse ++ acc) := by
        unfold expandSuite
        rw [hmis]
        simp only [Bool.false_eq_true, if_false]
        apply expandAll_accepts join s _ acc _ hnd1
        intro c hc
        obtain ⟨hc1, hc2⟩ := List.mem_filter.1 hc
        exact htests c hc1 hc2
      rw [hs]
      exact ih _ _ h1' h2.2 h3' hnd
    · have hx : s.mode ≠ .unspec ∧ s.mode ≠ mode := by
        refine ⟨fun x => hadm (Or.inl x), fun x => hadm (Or.inr x)⟩
      rw [if_pos hx]
      rw [if_neg hadm] at hnd ⊢
      simp only [List.nil_append] at hnd ⊢
      exact ih _ _ h1' h2.2 h3' hnd

/-- `newLibrary` returns, when it returns, exactly the insertions in reverse order -/
theorem newLibrary_exact (join : List String → String) (suites : List Suite) (inCases : Case → Bool) (mode : Mode)
    (lib : List Perm) (h : newLibrary join suites inCases mode = .ok lib) :
    lib = (allPerms join inCases mode suites).reverse := by
  unfold newLibrary at h
  split at h
  · injection h
  rename_i lib' h1
  split at h
  · injection h
  injection h with h; subst h
  have := expandSuites_exact join inCases mode suites _ _ _ h1
  simpa using this

/-- acceptance: valid suites whose insertions have pairwise different names, at least one -/
theorem newLibrary_accepts (join : List String → String) (suites : List Suite) (inCases : Case → Bool) (mode : Mode)
    (h1 : ∀ s ∈ suites, s.name ≠ "" ∧ s.tests ≠ [])
    (h2 : (suites.map (·.name)).Nodup)
    (h3 : ∀ s ∈ suites, SuiteOk inCases mode s)
    (h4 : (names (allPerms join inCases mode suites)).Nodup)
    (h5 : allPerms join inCases mode suites ≠ []) :
    newLibrary join suites inCases mode = .ok (allPerms join inCases mode suites).reverse := by
  have hnd : (names ((allPerms join inCases mode suites).reverse ++ [])).Nodup := by
    simp only [List.append_nil, names, List.map_reverse]
    exact (nodup_reverse_iff _).2 h4
  have := expandSuites_accepts join inCases mode suites [] []
    (fun s hs => ⟨(h1 s hs).1, (h1 s hs).2, by simp⟩) h2 h3 hnd
  unfold newLibrary
  rw [this]
  simp only [List.append_nil]
  have : ¬ ((allPerms join inCases mode suites).reverse.isEmpty = true) := by
    intro hx; apply h5
    have := List.isEmpty_iff.1 hx
    simpa using this
  rw [if_neg this]

/-! ### how often `expandSuite` looks a case up -/

theorem count_realProtos (p : Proto) : realProtos.count p ≤ 1 := by cases p <;> decide
theorem count_realVers (v : Ver) : realVers.count v ≤ 1 := by cases v <;> decide
theorem count_realCodecs (c : Codec) : realCodecs.count c ≤ 1 := by cases c <;> decide
theorem count_realComps (z : Comp) : realComps.count z ≤ 1 := by cases z <;> decide

theorem count_orAll_le {α} [DecidableEq α] (l all : List α) (x : α) (h1 : l.count x ≤ 1) (h2 : all.count x ≤ 1) :
    (orAll l all).count x ≤ 1 := by
  unfold orAll; split <;> assumption

theorem le_of_count_orAll_le {α} [DecidableEq α] (l all : List α) (x : α) (h : (orAll l all).count x ≤ 1) :
    l.count x ≤ 1 := by
  unfold orAll at h
  cases l with
  | nil => simp
  | cons a l => simpa using h

theorem mul_le_one_parts (a b : Nat) (h : a * b ≤ 1) (hpos : 0 < a * b) : a ≤ 1 ∧ b ≤ 1 := by
  rcases Nat.eq_zero_or_pos a with rfl | ha
  · simp at hpos
  rcases Nat.eq_zero_or_pos b with rfl | hb
  · simp at hpos
  exact ⟨Nat.le_trans (Nat.le_mul_of_pos_right a hb) h, Nat.le_trans (Nat.le_mul_of_pos_left b ha) h⟩

/-- the innermost loop of `expandSuite` (stream types) meets a case at most once -/
theorem count_stLoop_le (c : Case) (f1 f2 f3 : Bool) (m : CVM) :
    (realSTs.map fun st => (⟨c.v, c.p, c.c, c.z, st, c.tls, f1, f2, f3, m⟩ : Case)).count c ≤ 1 := by
  have hnd : (realSTs.map fun st => (⟨c.v, c.p, c.c, c.z, st, c.tls, f1, f2, f3, m⟩ : Case)).Nodup :=
    nodup_map_of_inj_on _ realSTs (by decide) (fun a _ b _ h => by simpa using h)
  exact List.nodup_iff_count.1 hnd c

/-- multiplicity of a case in the nested loops of `expandSuite`: the product of its multiplicities
in the (defaulted) relevant lists -/
theorem count_suiteCases (s : Suite) (c : Case) :
    (suiteCases s).count c =
      (orAll s.protocols realProtos).count c.p * ((orAll s.versions realVers).count c.v *
        ((if s.reliesOnTls then [true] else [true, false]).count c.tls *
          ((orAll s.codecs realCodecs).count c.c * ((orAll s.comps realComps).count c.z *
            (realSTs.map fun st => (⟨c.v, c.p, c.c, c.z, st, c.tls, s.reliesOnCerts, s.reliesOnGet,
              s.reliesOnLimit, s.cvm⟩ : Case)).count c)))) := by
  unfold suiteCases
  rw [count_flatMap_proj _ (fun x : Case => x.p) (by
    intro a x hx
    simp only [List.mem_flatMap, List.mem_map] at hx
    obtain ⟨_, _, _, _, _, _, _, _, _, _, rfl⟩ := hx; rfl)]
  rw [count_flatMap_proj _ (fun x : Case => x.v) (by
    intro a x hx
    simp only [List.mem_flatMap, List.mem_map] at hx
    obtain ⟨_, _, _, _, _, _, _, _, rfl⟩ := hx; rfl)]
  rw [count_flatMap_proj _ (fun x : Case => x.tls) (by
    intro a x hx
    simp only [List.mem_flatMap, List.mem_map] at hx
    obtain ⟨_, _, _, _, _, _, rfl⟩ := hx; rfl)]
  rw [count_flatMap_proj _ (fun x : Case => x.c) (by
    intro a x hx
    simp only [List.mem_flatMap, List.mem_map] at hx
    obtain ⟨_, _, _, _, rfl⟩ := hx; rfl)]
  rw [count_flatMap_proj _ (fun x : Case => x.z) (by
    intro a x hx
    simp only [List.mem_map] at hx
    obtain ⟨_, _, rfl⟩ := hx; rfl)]

theorem count_tlsLoop_le (r t : Bool) : (if r then [true] else [true, false]).count t ≤ 1 := by
  cases r <;> cases t <;> decide

theorem count_suiteCases_le_one (s : Suite) (c : Case) (h : NoRepeat s c) : (suiteCases s).count c ≤ 1 := by
  rw [count_suiteCases]
  obtain ⟨h1, h2, h3, h4⟩ := h
  have a1 := count_orAll_le s.protocols realProtos c.p h1 (count_realProtos _)
  have a2 := count_orAll_le s.versions realVers c.v h2 (count_realVers _)
  have a3 := count_tlsLoop_le s.reliesOnTls c.tls
  have a4 := count_orAll_le s.codecs realCodecs c.c h3 (count_realCodecs _)
  have a5 := count_orAll_le s.comps realComps c.z h4 (count_realComps _)
  have a6 := count_stLoop_le c s.reliesOnCerts s.reliesOnGet s.reliesOnLimit s.cvm
  exact Nat.mul_le_mul a1 (Nat.mul_le_mul a2 (Nat.mul_le_mul a3 (Nat.mul_le_mul a4 (Nat.mul_le_mul a5 a6))))

theorem noRepeat_of_count_le_one (s : Suite) (c : Case) (hm : c ∈ suiteCases s) (h : (suiteCases s).count c ≤ 1) :
    NoRepeat s c := by
  have hpos : 0 < (suiteCases s).count c := List.count_pos_iff.2 hm
  rw [count_suiteCases] at h hpos
  obtain ⟨a1, r1⟩ := mul_le_one_parts _ _ h hpos
  have p1 := Nat.pos_of_mul_pos_left hpos
  obtain ⟨a2, r2⟩ := mul_le_one_parts _ _ r1 p1
  have p2 := Nat.pos_of_mul_pos_left p1
  obtain ⟨_, r3⟩ := mul_le_one_parts _ _ r2 p2
  have p3 := Nat.pos_of_mul_pos_left p2
  obtain ⟨a4, r4⟩ := mul_le_one_parts _ _ r3 p3
  have p4 := Nat.pos_of_mul_pos_left p3
  obtain ⟨a5, _⟩ := mul_le_one_parts _ _ r4 p4
  exact ⟨le_of_count_orAll_le _ _ _ a1, le_of_count_orAll_le _ _ _ a2, le_of_count_orAll_le _ _ _ a4,
    le_of_count_orAll_le _ _ _ a5⟩

/-! ### the insertions have no repetition exactly when every case that carries a permutation is looked up once -/

theorem mem_casePerms (join : List String → String) (s : Suite) (c : Case) (pre : List String) (ts : List Test) (q : Perm) :
    q ∈ casePerms join s c pre ts ↔ ∃ t ∈ ts, t.st = c.s ∧ q = mkPerm join s c pre t := by
  simp only [casePerms, List.mem_map, List.mem_filter, decide_eq_true_eq]
  constructor
  · rintro ⟨t, ⟨ht, hst⟩, rfl⟩; exact ⟨t, ht, hst, rfl⟩
  · rintro ⟨t, ht, hst, rfl⟩; exact ⟨t, ⟨ht, hst⟩, rfl⟩

theorem casePerms_ne_nil (join : List String → String) (s : Suite) (c : Case) (pre : List String) (ts : List Test) :
    casePerms join s c pre ts ≠ [] ↔ ∃ t ∈ ts, t.st = c.s := by
  constructor
  · intro h
    obtain ⟨q, hq⟩ := List.exists_mem_of_ne_nil _ h
    obtain ⟨t, ht, hst, _⟩ := (mem_casePerms join s c pre ts q).1 hq
    exact ⟨t, ht, hst⟩
  · rintro ⟨t, ht, hst⟩ h
    have := (mem_casePerms join s c pre ts _).2 ⟨t, ht, hst, rfl⟩
    rw [h] at this; cases this

theorem mem_allPerms (join : List String → String) (inCases : Case → Bool) (mode : Mode) (ss : List Suite) (q : Perm) :
    q ∈ allPerms join inCases mode ss ↔ ∃ s ∈ ss, SuitePerm join inCases mode s q := by
  simp only [allPerms, List.mem_flatMap, SuitePerm, PermOf]
  constructor
  · rintro ⟨s, hs, hq⟩
    split at hq
    · rename_i hadm
      simp only [suitePerms, List.mem_flatMap, List.mem_filter] at hq
      obtain ⟨c, ⟨hc1, hc2⟩, hq⟩ := hq
      exact ⟨s, hs, hadm, c, hc1, hc2, (mem_casePerms _ _ _ _ _ _).1 hq⟩
    · cases hq
  · rintro ⟨s, hs, hadm, c, hc1, hc2, hq⟩
    refine ⟨s, hs, ?_⟩
    rw [if_pos hadm]
    simp only [suitePerms, List.mem_flatMap, List.mem_filter]
    exact ⟨c, ⟨hc1, hc2⟩, (mem_casePerms _ _ _ _ _ _).2 hq⟩

/-- the per-case pieces have no repetition and a case that carries a permutation is looked up once -/
def LookupsOnce (join : List String → String) (inCases : Case → Bool) (mode : Mode) (ss : List Suite) : Prop :=
  ∀ s ∈ ss, ModeAdmits s mode → ∀ c ∈ suiteCases s, inCases c = true →
    (casePerms join s c (namePrefix s c) s.tests).Nodup ∧
    ((∃ t ∈ s.tests, t.st = c.s) → (suiteCases s).count c ≤ 1)

theorem allPerms_nodup (join : List String → String) (inCases : Case → Bool) (mode : Mode) (ss : List Suite)
    (h1 : (ss.map (·.name)).Nodup) (h2 : LookupsOnce join inCases mode ss) :
    (allPerms join inCases mode ss).Nodup := by
  unfold allPerms List.Nodup
  rw [List.pairwise_flatMap]
  constructor
  · intro s hs
    split
    · rename_i hadm
      unfold suitePerms
      rw [List.pairwise_flatMap]
      constructor
      · intro c hc
        obtain ⟨hc1, hc2⟩ := List.mem_filter.1 hc
        exact (h2 s hs hadm c hc1 hc2).1
      · apply pairwise_disjoint_of_count (fun c => casePerms join s c (namePrefix s c) s.tests) (fun q => q.case)
        · intro c q hq
          obtain ⟨t, _, _, rfl⟩ := (mem_casePerms _ _ _ _ _ _).1 hq
          rfl
        · intro c hc hne
          obtain ⟨hc1, hc2⟩ := List.mem_filter.1 hc
          rw [List.count_filter hc2]
          exact (h2 s hs hadm c hc1 hc2).2 ((casePerms_ne_nil _ _ _ _ _).1 hne)
    · exact List.Pairwise.nil
  · unfold List.Nodup at h1
    rw [List.pairwise_map] at h1
    refine h1.imp ?_
    intro a b hab x hx y hy hxy
    subst hxy
    have key : ∀ (s : Suite), x ∈ (if ModeAdmits s mode then suitePerms join s ((suiteCases s).filter inCases) else []) →
        x.suite = s.name := by
      intro s hx
      split at hx
      · simp only [suitePerms, List.mem_flatMap] at hx
        obtain ⟨c, _, hq⟩ := hx
        obtain ⟨t, _, _, rfl⟩ := (mem_casePerms _ _ _ _ _ _).1 hq
        rfl
      · cases hx
    exact hab (by rw [← key a hx, ← key b hy])

theorem lookupsOnce_of_nodup (join : List String → String) (inCases : Case → Bool) (mode : Mode) (ss : List Suite)
    (h : (allPerms join inCases mode ss).Nodup) : LookupsOnce join inCases mode ss := by
  unfold allPerms List.Nodup at h
  rw [List.pairwise_flatMap] at h
  intro s hs hadm c hc1 hc2
  have hs' := h.1 s hs
  rw [if_pos hadm] at hs'
  have hc : c ∈ (suiteCases s).filter inCases := List.mem_filter.2 ⟨hc1, hc2⟩
  have hs'' := hs'
  unfold suitePerms at hs''
  rw [List.pairwise_flatMap] at hs''
  refine ⟨hs''.1 c hc, fun hex => ?_⟩
  have := count_le_one_of_nodup_flatMap (fun c => casePerms join s c (namePrefix s c) s.tests) _ hs' c
    ((casePerms_ne_nil _ _ _ _ _).2 hex)
  rwa [List.count_filter hc2] at this

/-! ### the comprehension `specList` -/

theorem specList_pieces (join : List String → String) (suites : List Suite) (cases : List Case) (mode : Mode)
    (h : (specList join suites cases mode).Nodup) :
    ∀ s ∈ suites, ∀ c ∈ cases, Admits s mode c →
      ((s.tests.filter fun t => decide (t.st = c.s)).map fun t => specPerm join s c t).Nodup := by
  unfold specList List.Nodup at h
  rw [List.pairwise_flatMap] at h
  intro s hs c hc ha
  have h1 := h.1 s hs
  rw [List.pairwise_flatMap] at h1
  exact h1.1 c (List.mem_filter.2 ⟨hc, by simpa using ha⟩)

theorem specList_nodup (join : List String → String) (suites : List Suite) (cases : List Case) (mode : Mode)
    (h1 : (suites.map (·.name)).Nodup) (h2 : cases.Nodup)
    (h3 : ∀ s ∈ suites, ∀ c ∈ cases, Admits s mode c →
      ((s.tests.filter fun t => decide (t.st = c.s)).map fun t => specPerm join s c t).Nodup) :
    (specList join suites cases mode).Nodup := by
  unfold specList List.Nodup
  rw [List.pairwise_flatMap]
  constructor
  · intro s hs
    rw [List.pairwise_flatMap]
    constructor
    · intro c hc
      obtain ⟨hc1, hc2⟩ := List.mem_filter.1 hc
      exact h3 s hs c hc1 (by simpa using hc2)
    · have : (cases.filter fun c => decide (Admits s mode c)).Pairwise (· ≠ ·) := List.Pairwise.filter _ h2
      refine this.imp ?_
      intro a b hab x hx y hy hxy
      subst hxy
      obtain ⟨t, _, rfl⟩ := List.mem_map.1 hx
      obtain ⟨t', _, e⟩ := List.mem_map.1 hy
      apply hab
      have := congrArg Perm.case e
      simpa [specPerm] using this.symm
  · unfold List.Nodup at h1
    rw [List.pairwise_map] at h1
    refine h1.imp ?_
    intro a b hab x hx y hy hxy
    subst hxy
    simp only [List.mem_flatMap, List.mem_map] at hx hy
    obtain ⟨_, _, t, _, rfl⟩ := hx
    obtain ⟨_, _, t', _, e⟩ := hy
    apply hab
    have := congrArg Perm.suite e
    simpa [specPerm] using this.symm

/-- the validity `newTestCaseLibrary` enforces, from the clauses of `WellFormed` -/
theorem suiteOk_of_wellFormed (suites : List Suite) (cases : List Case) (mode : Mode)
    (w3 : ∀ s ∈ suites, ModeAdmits s mode → ¬ Misconfigured s)
    (w4 : ∀ s ∈ suites, ∀ c ∈ cases, Admits s mode c →
      (∀ t ∈ s.tests, t.name ≠ "" ∧ t.st ≠ .unspec ∧ (t.st = c.s → ServiceMethodOk t)) ∧
      ((∃ t ∈ s.tests, t.st = c.s) → NoRepeat s c)) :
    ∀ s ∈ suites, SuiteOk (fun c => decide (c ∈ cases)) mode s := by
  intro s hs hadm
  constructor
  · cases hm : misconfigured s
    · rfl
    · exact absurd ((misconfigured_iff s).1 hm) (w3 s hs hadm)
  · intro c hc1 hc2
    have hc : c ∈ cases := by simpa using hc2
    exact (w4 s hs c hc ((admits_iff s mode c).2 ⟨hadm, hc1⟩)).1

/-- under the validity enforced, the insertions are, as a set, the comprehension -/
theorem mem_allPerms_iff_spec (join : List String → String) (hj : ∀ l, join ("" :: l) = join l)
    (suites : List Suite) (cases : List Case) (mode : Mode)
    (e : ∀ s ∈ suites, SuiteOk (fun c => decide (c ∈ cases)) mode s) (q : Perm) :
    q ∈ allPerms join (fun c => decide (c ∈ cases)) mode suites ↔ q ∈ specList join suites cases mode := by
  rw [mem_allPerms, mem_specList]
  constructor
  · rintro ⟨s, hs, hm, c, hc1, hc2, t, ht, hst, rfl⟩
    have hc2' : c ∈ cases := by simpa using hc2
    have hok := (e s hs hm).2 c hc1 hc2 t ht
    exact ⟨s, hs, c, hc2', (admits_iff s mode c).2 ⟨hm, hc1⟩, t, ht, hst,
      mkPerm_eq_spec join hj s c t (hok.2.2 hst)⟩
  · rintro ⟨s, hs, c, hc, ha, t, ht, hst, rfl⟩
    obtain ⟨hm, hc1⟩ := (admits_iff s mode c).1 ha
    have hc2 : decide (c ∈ cases) = true := by simpa using hc
    have hok := (e s hs hm).2 c hc1 hc2 t ht
    exact ⟨s, hs, hm, c, hc1, hc2, t, ht, hst, (mkPerm_eq_spec join hj s c t (hok.2.2 hst)).symm⟩

/-- the piece `expandCases` inserts for a case is the piece of the comprehension -/
theorem casePerms_eq_spec (join : List String → String) (hj : ∀ l, join ("" :: l) = join l)
    (s : Suite) (c : Case) (hok : TestsOkAt s c) :
    casePerms join s c (namePrefix s c) s.tests =
      (s.tests.filter fun t => decide (t.st = c.s)).map fun t => specPerm join s c t := by
  unfold casePerms
  apply List.map_congr_left
  intro t ht
  obtain ⟨ht1, ht2⟩ := List.mem_filter.1 ht
  exact mkPerm_eq_spec join hj s c t ((hok t ht1).2.2 (by simpa using ht2))

/-- **Sufficiency.** Well-formed suites with at least one specified permutation are accepted, and
the library is the list of insertions. -/
theorem wellFormed_accepts (join : List String → String) (hj : ∀ l, join ("" :: l) = join l)
    (suites : List Suite) (cases : List Case) (mode : Mode)
    (hwf : WellFormed join suites cases mode) (hne : specList join suites cases mode ≠ []) :
    newLibrary join suites (fun c => decide (c ∈ cases)) mode =
      .ok (allPerms join (fun c => decide (c ∈ cases)) mode suites).reverse := by
  obtain ⟨w1, w2, w3, w4, w5⟩ := hwf
  have e := suiteOk_of_wellFormed suites cases mode w3 w4
  have hmem := mem_allPerms_iff_spec join hj suites cases mode e
  have hsl := nodup_of_nodup_map _ _ w5
  have hpieces := specList_pieces join suites cases mode hsl
  have hE : (allPerms join (fun c => decide (c ∈ cases)) mode suites).Nodup := by
    apply allPerms_nodup _ _ _ _ w2
    intro s hs hadm c hc1 hc2
    have hc : c ∈ cases := by simpa using hc2
    have ha : Admits s mode c := (admits_iff s mode c).2 ⟨hadm, hc1⟩
    constructor
    · rw [casePerms_eq_spec join hj s c ((e s hs hadm).2 c hc1 hc2)]
      exact hpieces s hs c hc ha
    · intro hex
      exact count_suiteCases_le_one s c ((w4 s hs c hc ha).2 hex)
  apply newLibrary_accepts join suites _ mode w1 w2 e
  · apply nodup_map_of_inj_on _ _ hE
    intro a ha b hb hab
    exact nodup_map_inj (fun p : Perm => p.fullName) _ w5 a ((hmem a).1 ha) b ((hmem b).1 hb) hab
  · obtain ⟨q, hq⟩ := List.exists_mem_of_ne_nil _ hne
    intro hx
    have := (hmem q).2 hq
    rw [hx] at this; cases this

/-- **Necessity.** An accepted input (config cases listed without repetition) is well-formed and
specifies at least one permutation. -/
theorem accepted_wellFormed (join : List String → String) (hj : ∀ l, join ("" :: l) = join l)
    (suites : List Suite) (cases : List Case) (mode : Mode) (hc : cases.Nodup) (lib : List Perm)
    (h : newLibrary join suites (fun c => decide (c ∈ cases)) mode = .ok lib) :
    WellFormed join suites cases mode ∧ specList join suites cases mode ≠ [] := by
  obtain ⟨_, b, c, d, e, f⟩ := newLibrary_ok join suites _ mode lib h
  have hex := newLibrary_exact join suites _ mode lib h
  have hmem := mem_allPerms_iff_spec join hj suites cases mode f
  have hnE : (names (allPerms join (fun c => decide (c ∈ cases)) mode suites)).Nodup := by
    rw [hex] at b
    simp only [names, List.map_reverse] at b
    exact (nodup_reverse_iff _).1 b
  have hE := nodup_of_nodup_map _ _ hnE
  have hlo := lookupsOnce_of_nodup join _ mode suites hE
  have w4 : ∀ s ∈ suites, ∀ c ∈ cases, Admits s mode c →
      (∀ t ∈ s.tests, t.name ≠ "" ∧ t.st ≠ .unspec ∧ (t.st = c.s → ServiceMethodOk t)) ∧
      ((∃ t ∈ s.tests, t.st = c.s) → NoRepeat s c) := by
    intro s hs c' hc' ha
    obtain ⟨hm, hc1⟩ := (admits_iff s mode c').1 ha
    have hc2 : decide (c' ∈ cases) = true := by simpa using hc'
    refine ⟨(f s hs hm).2 c' hc1 hc2, fun hex' => ?_⟩
    exact noRepeat_of_count_le_one s c' hc1 ((hlo s hs hm c' hc1 hc2).2 hex')
  have hsl : (specList join suites cases mode).Nodup := by
    apply specList_nodup join suites cases mode e hc
    intro s hs c' hc' ha
    obtain ⟨hm, hc1⟩ := (admits_iff s mode c').1 ha
    have hc2 : decide (c' ∈ cases) = true := by simpa using hc'
    rw [← casePerms_eq_spec join hj s c' ((f s hs hm).2 c' hc1 hc2)]
    exact (hlo s hs hm c' hc1 hc2).1
  refine ⟨⟨d, e, ?_, w4, ?_⟩, ?_⟩
  · intro s hs hm hx
    have := (f s hs hm).1
    rw [(misconfigured_iff s).2 hx] at this
    cases this
  · apply nodup_map_of_inj_on _ _ hsl
    intro a ha b' hb hab
    exact nodup_map_inj (fun p : Perm => p.fullName) _ hnE a ((hmem a).2 ha) b' ((hmem b').2 hb) hab
  · intro hx
    apply c
    rw [hex]
    cases hall : allPerms join (fun c => decide (c ∈ cases)) mode suites with
    | nil => rfl
    | cons q _ =>
      have := (hmem q).1 (by rw [hall]; exact List.mem_cons_self)
      rw [hx] at this; cases this

end ConfModel.Library
