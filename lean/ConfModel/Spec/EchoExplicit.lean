/-
The whole of `assert` (results.go) as far as the expectation is concerned: `Spec/EchoAgree.lean`
plus the two leniencies/strictnesses only an explicit expectation can switch on —
`other_allowed_error_codes` (`checkError`: `expected.Code != actual.Code &&
!slices.Contains(otherCodes, actual.Code)`) and `http_status_code` (compared only when both the
expectation and the client's result carry one).
-/
import ConfModel.Spec.EchoAgree
import ConfModel.Model.EchoExplicit
namespace ConfModel.Echo

/-- the code clause of `checkError` -/
def codeAgree (other : List Nat) (e a : Nat) : Bool := e == a || other.contains a

/-- the message clause of `checkError`: compared only when the expectation states one -/
def msgAgree (e a : Option String) : Bool :=
  match e with | none => true | some m => a.getD "" == m

/-- `checkError` reports nothing -/
def errAgreeX (other : List Nat) (e a : Option Err) : Bool :=
  match e, a with
  | none, none => true
  | some e, some a => codeAgree other e.code a.code && msgAgree e.msg a.msg && detailsAgree e.details a.details
  | _, _ => false

/-- the last clause of `assert`: both sides non-nil and different ⇒ a discrepancy -/
def statusAgree (e a : Option Nat) : Bool :=
  match e, a with
  | some x, some y => x == y
  | _, _ => true

/-- everything of `assert` after `checkError`: payloads, then headers and trailers (with the
"one bag of error metadata" alternative) -/
def restAgree (st : ST) (e a : Result) : Bool :=
  payloadsAgreeFrom 0 e.payloads a.payloads &&
  (if e.payloads.isEmpty && e.err.isSome && (st == .unary || st == .clientStream) then
     (subsumed e.hdrs a.hdrs && subsumed e.trls a.trls) ||
       subsumed (mergeHeaders e.hdrs e.trls) a.hdrs || subsumed (mergeHeaders e.hdrs e.trls) a.trls
   else subsumed e.hdrs a.hdrs && subsumed e.trls a.trls)

/-- `assert` records no discrepancy; `aStatus` is the `http_status_code` of the client's result -/
def agreeX (st : ST) (ex : Expectation) (a : Result) (aStatus : Option Nat) : Bool :=
  errAgreeX ex.otherCodes ex.result.err a.err && restAgree st ex.result a && statusAgree ex.status aStatus

end ConfModel.Echo
