/-
Layer 2: the stream table is only ever touched at the key of the frame's stream (GOAWAY: at
every key above the last id), so the tracer, observed at one stream, is the one-stream
machine `viewStep`.
-/
import ConfModel.Model.H2Conn
set_option linter.unusedSimpArgs false
set_option linter.unusedVariables false
namespace ConfModel.H2

/-- stream table invariant: one entry per id -/
def TOK (t : Tbl) : Prop := (t.map (·.1)).Nodup

theorem tGet_tDel (i j : Nat) (t : Tbl) : tGet i (tDel j t) = if j = i then none else tGet i t := by
  induction t with
  | nil => simp [tDel, tGet]
  | cons p t ih =>
    simp only [tDel, List.filter] at ih ⊢
    by_cases hp : p.1 = j
    · simp only [hp, bne_self_eq_false]
      rw [ih]
      by_cases hji : j = i
      · simp [hji]
      · simp [hji, tGet, hp]
    · have : (p.1 != j) = true := by simp [hp]
      simp only [this, tGet]
      by_cases hpi : p.1 = i
      · have : ¬ j = i := by intro h; apply hp; rw [hpi, h]
        simp [hpi, this]
      · simp only [hpi, if_false]; exact ih

theorem tGet_tSet (i j : Nat) (st : Stream) (t : Tbl) : tGet i (tSet j st t) = if j = i then some st else tGet i t := by
  simp only [tSet, tGet]
  by_cases h : j = i
  · simp [h]
  · simp [h, tGet_tDel]

theorem tGet_tPut (i j : Nat) (o : Option Stream) (t : Tbl) : tGet i (tPut j o t) = if j = i then o else tGet i t := by
  cases o with
  | none => simp [tPut, tGet_tDel]
  | some st => simp [tPut, tGet_tSet]

theorem tGet_filter (p : Nat → Bool) (i : Nat) (t : Tbl) :
    tGet i (t.filter (fun q => p q.1)) = if p i = true then tGet i t else none := by
  induction t with
  | nil => simp [tGet]
  | cons q t ih =>
    simp only [List.filter]
    by_cases hq : p q.1 = true
    · simp only [hq, tGet]
      by_cases hqi : q.1 = i
      · subst hqi; simp [hq]
      · simp only [hqi, if_false]; exact ih
    · have hq' : p q.1 = false := by simpa using hq
      simp only [hq', tGet]
      by_cases hqi : q.1 = i
      · subst hqi; rw [ih]; simp [hq']
      · simp only [hqi, if_false]; exact ih

theorem tGet_none_of_not_mem (i : Nat) (t : Tbl) (h : i ∉ t.map (·.1)) : tGet i t = none := by
  induction t with
  | nil => rfl
  | cons p t ih =>
    simp only [List.map_cons, List.mem_cons, not_or] at h
    simp only [tGet]
    rw [if_neg (fun e => h.1 e.symm)]
    exact ih h.2

theorem keys_filter_sub (p : Nat × Stream → Bool) (t : Tbl) (k : Nat) (h : k ∈ (t.filter p).map (·.1)) : k ∈ t.map (·.1) := by
  simp only [List.mem_map, List.mem_filter] at h ⊢
  obtain ⟨q, ⟨hq, _⟩, hk⟩ := h
  exact ⟨q, hq, hk⟩

theorem TOK_filter (p : Nat × Stream → Bool) (t : Tbl) (h : TOK t) : TOK (t.filter p) := by
  induction t with
  | nil => exact h
  | cons q t ih =>
    simp only [TOK, List.map_cons, List.nodup_cons] at h
    simp only [List.filter]
    split
    · simp only [TOK, List.map_cons, List.nodup_cons]
      exact ⟨fun hm => h.1 (keys_filter_sub p t _ hm), ih h.2⟩
    · exact ih h.2

theorem TOK_tDel (j : Nat) (t : Tbl) (h : TOK t) : TOK (tDel j t) := TOK_filter _ t h

theorem TOK_tSet (j : Nat) (st : Stream) (t : Tbl) (h : TOK t) : TOK (tSet j st t) := by
  simp only [tSet, TOK, List.map_cons, List.nodup_cons]
  refine ⟨?_, TOK_tDel j t h⟩
  intro hm
  simp only [tDel, List.mem_map, List.mem_filter] at hm
  obtain ⟨q, ⟨_, hq⟩, hk⟩ := hm
  simp [hk] at hq

theorem TOK_tPut (j : Nat) (o : Option Stream) (t : Tbl) (h : TOK t) : TOK (tPut j o t) := by
  cases o with
  | none => exact TOK_tDel j t h
  | some st => exact TOK_tSet j st t h

/-! ### tagged operations -/

theorem opsFor_nil (i : Nat) : opsFor i [] = [] := rfl

theorem opsFor_append (i : Nat) (a b : Ops) : opsFor i (a ++ b) = opsFor i a ++ opsFor i b := by
  simp [opsFor, List.filter_append]

theorem opsFor_tag_same (i : Nat) (ops : List COp) : opsFor i (tag i ops) = ops := by
  induction ops with
  | nil => rfl
  | cons o ops ih =>
    simp only [opsFor, tag, List.map_cons, List.filter, beq_self_eq_true] at ih ⊢
    rw [ih]

theorem opsFor_tag_ne (i j : Nat) (h : j ≠ i) (ops : List COp) : opsFor i (tag j ops) = [] := by
  induction ops with
  | nil => rfl
  | cons o ops ih =>
    have : (j == i) = false := by simp [h]
    simp only [opsFor, tag, List.map_cons, List.filter, this] at ih ⊢
    exact ih

/-- operations of a pass over the whole table (`setMaxStreamIDLocked`, `cancelAll`), seen from stream `i` -/
theorem opsFor_flatMap (i : Nat) (g : Nat × Stream → List COp) : ∀ (t : Tbl), TOK t →
    opsFor i (t.flatMap (fun p => tag p.1 (g p))) = match tGet i t with
      | some st => g (i, st)
      | none => []
  | [], _ => rfl
  | p :: t, h => by
    simp only [TOK, List.map_cons, List.nodup_cons] at h
    simp only [List.flatMap_cons, opsFor_append, tGet]
    by_cases hp : p.1 = i
    · have hnone : tGet i t = none := tGet_none_of_not_mem i t (by rw [← hp]; exact h.1)
      rw [opsFor_flatMap i g t h.2, hnone, if_pos hp, hp, opsFor_tag_same]
      have : p = (i, p.2) := by rw [← hp]
      rw [this]
      simp
    · rw [if_neg hp, opsFor_tag_ne i p.1 hp, List.nil_append]
      exact opsFor_flatMap i g t h.2

/-! ### one frame, seen from stream `i` -/

theorem setMax_view (c : L2) (h : TOK c.streams) (i last : Nat) (err : Err) :
    view i (setMax c last err).1 = { cur := if i > last then none else tGet i c.streams, maxId := last } ∧
    opsFor i (setMax c last err).2 = (match tGet i c.streams with
      | some st => if i > last then completes (st.abort err).2 else []
      | none => []) ∧
    TOK (setMax c last err).1.streams := by
  refine ⟨?_, ?_, TOK_filter _ _ h⟩
  · simp only [view, setMax]
    rw [tGet_filter (fun k => !(k > last)) i c.streams]
    by_cases hl : i > last
    · simp [hl]
    · simp [hl]
  · simp only [setMax]
    rw [opsFor_flatMap i (fun p => completes (p.2.abort err).2) _ (TOK_filter _ _ h)]
    rw [tGet_filter (fun k => decide (k > last)) i c.streams]
    by_cases hl : i > last
    · simp only [hl, decide_true, if_true]
    · simp only [hl, decide_false, Bool.false_eq_true, if_false]
      cases tGet i c.streams <;> rfl

/-- **Locality.**  What `handleFrame` does, observed at stream `i`, is `viewStep`. -/
theorem handleFrame_view (c : L2) (h : TOK c.streams) (i : Nat) (isReq : Bool) (f : Frame) :
    view i (handleFrame c isReq f).1 = (viewStep i (view i c) isReq f).1 ∧
    opsFor i (handleFrame c isReq f).2 = (viewStep i (view i c) isReq f).2 ∧
    TOK (handleFrame c isReq f).1.streams ∧ (handleFrame c isReq f).1.isServer = c.isServer := by
  have key : ∀ (id : Nat) (g : Frame), frameSid g = some id →
      (∀ (last code : Nat), g ≠ .goaway last code) → g ≠ .other →
      handleFrame c isReq g = ({ c with streams := tPut id (streamStep c.maxId isReq id (tGet id c.streams) g).1 c.streams },
        tag id (streamStep c.maxId isReq id (tGet id c.streams) g).2) := by
    intro id g hg _ _
    cases g <;> simp_all [handleFrame, frameSid]
  cases f with
  | goaway last code =>
    have := setMax_view c h i last (.conn code)
    simp only [handleFrame, viewStep, view] at this ⊢
    refine ⟨this.1, this.2.1, this.2.2, rfl⟩
  | other =>
    simp [handleFrame, viewStep, frameSid, opsFor, view, h]
  | headers id fields es =>
    rw [key id _ rfl (by intros; simp) (by simp)]
    refine ⟨?_, ?_, TOK_tPut _ _ _ h, rfl⟩
    · simp only [view, viewStep, frameSid, tGet_tPut]
      by_cases hid : id = i
      · subst hid; simp
      · simp [hid]
    · simp only [viewStep, frameSid, view]
      by_cases hid : id = i
      · subst hid; simp [opsFor_tag_same]
      · simp [hid, opsFor_tag_ne i id hid]
  | data id payload es =>
    rw [key id _ rfl (by intros; simp) (by simp)]
    refine ⟨?_, ?_, TOK_tPut _ _ _ h, rfl⟩
    · simp only [view, viewStep, frameSid, tGet_tPut]
      by_cases hid : id = i
      · subst hid; simp
      · simp [hid]
    · simp only [viewStep, frameSid, view]
      by_cases hid : id = i
      · subst hid; simp [opsFor_tag_same]
      · simp [hid, opsFor_tag_ne i id hid]
  | rst id code =>
    rw [key id _ rfl (by intros; simp) (by simp)]
    refine ⟨?_, ?_, TOK_tPut _ _ _ h, rfl⟩
    · simp only [view, viewStep, frameSid, tGet_tPut]
      by_cases hid : id = i
      · subst hid; simp
      · simp [hid]
    · simp only [viewStep, frameSid, view]
      by_cases hid : id = i
      · subst hid; simp [opsFor_tag_same]
      · simp [hid, opsFor_tag_ne i id hid]

theorem TOK_runL2 : ∀ (l : List (Bool × Frame)) (c : L2), TOK c.streams → TOK (runL2 c l).1.streams
  | [], _, h => h
  | df :: l, c, h => by
    simp only [runL2]
    exact TOK_runL2 l _ (handleFrame_view c h 0 df.1 df.2).2.2.1

/-- the whole connection, observed at stream `i`, is the one-stream machine -/
theorem runL2_view (i : Nat) : ∀ (l : List (Bool × Frame)) (c : L2), TOK c.streams →
    view i (runL2 c l).1 = (runView i (view i c) l).1 ∧ opsFor i (runL2 c l).2 = (runView i (view i c) l).2
  | [], _, _ => ⟨rfl, rfl⟩
  | df :: l, c, h => by
    have hs := handleFrame_view c h i df.1 df.2
    have ih := runL2_view i l (handleFrame c df.1 df.2).1 hs.2.2.1
    simp only [runL2, runView, opsFor_append]
    rw [ih.1, ih.2, hs.1, hs.2.1]
    exact ⟨rfl, rfl⟩

theorem viewStep_unconcerned (i : Nat) (v : View) (isReq : Bool) (f : Frame) (h : concernsStream i f = false) :
    viewStep i v isReq f = (v, []) := by
  cases f <;> simp_all [concernsStream, viewStep, frameSid]

/-- frames of other streams are invisible to stream `i` -/
theorem runView_filter (i : Nat) : ∀ (l : List (Bool × Frame)) (v : View),
    runView i v l = runView i v (l.filter (fun df => concernsStream i df.2))
  | [], _ => rfl
  | df :: l, v => by
    by_cases hc : concernsStream i df.2 = true
    · simp only [List.filter, hc, runView]
      rw [runView_filter i l]
    · have hc' : concernsStream i df.2 = false := by simpa using hc
      simp only [List.filter, hc', runView, viewStep_unconcerned i v df.1 df.2 hc', List.nil_append]
      exact runView_filter i l v

end ConfModel.H2
