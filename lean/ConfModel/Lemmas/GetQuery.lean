/-
`url.QueryUnescape` undoes `url.QueryEscape` on every byte string; what `QueryEscape` writes
contains no byte a query-string parser gives a meaning to, except the `+` / `%XX` it wrote itself.
-/
import ConfModel.Model.GetQuery
import ConfModel.Lemmas.Convert
import ConfModel.Lemmas.Base64
namespace ConfModel.GetQuery
open ConfModel.Convert

set_option maxRecDepth 100000 in
theorem plain_byte (b : UInt8) : queryPlain b = true →
    (b == 0x25) = false ∧ (b == 0x2B) = false ∧ (b == 0x20) = false ∧ querySensitive b = false := by
  revert b
  apply byte_cases
  decide

set_option maxRecDepth 100000 in
theorem escaped_bytes (b : UInt8) :
    queryPlain (upperHex (b.toNat / 16)) = true ∧ queryPlain (upperHex (b.toNat % 16)) = true := by
  revert b
  apply byte_cases
  decide

theorem queryUnescape_queryEscape (s : Bytes) : queryUnescape (queryEscape s) = some s := by
  induction s with
  | nil => rfl
  | cons b t ih =>
    unfold queryEscape queryEscapeByte
    by_cases hs : (b == 0x20) = true
    · have hb : b = 0x20 := by simpa using hs
      subst hb
      simp only [BEq.rfl, ↓reduceIte, List.cons_append, List.nil_append]
      unfold queryUnescape
      simp [ih]
    · simp only [hs, Bool.false_eq_true, ↓reduceIte]
      by_cases hp : queryPlain b = true
      · obtain ⟨h1, h2, _, _⟩ := plain_byte b hp
        simp only [hp, ↓reduceIte, List.cons_append, List.nil_append]
        unfold queryUnescape
        simp [h1, h2, ih]
      · obtain ⟨h1, h2, h3⟩ := unhex_upper b
        simp only [hp, Bool.false_eq_true, ↓reduceIte, List.cons_append, List.nil_append]
        unfold queryUnescape
        simp [h1, h2, h3, ih]

/-- every byte `QueryEscape` writes is unreserved, or the `+` / `%` of its own escapes -/
theorem queryEscape_bytes (s : Bytes) :
    ∀ c ∈ queryEscape s, queryPlain c = true ∨ c = 0x2B ∨ c = 0x25 := by
  induction s with
  | nil => intro c hc; simp [queryEscape] at hc
  | cons b t ih =>
    intro c hc
    unfold queryEscape queryEscapeByte at hc
    rw [List.mem_append] at hc
    rcases hc with hc | hc
    · by_cases hs : (b == 0x20) = true
      · simp only [hs, ↓reduceIte, List.mem_cons, List.not_mem_nil, or_false] at hc
        exact Or.inr (Or.inl hc)
      · simp only [hs, Bool.false_eq_true, ↓reduceIte] at hc
        by_cases hp : queryPlain b = true
        · simp only [hp, ↓reduceIte, List.mem_cons, List.not_mem_nil, or_false] at hc
          exact Or.inl (hc ▸ hp)
        · simp only [hp, Bool.false_eq_true, ↓reduceIte, List.mem_cons, List.not_mem_nil, or_false] at hc
          obtain ⟨e1, e2⟩ := escaped_bytes b
          rcases hc with rfl | rfl | rfl
          · exact Or.inr (Or.inr rfl)
          · exact Or.inl e1
          · exact Or.inl e2
    · exact ih c hc

/-- a string of unreserved bytes is written as it is -/
theorem queryEscape_plain (s : Bytes) (h : ∀ c ∈ s, queryPlain c = true) : queryEscape s = s := by
  induction s with
  | nil => rfl
  | cons b t ih =>
    have hb := h b (by simp)
    obtain ⟨_, _, h3, _⟩ := plain_byte b hb
    unfold queryEscape queryEscapeByte
    simp [h3, hb, ih (fun c hc => h c (by simp [hc]))]

theorem encCharURL_plain : ∀ n : Fin 64, queryPlain (Base64.encCharURL n.val) = true := by decide

theorem encodeURLRaw_plain (x : Bytes) : ∀ c ∈ Base64.encodeURLRaw x, queryPlain c = true := by
  intro c hc
  simp only [Base64.encodeURLRaw, List.mem_map] at hc
  obtain ⟨s, hs, rfl⟩ := hc
  exact encCharURL_plain ⟨s, Base64.sextets_lt _ (Base64.toNat_lt x) s hs⟩

theorem queryEscape_append (a b : Bytes) : queryEscape (a ++ b) = queryEscape a ++ queryEscape b := by
  induction a with
  | nil => rfl
  | cons c t ih => simp only [List.cons_append, queryEscape, ih, List.append_assoc]

end ConfModel.GetQuery
