package main

import (
	"encoding/json"
	"sort"
	"strings"

	cc "connectrpc.com/conformance/internal/app/connectconformance"
	"connectrpc.com/conformance/internal/verifharness/gen"
)

// C08, op "marked": the known-failing / known-flaky PATTERNS at work in testResults.
//
// "A case … is known-failing or known-flaky iff it matches such a pattern" is observable where the
// user sees it: report() prints `INFO: … failed (as expected)` for a failed case that is marked and
// `FAILED: …` for one that is not (and for a known-failing one that passed).  The flags are looked
// up in the tries whenever an outcome is stored — from setOutcome, assert, failed, failedToStart,
// failRemaining, and when peer feedback arrives for a name without an outcome — and they have to
// survive whatever happens to the outcome afterwards (overwritten by a later call, peer feedback
// merged into it when the report is produced).
//
// in   = {failing, flaky (pattern lists), ops}; ops[i] = "<kind> <name>[,<name>…]" with kind
//        pass | assert | clienterr | neither | setup | cnr | start | remaining | sideband
//        (see VerifC08Op); any number of calls, any order, names repeated
// impl = report()'s verdict and the names on its FAILED / INFO lines

type c08MarkedIn struct {
	Failing []string `json:"failing"`
	Flaky   []string `json:"flaky"`
	Ops     []string `json:"ops"`
}

type c08MarkedOut struct {
	OK          bool     `json:"ok"`
	FailedNames []string `json:"failedNames"`
	InfoNames   []string `json:"infoNames"`
	Unparsed    []string `json:"unparsed"`
	Invalid     bool     `json:"invalid,omitempty"`
}

var c08MarkedKinds = []string{"pass", "assert", "clienterr", "neither", "setup", "cnr", "start", "remaining", "sideband"}

func init() {
	gen.RegisterOp("c08", "marked", func(_ *gen.Ctx, raw json.RawMessage) any {
		return c08Marked(gen.Into[c08MarkedIn](raw))
	})
}

func c08Marked(in c08MarkedIn) c08MarkedOut {
	out := c08MarkedOut{FailedNames: []string{}, InfoNames: []string{}, Unparsed: []string{}}
	ops := make([]cc.VerifC08Op, 0, len(in.Ops))
	names := map[string]bool{}
	for _, code := range in.Ops {
		kind, rest, ok := strings.Cut(code, " ")
		known := false
		for _, k := range c08MarkedKinds {
			known = known || k == kind
		}
		if !ok || !known || rest == "" {
			// inputs mutated by the shrinker / the neighbourhood search may be malformed
			out.Invalid = true
			return out
		}
		ns := strings.Split(rest, ",")
		for _, n := range ns {
			if n == "" || strings.ContainsAny(n, " \t\n") {
				out.Invalid = true
				return out
			}
			names[n] = true
		}
		ops = append(ops, cc.VerifC08Op{K: kind, Ns: ns})
	}
	ok, msgs := cc.VerifC08Marked(in.Failing, in.Flaky, len(names), ops)
	out.OK = ok
	for _, m := range msgs {
		switch {
		case m == "\n":
		case c04ReFailed.MatchString(m):
			out.FailedNames = append(out.FailedNames, c04ReFailed.FindStringSubmatch(m)[1])
		case c04ReFailedUP.MatchString(m):
			out.FailedNames = append(out.FailedNames, c04ReFailedUP.FindStringSubmatch(m)[1])
		case c04ReInfo.MatchString(m):
			out.InfoNames = append(out.InfoNames, c04ReInfo.FindStringSubmatch(m)[1])
		case c04ReTotal.MatchString(m), c04ReNotRun.MatchString(m), c04ReExpected.MatchString(m):
		default:
			out.Unparsed = append(out.Unparsed, m)
		}
	}
	sort.Strings(out.FailedNames)
	sort.Strings(out.InfoNames)
	return out
}

func c08MarkedGen(c *gen.Ctx) {
	r := c.R.Fork()
	// (a) one name, every sequence of up to 3 calls about it, under every way of (not) marking it
	name := "a/b"
	marks := [][2][]string{
		{{}, {}},
		{{"a/b"}, {}},
		{{}, {"a/*"}},
		{{}, {"**"}},
		{{"**/b"}, {}},
		{{"a/c", "a"}, {"b/**", "a/b/*"}}, // patterns given, none matches
		{{}, {"a/**/b"}},
		{{"*/*"}, {"a/c"}},
	}
	var seqs [][]string
	var rec func(cur []string)
	rec = func(cur []string) {
		if len(cur) > 0 {
			seqs = append(seqs, append([]string{}, cur...))
		}
		if len(cur) == 3 {
			return
		}
		for _, k := range c08MarkedKinds {
			rec(append(cur, k+" "+name))
		}
	}
	rec(nil)
	for _, m := range marks {
		for _, s := range seqs {
			c.Do("marked", c08MarkedIn{Failing: m[0], Flaky: m[1], Ops: s})
		}
	}
	c.E.Add("marked-exhaustive", len(marks)*len(seqs))
	// (b) random: several names, patterns generalised from them, longer call sequences
	nRand := 3000
	if c.Thorough() {
		nRand = 60000
	}
	comps := []string{"a", "b", "c", "t"}
	mkName := func() string {
		cs := make([]string, r.Range(1, 4))
		for i := range cs {
			cs[i] = gen.Pick(r, comps)
		}
		return strings.Join(cs, "/")
	}
	for i := 0; i < nRand; i++ {
		names := make([]string, r.Range(1, 5))
		for k := range names {
			names[k] = mkName()
		}
		patFrom := func() string {
			if r.Chance(1, 6) {
				return mkName() // a literal that may or may not be one of the names
			}
			cs := strings.Split(gen.Pick(r, names), "/")
			var out []string
			for k := 0; k < len(cs); k++ {
				switch r.Intn(6) {
				case 0:
					out = append(out, "*")
				case 1:
					out = append(out, "**")
					k += r.Intn(3)
				case 2:
					out = append(out, "**", cs[k])
				default:
					out = append(out, cs[k])
				}
			}
			return strings.Join(out, "/")
		}
		in := c08MarkedIn{Failing: []string{}, Flaky: []string{}, Ops: []string{}}
		for k := r.Intn(3); k > 0; k-- {
			in.Failing = append(in.Failing, patFrom())
		}
		for k := r.Intn(3); k > 0; k-- {
			in.Flaky = append(in.Flaky, patFrom())
		}
		for k := r.Range(1, 12); k > 0; k-- {
			kind := gen.Pick(r, c08MarkedKinds)
			if r.Chance(1, 4) {
				kind = "sideband"
			}
			ns := []string{gen.Pick(r, names)}
			if kind == "start" || kind == "remaining" {
				for j := r.Intn(3); j > 0; j-- {
					ns = append(ns, gen.Pick(r, names))
				}
			}
			in.Ops = append(in.Ops, kind+" "+strings.Join(ns, ","))
		}
		c.Do("marked", in)
	}
}
