//go:build verif

package referenceserver

import (
	"fmt"
	"net/http"
	"net/url"
	"sync"

	conformancev1 "connectrpc.com/conformance/internal/gen/proto/go/connectrpc/conformance/v1"
)

type verifC20Printer struct {
	mu    sync.Mutex
	lines []string
}

func (p *verifC20Printer) Printf(msg string, args ...any) {
	p.mu.Lock()
	p.lines = append(p.lines, fmt.Sprintf(msg, args...))
	p.mu.Unlock()
}

func (p *verifC20Printer) PrefixPrintf(prefix, msg string, args ...any) {
	p.Printf(prefix+": "+msg, args...)
}

// VerifC20CheckCompression runs checkCompression for the expected compression on a request
// that announces the encoding `name` (how: "connect-unary" Content-Encoding,
// "connect-stream" Connect-Content-Encoding, "grpc" Grpc-Encoding, "get" compression query
// parameter; hasName=false: nothing announced) and returns the number of complaints.
func VerifC20CheckCompression(expected int32, how, name string, hasName bool) int {
	p := &verifC20Printer{}
	req := &http.Request{Method: http.MethodPost, Header: http.Header{}, URL: &url.URL{Path: "/x"}}
	var hdr string
	switch how {
	case "connect-unary":
		req.Header.Set("Content-Type", "application/proto")
		hdr = "Content-Encoding"
	case "connect-stream":
		req.Header.Set("Content-Type", "application/connect+proto")
		hdr = "Connect-Content-Encoding"
	case "grpc":
		req.Header.Set("Content-Type", "application/grpc+proto")
		hdr = "Grpc-Encoding"
	case "get":
		req.Method = http.MethodGet
		if hasName {
			req.URL.RawQuery = url.Values{"compression": []string{name}}.Encode()
		}
	}
	if hdr != "" && hasName {
		req.Header.Set(hdr, name)
	}
	checkCompression(conformancev1.Compression(expected), req, &feedbackPrinter{p: p, testCaseName: "t"})
	return len(p.lines)
}
