//go:build verif

package tracer

import (
	"net/http"
	"strconv"
	"sync"
	"time"

	"golang.org/x/net/http2"
)

// VerifC15Consts exposes the constants the C15 model mirrors.
func VerifC15Consts() (preface string, headerLen int, retryWaitMs, traceTimeoutMs int64) {
	return clientPreface, frameHeaderLen, retryWait.Milliseconds(), TraceTimeout.Milliseconds()
}

// VerifC15RetryWait is retryWait.
func VerifC15RetryWait() time.Duration { return retryWait }

type verifC15Sink struct {
	mu  sync.Mutex
	got []Trace
}

func (s *verifC15Sink) Complete(t Trace) {
	s.mu.Lock()
	s.got = append(s.got, t)
	s.mu.Unlock()
}

// VerifC15Retry drives an http2RetryCollector with a sequence of operations and returns, per
// test name, the ids of the traces delivered downstream, in order.  Operations:
// {"c", name, kind, id} Complete (kind: ok | refused | cancel | goaway0 | goaway2 | io),
// {"n", name} newAttempt, {"t", name} timesUp, {"x"} cancel.
func VerifC15Retry(ops [][]string) map[string][]int {
	sink := &verifC15Sink{}
	rc := &http2RetryCollector{collector: sink}
	for _, op := range ops {
		switch op[0] {
		case "c":
			id, _ := strconv.Atoi(op[3])
			var err error
			switch op[2] {
			case "refused":
				err = http2.StreamError{StreamID: uint32(id), Code: http2.ErrCodeRefusedStream}
			case "cancel":
				err = http2.StreamError{StreamID: uint32(id), Code: http2.ErrCodeCancel}
			case "goaway0":
				err = http2.ConnectionError(http2.ErrCodeNo)
			case "goaway2":
				err = http2.ConnectionError(http2.ErrCodeInternal)
			case "io":
				err = http.ErrHandlerTimeout
			}
			rc.Complete(Trace{TestName: op[1], Err: err, Request: &http.Request{Method: op[3]}})
		case "n":
			rc.newAttempt(op[1])
		case "t":
			rc.timesUp(op[1])
		case "x":
			rc.cancel()
		}
	}
	sink.mu.Lock()
	out := map[string][]int{}
	for _, t := range sink.got {
		id, _ := strconv.Atoi(t.Request.Method)
		out[t.TestName] = append(out[t.TestName], id)
	}
	sink.mu.Unlock()
	rc.cancel() // release the timers of whatever is still waiting (after the observation)
	return out
}
