//go:build verif

package connectconformance

import (
	"context"
	"encoding/binary"
	"encoding/hex"
	"errors"
	"io"
	"regexp"
	"strings"
	"sync"
	"time"

	conformancev1 "connectrpc.com/conformance/internal/gen/proto/go/connectrpc/conformance/v1"
)

// C10, op "rawout": the real runClient / clientProcessRunner on an in-process client whose output
// stream contains, where the runner expects the next length prefix, ARBITRARY BYTES: what a client
// prints by accident (a UTF-8 byte-order mark, non-ASCII or UTF-16 text, a check mark), binary
// values around the limits of 32-bit arithmetic (0x7fffffff, 0x80000000, 0xffffffff), a correct
// prefix with an undecodable or a short body.  The client has read all N requests and answered the
// first Pos of them properly; after the raw bytes it ends (exit 0 / 1) or goes on answering the
// remaining requests (more) until it is aborted.
//
// The op runs in a child process of the harness (see c11child.go): the runner's reader goroutine
// cannot be guarded by a recover(), and the death of the whole runner must be an observation.
type VerifC10RawSpec struct {
	N    int    `json:"n"`
	Pos  int    `json:"pos"`
	Hex  string `json:"hex"`  // the raw bytes
	Then string `json:"then"` // exit0 | exit1 | more
}

type VerifC10RawObs struct {
	Valid bool     `json:"valid"`
	Rets  []string `json:"rets"`
	// Cbs per request: m >= 0 own response, -2 foreign response, -1 / -3 error with isRunning() false / true
	Cbs [][]int `json:"cbs"`
	// ErrClass: what the error callbacks carried: toolarge:<size> (the size the reader computed from
	// the prefix) | eof (the stream ended inside a message) | decode (the body is no message) | other:<text>
	// | "" (no error callback)
	ErrClass  string `json:"errClass"`
	Hang      string `json:"hang"` // "" | senders | reader | waitForResponses
	RunAtDone bool   `json:"runAtDone"`
	Wait      string `json:"wait"` // nil | closed | proc | fail
	Running   bool   `json:"running"`
	Late      string `json:"late"`
	LateCbs   int    `json:"lateCbs"`
	CbsCall   [][]int `json:"cbsCall"` // what each callback saw when it was called (Cbs: what it holds at the end)
	Shared    bool    `json:"shared,omitempty"`
}

var verifC10TooLargeRE = regexp.MustCompile(`message size of (-?\d+) bytes, but should not exceed`)

func verifC10ErrClass(err error) string {
	if err == nil {
		return ""
	}
	txt := err.Error()
	if m := verifC10TooLargeRE.FindStringSubmatch(txt); m != nil {
		return "toolarge:" + m[1]
	}
	switch {
	case errors.Is(err, io.ErrUnexpectedEOF), strings.Contains(txt, "unexpected EOF"):
		return "eof"
	case strings.Contains(txt, "proto:"), strings.Contains(txt, "unmarshal"), strings.Contains(txt, "cannot parse"):
		return "decode"
	case errors.Is(err, errNoOutcome):
		return "nooutcome"
	case strings.Contains(txt, "unrecognized test case name"):
		return "unknown"
	case strings.Contains(txt, "duplicate response"):
		return "dup"
	}
	if len(txt) > 80 {
		txt = txt[:80]
	}
	return "other:" + txt
}

func VerifC10RawOut(spec VerifC10RawSpec) VerifC10RawObs {
	obs := VerifC10RawObs{Rets: []string{}, Cbs: [][]int{}}
	raw, herr := hex.DecodeString(spec.Hex)
	if herr != nil || len(raw) < 4 || len(raw) > 4096 || spec.N < 1 || spec.N > 8 || spec.Pos < 0 || spec.Pos > spec.N ||
		(spec.Then != "exit0" && spec.Then != "exit1" && spec.Then != "more") {
		return obs
	}
	obs.Valid = true
	n := spec.N
	obs.Rets = make([]string, n)
	obs.Cbs = make([][]int, n)
	for i := range obs.Rets {
		obs.Rets[i] = "unsent"
		obs.Cbs[i] = []int{}
	}
	client := func(ctx context.Context, _ []string, in io.ReadCloser, out, _ io.WriteCloser) error {
		write := func(b []byte) error {
			ch := make(chan error, 1)
			go func() { _, err := out.Write(b); ch <- err }()
			select {
			case err := <-ch:
				return err
			case <-ctx.Done():
				return errVerifC10Aborted
			}
		}
		for i := 0; i < n; i++ {
			var pre [4]byte
			if _, err := io.ReadFull(in, pre[:]); err != nil {
				return err
			}
			if _, err := io.ReadFull(in, make([]byte, binary.BigEndian.Uint32(pre[:]))); err != nil {
				return err
			}
		}
		for m := 0; m < spec.Pos; m++ {
			if err := write(VerifC10RespBytes(m)); err != nil {
				return err
			}
		}
		if err := write(raw); err != nil {
			return err
		}
		switch spec.Then {
		case "exit0":
			return nil
		case "exit1":
			return errVerifC10Exit
		}
		for m := spec.Pos; m < n; m++ {
			if err := write(VerifC10RespBytes(m)); err != nil {
				return err
			}
		}
		<-ctx.Done()
		return errVerifC10Aborted
	}
	ctx, cancel := context.WithCancel(context.Background())
	defer cancel()
	runner, err := runClient(ctx, runInProcess([]string{"verif-client"}, client))
	if err != nil {
		obs.Hang = "runClient: " + err.Error()
		return obs
	}
	cr := runner.(*clientProcessRunner) //nolint:forcetypeassert
	defer func() { go runner.stop() }()
	var mu sync.Mutex
	var kept []verifC10Kept
	var firstErr error
	sent := make(chan struct{})
	go func() {
		defer close(sent)
		for i := 0; i < n; i++ {
			i := i
			want := VerifC10Name(i)
			err := runner.sendRequest(&conformancev1.ClientCompatRequest{TestName: want}, func(name string, resp *conformancev1.ClientCompatResponse, err error) {
				v := -1
				if err != nil && runner.isRunning() {
					v = -3
				}
				if err == nil {
					v = verifC10RespCode(want, name, resp)
				}
				mu.Lock()
				obs.Cbs[i] = append(obs.Cbs[i], v)
				if err == nil {
					kept = append(kept, verifC10Kept{i: i, name: name, resp: resp, vCall: v})
				} else {
					kept = append(kept, verifC10Kept{i: i, name: name, vCall: v})
				}
				if err != nil && firstErr == nil {
					var fr *failedToGetResultError
					if errors.As(err, &fr) {
						firstErr = fr.err
					} else {
						firstErr = err
					}
				}
				mu.Unlock()
			})
			mu.Lock()
			obs.Rets[i] = verifC10SendClass(err)
			mu.Unlock()
		}
	}()
	snapshot := func(hang string) VerifC10RawObs {
		mu.Lock()
		defer mu.Unlock()
		out := obs
		out.Hang = hang
		out.ErrClass = verifC10ErrClass(firstErr)
		out.Rets = append([]string{}, obs.Rets...)
		if hang == "" {
			// everything has ended: what do the callbacks hold now?
			out.Cbs, out.CbsCall, out.Shared = verifC10Settle(len(obs.Cbs), kept, VerifC10Name)
			return out
		}
		out.Cbs = make([][]int, len(obs.Cbs))
		for i := range obs.Cbs {
			out.Cbs[i] = append([]int{}, obs.Cbs[i]...)
		}
		out.CbsCall = out.Cbs
		return out
	}
	dog := VerifNewDog(10)
	defer dog.Stop()
	select {
	case <-sent:
	case <-dog.C:
		return snapshot("senders")
	}
	runner.closeSend()
	select {
	case <-cr.done:
	case <-dog.C:
		return snapshot("reader")
	}
	obs.RunAtDone = runner.isRunning() && cr.err.Load() != nil
	waitCh := make(chan error, 1)
	go func() { waitCh <- runner.waitForResponses() }()
	select {
	case werr := <-waitCh:
		switch {
		case werr == nil:
			obs.Wait = "nil"
		case errors.Is(werr, errClosed):
			obs.Wait = "closed"
		case errors.Is(werr, errVerifC10Exit), errors.Is(werr, errVerifC10Aborted), errors.Is(werr, context.DeadlineExceeded):
			obs.Wait = "proc"
		default:
			obs.Wait = "fail"
		}
	case <-dog.C:
		return snapshot("waitForResponses")
	}
	for deadline := time.Now().Add(2 * time.Second); runner.isRunning() && time.Now().Before(deadline); {
		time.Sleep(200 * time.Microsecond)
	}
	obs.Running = runner.isRunning()
	lateCbs := 0
	lerr := runner.sendRequest(&conformancev1.ClientCompatRequest{TestName: "late"}, func(string, *conformancev1.ClientCompatResponse, error) {
		mu.Lock()
		lateCbs++
		mu.Unlock()
	})
	obs.Late = verifC10SendClass(lerr)
	time.Sleep(200 * time.Microsecond)
	mu.Lock()
	obs.LateCbs = lateCbs
	mu.Unlock()
	return snapshot("")
}
