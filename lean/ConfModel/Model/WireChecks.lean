/-
Model of the byte-level wire checks of the reference client
(`internal/app/referenceclient/wire_details.go`) and of the encoders of the reference server
they must accept (`internal/grpcutil/metadata.go` PercentEncodeMessage,
`internal/app/referenceserver/impl.go` grpcStatusTrailers / grpcWebStatusEndStream).

Everything is over bytes (`List UInt8`): Go indexes bytes.  Feedback is one constructor per
`printer.Printf` site.  Library functions are transcribed: `url.PathUnescape`
(`percentDecode`), `strconv.Atoi` (via `ServerTimeout.parseInt 64`), `strings.Split/SplitN/
Trim/TrimSuffix`, `textproto.CanonicalMIMEHeaderKey` (`canonKey`).  base64 and the
`google.rpc.Status` proto are *not* modelled: `checkGRPCStatus` takes the decoding of the
`grpc-status-details-bin` value as an oracle (`DetailsDec`).
-/
import ConfModel.Model.ServerTimeout
namespace ConfModel.WireChecks
open ConfModel.ServerTimeout (Bytes parseInt)

def bs (s : String) : Bytes := s.toUTF8.data.toList

/-! ### grpc-message percent-encoding -/

/-- `grpcutil.ShouldEscapeByteInMessage` -/
def shouldEscape (b : UInt8) : Bool := b.toNat < 0x20 || b.toNat > 0x7E || b.toNat == 0x25

/-- `"0123456789ABCDEF"[n]` -/
def upperHex (n : Nat) : UInt8 := if n < 10 then UInt8.ofNat (48 + n) else UInt8.ofNat (55 + n)

def encodeByte (c : UInt8) : Bytes :=
  if shouldEscape c then [37, upperHex (c.toNat / 16), upperHex (c.toNat % 16)] else [c]

/-- `grpcutil.PercentEncodeMessage` (the early return when nothing needs escaping included) -/
def percentEncode (m : Bytes) : Bytes :=
  if (m.filter shouldEscape).length == 0 then m else m.flatMap encodeByte

def isHex (b : UInt8) : Bool :=
  (97 ≤ b.toNat && b.toNat ≤ 102) || (65 ≤ b.toNat && b.toNat ≤ 70) || (48 ≤ b.toNat && b.toNat ≤ 57)

def unhexVal (b : UInt8) : Nat :=
  if 48 ≤ b.toNat && b.toNat ≤ 57 then b.toNat - 48
  else if 97 ≤ b.toNat && b.toNat ≤ 102 then b.toNat - 87
  else b.toNat - 55

/-- `url.PathUnescape`: `none` is the `EscapeError` -/
def percentDecode : Bytes → Option Bytes
  | [] => some []
  | c :: rest =>
    if c.toNat == 37 then
      match rest with
      | h1 :: h2 :: rest' =>
        if isHex h1 && isHex h2 then
          (percentDecode rest').map (UInt8.ofNat (unhexVal h1 * 16 + unhexVal h2) :: ·)
        else none
      | _ => none
    else (percentDecode rest).map (c :: ·)

inductive MsgFb
  | hexExpected   -- "should be hexadecimal digit"
  | unescaped     -- "should be percent-encoded"
  | incomplete    -- "incomplete percent-encoded character at the end"
  deriving DecidableEq, Repr

/-- the validation loop over the `grpc-message` value in `checkGRPCStatus` -/
def validateMessage : Bytes → Nat → List MsgFb
  | [], e => if e > 0 then [.incomplete] else []
  | c :: cs, e =>
    if e > 0 then
      if isHex c then validateMessage cs (e - 1) else [.hexExpected]
    else if c.toNat == 37 then validateMessage cs 2
    else if shouldEscape c then [.unescaped]
    else validateMessage cs 0

/-! ### HTTP field names and values -/

/-- RFC 7230 `tchar`: the byte set of `isValidHTTPFieldName` (and of textproto's token table) -/
def isTchar (b : UInt8) : Bool :=
  let n := b.toNat
  n == 33 || n == 35 || n == 36 || n == 37 || n == 38 || n == 39 || n == 42 || n == 43 ||
  n == 45 || n == 46 || n == 94 || n == 95 || n == 96 || n == 124 || n == 126 ||
  (48 ≤ n && n ≤ 57) || (97 ≤ n && n ≤ 122) || (65 ≤ n && n ≤ 90)

/-- byte set of `isValidHTTPFieldValue` -/
def isValueByte (b : UInt8) : Bool := b.toNat == 9 || !(b.toNat < 32 || b.toNat == 127)

/-- `isValidHTTPFieldName` (as repaired for F15: the empty string is not a token) -/
def validFieldName (s : Bytes) : Bool := !s.isEmpty && s.all isTchar

/-- `isValidHTTPFieldName` before the repair -/
def validFieldNameOld (s : Bytes) : Bool := s.all isTchar

def validFieldValue (s : Bytes) : Bool := s.all isValueByte

def isUpper (b : UInt8) : Bool := 65 ≤ b.toNat && b.toNat ≤ 90
def isLower (b : UInt8) : Bool := 97 ≤ b.toNat && b.toNat ≤ 122
def toLowerByte (b : UInt8) : UInt8 := if isUpper b then UInt8.ofNat (b.toNat + 32) else b
def toUpperByte (b : UInt8) : UInt8 := if isLower b then UInt8.ofNat (b.toNat - 32) else b

/-- `strings.ToLower` on ASCII -/
def lowerASCII (s : Bytes) : Bytes := s.map toLowerByte

def isASCII (s : Bytes) : Bool := s.all (fun b => b.toNat < 128)

def canonLoop : Bytes → Bool → Bytes
  | [], _ => []
  | c :: cs, upper =>
    let c' := if upper then toUpperByte c else toLowerByte c
    c' :: canonLoop cs (c'.toNat == 45)

/-- `textproto.CanonicalMIMEHeaderKey` -/
def canonKey (k : Bytes) : Bytes := if k.all isTchar then canonLoop k true else k

/-! ### string helpers -/

def isWS (b : UInt8) : Bool := b.toNat == 32 || b.toNat == 9

/-- `strings.Trim(s, " \t")` -/
def trimWS (s : Bytes) : Bytes := ((s.dropWhile isWS).reverse.dropWhile isWS).reverse

/-- `strings.Split(s, "\n")` -/
def splitLF : Bytes → List Bytes
  | [] => [[]]
  | c :: cs =>
    if c.toNat == 10 then [] :: splitLF cs
    else match splitLF cs with
      | l :: ls => (c :: l) :: ls
      | [] => [[c]]

/-- `strings.SplitN(s, ":", 2)`: the part before the first colon and, if there is one, the rest -/
def splitColon : Bytes → Bytes × Option Bytes
  | [] => ([], none)
  | c :: cs =>
    if c.toNat == 58 then ([], some cs)
    else let (k, v) := splitColon cs; (c :: k, v)

/-! ### the gRPC-Web trailer block -/

abbrev Hdrs := List (Bytes × List Bytes)

def hget : Hdrs → Bytes → List Bytes
  | [], _ => []
  | (k', vs) :: t, k => if k' == k then vs else hget t k

/-- `h[k] = vals` keeping the position of an existing key (keys are unique) -/
def hset : Hdrs → Bytes → List Bytes → Hdrs
  | [], k, vals => [(k, vals)]
  | (k', vs) :: t, k, vals => if k' == k then (k, vals) :: t else (k', vs) :: hset t k vals

def happend (h : Hdrs) (k : Bytes) (v : Bytes) : Hdrs := hset h k (hget h k ++ [v])

inductive EsFb
  | missingColon | invalidName | nonLowerKey | invalidValue
  | obsFold | extraBlankAtEnd | blankLines | lfOnly | noFinalCRLF
  deriving DecidableEq, Repr

structure EsState where
  trailers : Hdrs := []
  fb : List EsFb := []
  linesWithoutCR : Nat := 0
  blankLines : Nat := 0
  endsInCRLF : Bool := false
  blankLineAtEnd : Bool := false
  obsLineFolds : Nat := 0
  prevKey : Bytes := []
  /-- a non-ASCII key was compared with its `strings.ToLower` (Unicode case mapping and the
  replacement of invalid UTF-8 are not modelled; such keys are invalid names anyway) -/
  lowerUnknown : Bool := false
  deriving Repr

/-- the part of one loop iteration after the line-ending accounting: `line` is the trailer
line without its CR -/
def esLine (n : Nat) (st : EsState) (i : Nat) (line : Bytes) : EsState :=
  if line.isEmpty then
    { st with blankLines := st.blankLines + 1,
              blankLineAtEnd := st.blankLineAtEnd || (i + 2 == n) }
  else
  let (key, rest) := splitColon line
  if i > st.blankLines && (key.head?.map isWS).getD false then
    -- obsolete line folding
    let vals := hget st.trailers st.prevKey
    let tr := match vals.getLast? with
      | none => hset st.trailers (canonKey st.prevKey) [trimWS line]
      | some last => hset st.trailers st.prevKey (vals.dropLast ++ [last ++ [32] ++ trimWS line])
    { st with obsLineFolds := st.obsLineFolds + 1, trailers := tr }
  else
  let ck := canonKey key
  match rest with
  | none =>
    { st with fb := st.fb ++ [.missingColon], trailers := happend st.trailers ck [], prevKey := ck }
  | some rest =>
    let val := trimWS rest
    let fb := (if !validFieldName key then [EsFb.invalidName] else [])
      ++ (if isASCII key && key != lowerASCII key then [.nonLowerKey] else [])
      ++ (if !validFieldValue val then [.invalidValue] else [])
    { st with fb := st.fb ++ fb, trailers := happend st.trailers ck val, prevKey := ck,
              lowerUnknown := st.lowerUnknown || !isASCII key }

/-- one iteration of the loop of `examineGRPCEndStream` on line `i` of `n` -/
def esStep (n : Nat) (st : EsState) (i : Nat) (line : Bytes) : EsState :=
  let isLast := i + 1 == n
  if isLast && line.isEmpty then { st with endsInCRLF := true } else
  let hasCR := line.getLast? == some 13
  let st := if !isLast && !hasCR then { st with linesWithoutCR := st.linesWithoutCR + 1 } else st
  let line := if !isLast && hasCR then line.dropLast else line
  esLine n st i line

def esLoop (n : Nat) : EsState → Nat → List Bytes → EsState
  | st, _, [] => st
  | st, i, l :: ls => esLoop n (esStep n st i l) (i + 1) ls

def esFinish (st : EsState) : List EsFb :=
  st.fb
  ++ (if st.obsLineFolds > 0 then [.obsFold] else [])
  ++ (if st.blankLines > 0 then
        (if st.blankLines == 1 && st.blankLineAtEnd then [.extraBlankAtEnd] else [.blankLines]) else [])
  ++ (if st.linesWithoutCR > 0 then [.lfOnly] else [])
  ++ (if !st.endsInCRLF then [.noFinalCRLF] else [])

/-- `examineGRPCEndStream`: feedback, parsed trailers (canonical key ↦ values), and whether a
non-ASCII key made the lower-case comparison unmodelled -/
def examineGRPCEndStream (s : Bytes) : List EsFb × Hdrs × Bool :=
  let lines := splitLF s
  let st := esLoop lines.length {} 0 lines
  (esFinish st, st.trailers, st.lowerUnknown)

/-! ### `checkGRPCStatus` -/

inductive StFb
  | multiStatus | noStatus | badStatus | statusRange
  | multiMessage | msg (f : MsgFb) | msgWithOK
  | multiDetails | detailsBadBase64 | detailsPadded | detailsUnparseable
  | detailsCodeMismatch | detailsWithOK | detailsMsgMismatch
  deriving DecidableEq, Repr

/-- what base64 + `proto.Unmarshal(&status.Status)` make of a `grpc-status-details-bin` value:
not base64 at all, or base64 (padded or not) whose payload parses (`some (code, message,
details non-empty)`) or does not -/
inductive DetailsDec
  | invalid
  | decoded (padded : Bool) (st : Option (Int × Bytes × Bool))
  deriving DecidableEq, Repr

def wrap32 (x : Int) : Int := (x + 2147483648) % 4294967296 - 2147483648

def kStatus : Bytes := bs "Grpc-Status"
def kMessage : Bytes := bs "Grpc-Message"
def kDetails : Bytes := bs "Grpc-Status-Details-Bin"

/-- the `grpc-status` block: feedback and the parsed code -/
def statusPart (statusVals : List Bytes) : List StFb × Option Int :=
  if statusVals.length > 1 then ([.multiStatus], none)
  else match statusVals with
    | [] => ([.noStatus], none)
    | s :: _ =>
      match parseInt 64 s with
      | none => ([.badStatus], none)
      | some code => (if code < 0 || code > 16 then [.statusRange] else [], some code)

/-- the `grpc-message` block: feedback and the decoded message (`url.PathUnescape`) -/
def messagePart (statusCode : Option Int) (msgVals : List Bytes) : List StFb × Option Bytes :=
  let fb2 : List StFb := if msgVals.length > 1 then [.multiMessage] else []
  match msgVals with
  | [] => (fb2, none)
  | m :: _ =>
    (fb2 ++ (validateMessage m 0).map .msg
      ++ (if statusCode == some 0 && !m.isEmpty then [.msgWithOK] else []),
     percentDecode m)

/-- the `grpc-status-details-bin` block -/
def detailsPart (dec : Bytes → DetailsDec) (statusCode : Option Int) (msg : Option Bytes)
    (detVals : List Bytes) : List StFb :=
  (if detVals.length > 1 then [StFb.multiDetails] else []) ++
  match detVals with
  | [] => []
  | d :: _ =>
    match dec d with
    | .invalid => [.detailsBadBase64]
    | .decoded padded st =>
      (if padded then [StFb.detailsPadded] else []) ++
      match st with
      | none => [.detailsUnparseable]
      | some (code, message, hasDetails) =>
        (match statusCode with
          | some sc => if code != wrap32 sc then [StFb.detailsCodeMismatch] else []
          | none => [])
        ++ (if code == 0 && hasDetails then [.detailsWithOK] else [])
        ++ (match msg with
          | some m => if message != m then [.detailsMsgMismatch] else []
          | none => [])

/-- `checkGRPCStatus` on the values of the three headers it reads -/
def checkStatusCore (dec : Bytes → DetailsDec) (statusVals msgVals detVals : List Bytes) : List StFb :=
  let sp := statusPart statusVals
  let mp := messagePart sp.2 msgVals
  sp.1 ++ mp.1 ++ detailsPart dec sp.2 mp.2 detVals

def checkGRPCStatus (dec : Bytes → DetailsDec) (h : Hdrs) : List StFb :=
  checkStatusCore dec (hget h kStatus) (hget h kMessage) (hget h kDetails)

/-! ### the reference server's encoders -/

/-- decimal rendering of a small natural number (`fmt.Sprintf("%d", code)`) -/
def decimal (n : Nat) : Bytes :=
  if n < 10 then [UInt8.ofNat (48 + n)]
  else if n < 100 then [UInt8.ofNat (48 + n / 10), UInt8.ofNat (48 + n % 10)]
  else bs (toString n)

/-- `grpcStatusTrailers`: `detailsBin` is the base64 of the serialized `Status` when the error
has details (`none` otherwise) -/
def grpcStatusTrailers (code : Nat) (msg : Bytes) (detailsBin : Option Bytes) : Hdrs :=
  [(bs "grpc-status", [decimal code]), (bs "grpc-message", [percentEncode msg])]
  ++ (match detailsBin with | some d => [(bs "grpc-status-details-bin", [d])] | none => [])

/-- the `Fprintf("%s: %s\r\n", strings.ToLower(name), val)` loop of `grpcWebStatusEndStream`
(names are ASCII here; the harness only sends ASCII names) -/
def renderTrailerBlock (trailers : Hdrs) : Bytes :=
  trailers.flatMap (fun (name, vals) => vals.flatMap (fun v => lowerASCII name ++ [58, 32] ++ v ++ [13, 10]))

/-- `grpcWebStatusEndStream` -/
def grpcWebStatusEndStream (code : Nat) (msg : Bytes) (detailsBin : Option Bytes) (trailers : Hdrs) : Bytes :=
  renderTrailerBlock (grpcStatusTrailers code msg detailsBin ++ trailers)

/-! ### `examineWireDetails`: HTTP trailers outside the gRPC protocol -/

/-- the content type is that of the gRPC protocol (`application/grpc` or `application/grpc+…`;
in particular not `application/grpc-web…`) -/
def isGrpcContentType (ct : String) : Bool :=
  ct == "application/grpc" || ("application/grpc+".toList.isPrefixOf ct.toList)

/-- the final check of `examineWireDetails`: "response included %d HTTP trailers but should not
have any" -/
def httpTrailersFeedback (ct : String) (trailerKeys : Nat) : Bool :=
  !isGrpcContentType ct && trailerKeys > 0

/-! ### which header set `examineWireDetails` hands to `checkGRPCStatus` (gRPC, gRPC-Web without
an end-stream message in the body) -/

/-- `isTrailersOnlyResponse` (a response was received): no error in the trace, NO TRAILER KEY HAS
A VALUE (net/http pre-seeds `Response.Trailer` with a nil-valued key for every name announced in a
`Trailer:` header), no message in the body -/
def isTrailersOnly (traceErr bodyData : Bool) (tr : Hdrs) : Bool :=
  !traceErr && tr.all (fun kv => kv.2.isEmpty) && !bodyData

/-- counter-model: any key in `Response.Trailer` counts as a trailer -/
def isTrailersOnlyByKeys (traceErr bodyData : Bool) (tr : Hdrs) : Bool :=
  !traceErr && tr.isEmpty && !bodyData

inductive StatusSource where | headers | trailers | none
  deriving Repr, DecidableEq

/-- the `switch` of `examineWireDetails` for the gRPC content types, no end-stream message found -/
def statusSource (ct : String) (traceErr bodyData : Bool) (tr : Hdrs) : StatusSource :=
  if "application/grpc-web".toList.isPrefixOf ct.toList then
    (if isTrailersOnly traceErr bodyData tr then .headers else .none)
  else if "application/grpc".toList.isPrefixOf ct.toList then
    (if isTrailersOnly traceErr bodyData tr then .headers else if tr.length > 0 then .trailers else .none)
  else .none

/-- trailer names announced in a `Trailer:` header and never sent -/
def announcedOnly (names : List Bytes) : Hdrs := names.map (fun n => (n, []))

end ConfModel.WireChecks
