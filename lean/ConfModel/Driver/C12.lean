import ConfModel.Driver.Common
import ConfModel.Model.ServerTimeout
import ConfModel.Model.ServerChecks
import ConfModel.Spec.ServerChecks
import ConfModel.Model.FeedbackLine
namespace ConfModel.Driver.C12
open Lean ConfModel.Driver ConfModel.ServerChecks ConfModel.ServerChecksSpec
open ConfModel.ServerTimeout (Bytes Proto)

def pairs (j : Json) : Hdrs :=
  (arr j).map (fun p => match strList p with | [k, v] => (k, v) | _ => ("", ""))

def reqOf (j : Json) : Req :=
  { major := nat (field j "major")
    method := str (field j "method")
    headers := pairs (field j "headers")
    query := pairs (field j "query")
    tls := match nat (field j "tls") with
      | 0 => none
      | 1 => some none
      | _ => some (some (str (field j "cn")))
    trailers := nat (field j "trailers")
    bodyEmpty := bool (field j "bodyEmpty") }

def reqJson (r : Req) : Json :=
  Json.mkObj [("major", r.major), ("method", r.method),
    ("headers", toJson (r.headers.map fun kv => [kv.1, kv.2])),
    ("query", toJson (r.query.map fun kv => [kv.1, kv.2])),
    ("tls", toJson (reprStr r.tls)), ("trailers", r.trailers), ("bodyEmpty", r.bodyEmpty)]

/-- stable insertion sort on the key (Go side: keys sorted, values in order) -/
def insertKV (x : String × String) : Hdrs → Hdrs
  | [] => [x]
  | y :: ys => if x.1 < y.1 then x :: y :: ys else y :: insertKV x ys

def sortKV (h : Hdrs) : Hdrs := h.foldl (fun acc x => insertKV x acc) []

def optIntStr (j : Json) : Option Int := if isNull j then none else (str j).toInt?

def fbOfClass (s : String) : Fb :=
  let simple : List Fb := [.repeated, .badExpectedVersion, .version, .protocolUnknown, .protocol, .te,
    .badExpectedCodec, .getContentType, .getBody, .encodingMissing, .codec, .badExpectedCompression,
    .compression, .tlsExpected, .plainExpected, .clientCert, .method, .trailers, .timeoutEmpty,
    .timeoutUnit, .timeoutNumeric, .timeoutDigits]
  match simple.find? (fun f => f.toString == s) with
  | some f => f
  | none =>
    if s.startsWith "dup:" then .dup (s.drop 4).toString
    else if s.startsWith "dupq:" then .dupQuery (s.drop 5).toString
    else if s.startsWith "badvalue:" then .badValue (s.drop 9).toString
    else if s.startsWith "range:" then .outOfRange (s.drop 6).toString
    else .other s

def aspects (j : Json) : Option Aspects :=
  match natList j with
  | [v, m, p, c, z, t, k] =>
    some { version := match v with | 0 => .h1 | 1 => .h2 | _ => .h3
           method := match m with | 0 => .post | _ => .get
           protocol := match p with | 0 => .connect | 1 => .grpc | _ => .grpcWeb
           codec := match c with | 0 => .proto | _ => .json
           compression := match z with
             | 0 => .identity | 1 => .gzip | 2 => .br | 3 => .zstd | 4 => .deflate | _ => .snappy
           tls := t != 0, cert := k != 0 }
  | _ => none

def variant (j : Json) : Variant :=
  match natList j with
  | [s, i, b] => { stream := s != 0, explicitIdentity := i != 0, bareGrpc := b != 0 }
  | _ => { stream := false, explicitIdentity := false, bareGrpc := false }

/-- one line of the server's stderr as written, what the real `runTestCasesForServer` made of it
(`record` | `forward` | `skip` | `hang`) and the test case it recorded it for -/
structure ErrLine where
  raw : String
  kind : String
  to : String

def errLines (j : Json) : List ErrLine :=
  (arr j).map fun l => match strList l with | [r, k, t] => ⟨r, k, t⟩ | _ => ⟨"", "hang", ""⟩

/-- the decoy test case the harness adds to every batch (c12Decoy) -/
def decoy : String := "C12/another case of the batch"

def batchOf (names : List String) : List (List Char) :=
  ((asSet (names.filter (· != ""))) ++ [decoy]).map String.toList

/-- the model of the runner's reader agrees with the real runner on this line -/
def lineAgrees (batch : List (List Char)) (l : ErrLine) : Bool :=
  match ServerRunner.lineAct batch (l.raw.toList ++ ['\n']) with
  | .skip => l.kind == "skip"
  | .record a _ => l.kind == "record" && l.to.toList == a
  | .forward _ => l.kind == "forward"

/-- "feedback naming the test case": every line the request made the server write is recorded by
the runner for that test case - by the real runner, and by the property's own reading
(`FeedbackLine.attributedTo`) of the bytes -/
def linesNamed (batch : List (List Char)) (name : String) (ls : List ErrLine) : Bool :=
  ls.all fun l => l.kind == "record" && l.to == name &&
    FeedbackLine.attributedTo batch name.toList (l.raw.toList ++ ['\n'])

structure Obs where
  lines : List ErrLine := []
  called : Bool
  fb : List String
  named : Bool
  ms : Option Int
  seen : Hdrs
  status : Nat
  error : Bool

def obsOf (j : Json) : Obs :=
  { called := bool (field j "called"), fb := strList (field j "fb"), named := bool (field j "named"),
    ms := optIntStr (field j "ms"), seen := pairs (field j "seen"), status := nat (field j "status"),
    error := bool (field j "error"), lines := errLines (field j "lines") }

def outcomeJson (o : Outcome) : Json :=
  Json.mkObj [("rejected", o.rejected), ("fb", toJson (o.feedback.map Fb.toString)),
    ("ms", match o.timeout with | some d => toJson (toString (ServerTimeout.timeoutMs d)) | none => Json.null),
    ("seen", toJson ((sortKV o.seen).map fun kv => [kv.1, kv.2]))]

def agreeObs (o : Outcome) (i : Obs) : Bool :=
  i.called == !o.rejected && i.fb == o.feedback.map Fb.toString &&
  i.ms == o.timeout.map ServerTimeout.timeoutMs && (o.rejected || i.seen == sortKV o.seen)

/-- the protocol a literally well-formed `X-Expect-Protocol` value announces -/
def specProto (vals : List String) : Proto :=
  match vals with
  | ["1"] => .connect | ["2"] => .grpc | ["3"] => .grpcWeb | _ => .other

def timeoutHeaderOf : Proto → String
  | .connect => "Connect-Timeout-Ms"
  | _ => "Grpc-Timeout"

/-- the property's statements that apply to any request: feedback carries the test name; a
request without test name is rejected outright (and only such a request); a repeated test is
flagged; request trailers are flagged; a timeout header is accepted exactly when grammatical,
echoed as its millisecond floor and removed before the inner handler. -/
def generalHolds (batch : List (List Char)) (earlier : List String) (r : Req) (i : Obs) : Bool × String :=
  let name := testName r
  let fb := i.fb.map fbOfClass
  if !i.named then (false, "a message is not prefixed with the test case name") else
  if !linesNamed batch name i.lines then
    (false, s!"a line of the server's stderr is not attributed to test case {name.quote} by the runner: {(i.lines.map (·.raw))}") else
  if name == "" then
    (!i.called && i.fb.isEmpty && i.error, "a request without test name must be rejected outright")
  else if !i.called then (false, "request with a test name was not passed on") else
  if earlier.contains name && !fb.contains .repeated then (false, "repeated request for the same test not flagged") else
  if !earlier.contains name && fb.contains .repeated then (false, "first request for a test flagged as repeated") else
  if (r.trailers > 0) != fb.contains .trailers then (false, "request trailers flagged iff present fails") else
  let p := specProto (values r.headers "X-Expect-Protocol")
  if p == .other then (true, "") else
  let hdr := timeoutHeaderOf p
  match values r.headers hdr with
  | [] => (i.ms.isNone, "a timeout is echoed although no timeout header was sent")
  | v :: _ =>
    let exp := expectedTimeout p (bytesOf v)
    if i.ms != exp.map ServerTimeout.timeoutMs then
      (false, s!"timeout header {v.quote}: the grammar/value demands timeout_ms {exp.map ServerTimeout.timeoutMs}, echoed {i.ms}")
    else if !(values i.seen hdr).isEmpty then (false, "timeout header still visible to the server implementation")
    else (true, "")

def serveHolds (batch : List (List Char)) : List String → List Req → List Obs → Bool × String
  | earlier, r :: rs, i :: is =>
    let (ok, why) := generalHolds batch earlier r i
    if !ok then (false, why) else
    serveHolds batch (if i.called then testName r :: earlier else earlier) rs is
  | _, _, _ => (true, "")

/-! ### the real server (op `real`, c12real.go) -/

structure RealObs where
  fb : List String
  named : Bool
  ms : Option Int
  seenTO : Nat
  status : Nat
  proto : Nat
  ok : Bool
  err : String
  lines : List ErrLine

def realObsOf (j : Json) : RealObs :=
  { fb := strList (field j "fb"), named := bool (field j "named"), ms := optIntStr (field j "ms"),
    seenTO := nat (field j "seenTO"), status := nat (field j "status"), proto := nat (field j "proto"),
    ok := bool (field j "ok"), err := str (field j "err"), lines := errLines (field j "lines") }

/-- feedback that is not about one of the six aspects and is judged by `generalHolds` -/
def notAnAspect : Fb → Bool
  | .repeated | .trailers | .timeoutEmpty | .timeoutUnit | .timeoutNumeric | .timeoutDigits => true
  | _ => false

def asciiString (b : List UInt8) : String := String.ofList (b.map fun x => Char.ofNat x.toNat)

def timeoutHeaders (q : Req) : Nat :=
  (values q.headers "Connect-Timeout-Ms").length + (values q.headers "Grpc-Timeout").length

def agreeReal (batch : List (List Char)) (o : ChainOutcome) (i : RealObs) : Bool :=
  i.err == "" && i.lines.all (lineAgrees batch) && i.fb == o.outcome.feedback.map Fb.toString &&
  i.ms == o.outcome.timeout.map ServerTimeout.timeoutMs &&
  (match o.inner with
   | some q => i.ok && i.seenTO == timeoutHeaders q
   | none => !i.ok)

/-- what the client can tell about the server implementation, in the terms of `generalHolds`:
the inner handler ran iff the RPC succeeded; the timeout headers the implementation saw are the
ones it echoes in the request info -/
def obsOfReal (i : RealObs) : Obs :=
  { called := i.ok, fb := i.fb, named := i.named, ms := i.ms, lines := i.lines,
    seen := if i.seenTO > 0 then [("Connect-Timeout-Ms", "?"), ("Grpc-Timeout", "?")] else [],
    status := i.status, error := !i.ok }

def handle : Handler := fun op inp impl =>
  if !(isNull (field impl "panic")) then
    { agree := false, holds := false, why := "panic: " ++ str (field impl "panic") } else
  match op with
  | "timeout" =>
    let pn := int (field inp "proto")
    let p := protoOf pn
    let cv := (strList (field inp "connect")).map unhex
    let gv := (strList (field inp "grpc")).map unhex
    let m := ServerTimeout.extractTimeout p cv gv
    let hdr := timeoutHeaderOf p
    let mFb := m.feedback.map (fun f => (liftT hdr f).toString)
    let iOk := bool (field impl "ok")
    let iNs := (str (field impl "ns")).toInt?.getD 0
    let iMs := optIntStr (field impl "ms")
    let iFb := strList (field impl "fb")
    let cLeft := nat (field impl "connectLeft")
    let gLeft := nat (field impl "grpcLeft")
    let mCLeft := if p == .connect && m.removed then 0 else cv.length
    let mGLeft := if (p == .grpc || p == .grpcWeb) && m.removed then 0 else gv.length
    let agree := iOk == m.timeout.isSome && (if iOk then some iNs else none) == m.timeout && iFb == mFb &&
      cLeft == mCLeft && gLeft == mGLeft && iMs == m.timeout.map ServerTimeout.timeoutMs
    -- the property
    let vals := match p with | .connect => cv | .grpc | .grpcWeb => gv | .other => []
    let left := match p with | .connect => cLeft | _ => gLeft
    let (holds, why) : Bool × String :=
      if !bool (field impl "named") then (false, "feedback not prefixed with the test case name") else
      match vals with
      | [] => (!iOk, "a timeout was accepted without a header")
      | v :: _ =>
        let exp := expectedTimeout p v
        if iOk != exp.isSome then
          (false, s!"header value {hex v}: grammatical={exp.isSome} accepted={iOk}")
        else if iOk && some iNs != exp then (false, s!"duration {iNs} ns, exact value is {exp}")
        else if iOk && iMs != exp.map ServerTimeout.timeoutMs then (false, s!"echoed timeout_ms {iMs}")
        else if left != 0 then (false, "timeout header not removed")
        else (true, "")
    { agree := agree, holds := holds, nontrivial := !vals.isEmpty,
      model := Json.mkObj [("ok", m.timeout.isSome), ("ns", toJson (m.timeout.map toString)), ("fb", toJson mFb),
        ("connectLeft", mCLeft), ("grpcLeft", mGLeft)],
      why := why, cls := if iOk then "accepted" else if vals.isEmpty then "absent" else "rejected" }
  | "checks" =>
    let reqs := (arr (field inp "reqs")).map reqOf
    let obs := (arr impl).map obsOf
    let outs := serve [] reqs
    let batch := batchOf (reqs.map testName)
    let agree := outs.length == obs.length && (outs.zip obs).all (fun (o, i) => agreeObs o i && i.lines.all (lineAgrees batch))
    let (holds, why) := serveHolds batch [] reqs obs
    { agree := agree, holds := holds && obs.length == reqs.length,
      nontrivial := obs.any (fun i => !i.fb.isEmpty) || reqs.length > 1,
      model := toJson (outs.map outcomeJson), why := why }
  | "matrix" =>
    match aspects (field inp "e"), aspects (field inp "a") with
    | some e, some a =>
      let v := variant (field inp "v")
      let name := str (field inp "name")
      let r := render e name a v
      let o := checks 0 r
      match (arr impl).map obsOf with
      | [i] =>
        let fb := i.fb.map fbOfClass
        let (g, gwhy) := generalHolds (batchOf [name]) [] r i
        let exact := !a.realisable || flagsExactly e a fb
        { agree := agreeObs o i, holds := g && exact,
          nontrivial := a.realisable, model := outcomeJson o,
          why := if !g then gwhy else if !exact then
            s!"feedback {i.fb} does not name exactly the deviating aspects {reprStr (mismatches e a)}" else "",
          cls := if !a.realisable then "unrealisable" else if aspectsMatch e a then "match" else "deviating" }
      | _ => bad "matrix: expected one observation"
    | _, _ => bad "matrix: bad tuples"
  | "real" =>
    match aspects (field inp "e"), aspects (field inp "a") with
    | some e, some a =>
      let v := variant (field inp "v")
      let name := str (field inp "name")
      let proc := str (field inp "proc")
      let times := nat (field inp "times")
      let path := "/connectrpc.conformance.v1.ConformanceService/" ++ proc
      let r0 := render e name a v
      let toHdr := timeoutHeaderOf (protoOf (a.protocol.num : Nat))
      let timeout := field inp "timeout"
      let r : Req := { r0 with
        headers := (if name == "" then r0.headers.drop 1 else r0.headers) ++
          (if isNull timeout then [] else [(toHdr, asciiString (unhex (str timeout)))])
        trailers := nat (field inp "trailers") }
      let reqs := List.replicate times r
      let outs := serveChain path [] reqs
      let obs := (arr impl).map realObsOf
      let batch := batchOf [name]
      let agree := outs.length == obs.length && (outs.zip obs).all (fun (o, i) => agreeReal batch o i)
      let model := toJson (outs.map fun o => outcomeJson o.outcome)
      match obs.find? (fun i => i.err != "") with
      | some i => { agree := false, holds := false, model := model,
                    why := "the exchange with the real reference server failed: " ++ i.err }
      | none =>
      if obs.length != times then { agree := false, holds := false, model := model, why := "observations missing" } else
      if obs.any (fun i => i.proto != a.version.num) then
        bad s!"real: the exchange did not use HTTP/{a.version.num}" else
      let (g, gwhy) := serveHolds batch [] reqs (obs.map obsOfReal)
      let exact := obs.all fun i => flagsExactly e a ((i.fb.map fbOfClass).filter (fun f => !notAnAspect f))
      let dev := mismatches e a
      { agree := agree, holds := g && exact, nontrivial := true, model := model,
        why := if !g then s!"{proc} over HTTP/{a.version.num}: " ++ gwhy else if !exact then
          s!"{proc} over HTTP/{a.version.num}: feedback {obs.map (·.fb)} does not name exactly the deviating aspects {reprStr dev}" else "",
        cls := s!"{proc}/http{a.version.num}/" ++ (if name == "" then "no-name" else if !name.startsWith "Real/" then "odd-name" else if !isNull timeout then "timeout"
          else if times > 1 then "repeat" else if nat (field inp "trailers") > 0 then "trailers"
          else if dev.isEmpty then "match" else "deviating") }
    | _, _ => bad "real: bad tuples"
  | "render" =>
    match aspects (field inp "e"), aspects (field inp "a") with
    | some e, some a =>
      let r := render e (str (field inp "name")) a (variant (field inp "v"))
      let i := reqOf impl
      { agree := r == i, holds := true, nontrivial := true, model := reqJson r }
    | _, _ => bad "render: bad tuples"
  | _ => bad ("C12: unknown op " ++ op)

end ConfModel.Driver.C12
