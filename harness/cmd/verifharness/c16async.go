package main

// C16, op "wireasync": the reference client's per-call hand-off through the REAL
// newWireCaptureTransport -> tracer.TracingRoundTripper -> builder -> wireTracer -> setWireTrace
// -> examineWireDetails over a scripted in-process http.RoundTripper, where cancelling the
// call's context returns at once and the completion it causes comes asynchronously from the
// middleware's goroutine: every interleaving of {round trip, context done, body read to its
// end, body closed, the wait begins} for one call, with peeks and barriers ("a:k": the trace has
// been handed over) at every position; random interleavings for two calls.  What may be seen
// between a cancellation and its barrier is a SET (decided by the Lean side: every position at
// which the goroutine may fire).

import (
	"encoding/json"
	"fmt"
	"strings"

	rc "connectrpc.com/conformance/internal/app/referenceclient"
	"connectrpc.com/conformance/internal/verifharness/gen"
)

type c16AsyncIn struct {
	Ctx    []string `json:"ctx"`    // per call: ok | fail (the round trip fails) | bare (no withWireCapture)
	Tracer bool     `json:"tracer"` // a real *tracer.Tracer behind the wireTracer
	// per call: the SHAPE of the response (rc.VerifC16AShapes: data | empty | nobody | cl0 | 204 |
	// 304 | head | h2es); absent = data.  The model does not look at it: whatever the shape, the
	// trace is completed by the first of {body read to its end, body closed, cancellation}.
	Body []string `json:"body,omitempty"`
	Steps  []string `json:"steps"`
}

type c16AsyncOut struct {
	Obs      []string `json:"obs"`
	Fin      []string `json:"fin"`   // per call: the trace in its wire wrapper at the end
	Inner    []string `json:"inner"` // per call: the trace the Tracer behind the wireTracer holds
	SetAside bool     `json:"setAside,omitempty"`
}

func init() {
	gen.RegisterOp("c16", "wireasync", func(c *gen.Ctx, raw json.RawMessage) any {
		in := gen.Into[c16AsyncIn](raw)
		var out c16AsyncOut
		for attempt := 0; attempt < 3; attempt++ {
			v := rc.VerifC16NewAsyncShapes(in.Ctx, in.Body, in.Tracer)
			out = c16AsyncOut{Obs: make([]string, 0, len(in.Steps))}
			for _, st := range in.Steps {
				out.Obs = append(out.Obs, v.Do(st))
			}
			out.Fin, out.Inner = v.Finish()
			if !v.Slow || v.Stuck {
				return out
			}
			c.E.Count("wireasync:repeated-too-slow")
		}
		c.E.Count("wireasync:set-aside-too-slow")
		out.SetAside = true
		return out
	})
}

// c16AsyncCause: after the steps so far, is something that completes the trace of call k on its
// way (or done)?  Only decides where a barrier may be placed.
func c16AsyncCause(steps []string, ctx []string, k string) bool {
	rt, x, body := false, false, false
	for _, s := range steps {
		f := strings.Split(s, ":")
		if f[1] != k {
			continue
		}
		switch f[0] {
		case "rt":
			rt = true
		case "x":
			x = true
		case "r", "cl":
			if rt {
				body = true
			}
		}
	}
	var i int
	fmt.Sscan(k, &i)
	fail := i < len(ctx) && ctx[i] == "fail"
	return rt && (x || fail || (body && !fail))
}

// c16AsyncAnnotate places peeks, barriers and joins into an order of events:
// mode 0: nothing in between, at the end barrier + join;
// mode 1: a peek after every event while a wait is on, at the end barrier + join;
// mode 2: a barrier as soon as a cause exists, then a join; at the end join;
// mode 3: a peek, then the barrier, then a join right after the first cause.
func c16AsyncAnnotate(seq []string, ctx []string, mode int, grace bool) []string {
	var out []string
	waiting := map[string]bool{}
	barred := map[string]bool{}
	calls := []string{"0", "1", "2"}
	for _, st := range seq {
		out = append(out, st)
		f := strings.Split(st, ":")
		if f[0] == "w" {
			waiting[f[1]] = true
		}
		for _, k := range calls {
			cause := c16AsyncCause(out, ctx, k)
			switch mode {
			case 1:
				if waiting[k] {
					out = append(out, "p:"+k)
				}
			case 2, 3:
				if cause && !barred[k] {
					if mode == 3 && waiting[k] {
						out = append(out, "p:"+k)
					}
					out = append(out, "a:"+k)
					barred[k] = true
					if waiting[k] {
						out = append(out, "j:"+k)
					}
				}
			}
		}
	}
	for _, k := range calls {
		if !waiting[k] {
			continue
		}
		if c16AsyncCause(out, ctx, k) {
			if !barred[k] {
				out = append(out, "a:"+k)
			}
			out = append(out, "j:"+k)
		} else if grace {
			out = append(out, "g:"+k)
		} else {
			out = append(out, "p:"+k)
		}
	}
	return out
}

func c16AsyncGen(c *gen.Ctx) {
	r := c.R
	var ins []any
	seen := map[string]bool{}
	graceBudget := 5
	if c.Thorough() {
		graceBudget = 30
	}
	var shapes []string // of the script being emitted (nil: every call answers with data)
	emit := func(ctx []string, tr bool, seq []string, mode int, grace bool) {
		steps := c16AsyncAnnotate(seq, ctx, mode, grace)
		key := fmt.Sprint(ctx, shapes, steps)
		if seen[key] {
			return
		}
		for _, s := range steps {
			if strings.HasPrefix(s, "g:") {
				if graceBudget <= 0 {
					return
				}
				graceBudget--
				c.E.Count("wireasync:script-with-a-grace-period")
				break
			}
		}
		seen[key] = true
		for _, sh := range shapes {
			if sh != "" && sh != "data" {
				c.E.Count("wireasync:response-shape:" + sh)
			}
		}
		ins = append(ins, c16AsyncIn{Ctx: ctx, Tracer: tr, Steps: steps, Body: append([]string(nil), shapes...)})
	}
	// one call: EVERY order of every subset of {round trip, context done, body read to its end |
	// body closed, the wait begins}, for a transport that answers / fails / a context without
	// wrapper, under every placement mode of peeks and barriers
	n := 0
	for _, fl := range []string{"ok", "fail", "bare"} {
		for _, body := range []string{"r:0", "cl:0"} {
			c16Arrangements([]string{"rt:0", "x:0", body, "w:0"}, func(seq []string) {
				for mode := 0; mode < 4; mode++ {
					n++
					emit([]string{fl}, n%3 != 0, seq, mode, false)
				}
			})
		}
	}
	// the SHAPE of the response: a reader without data, http.NoBody (length 0 / Content-Length: 0 /
	// 204 / 304 / answer to a HEAD / END_STREAM on the HTTP/2 HEADERS) x EVERY order of every subset
	// of {round trip, context done, body read to its end | closed | neither, the wait begins} that
	// makes the round trip (quick: one placement mode per order, in rotation; thorough: all four)
	for _, sh := range rc.VerifC16AShapes[1:] {
		shapes = []string{sh}
		for _, body := range []string{"r:0", "cl:0"} {
			c16Arrangements([]string{"rt:0", "x:0", body, "w:0"}, func(seq []string) {
				has := false
				for _, s := range seq {
					has = has || s == "rt:0"
				}
				if !has {
					return
				}
				n++
				if c.Thorough() {
					for mode := 0; mode < 4; mode++ {
						emit([]string{"ok"}, (n+mode)%3 != 0, seq, mode, false)
					}
				} else {
					emit([]string{"ok"}, n%3 != 0, seq, n%4, false)
				}
			})
		}
		// the caller never touches the bodiless response: nothing completes, the grace period runs out
		if sh == "nobody" || c.Thorough() {
			emit([]string{"ok"}, true, []string{"rt:0", "w:0"}, 0, true)
		}
	}
	shapes = nil
	// both body events, in both orders, around a cancellation
	c16Arrangements([]string{"rt:0", "x:0", "r:0", "cl:0", "w:0"}, func(seq []string) {
		if len(seq) < 5 && !c.Thorough() {
			return
		}
		emit([]string{"ok"}, true, seq, r.Intn(4), false)
	})
	// nothing ever completes the trace: the grace period runs out (round trip made, body left open)
	emit([]string{"ok"}, true, []string{"rt:0", "w:0"}, 0, true)
	emit([]string{"ok"}, false, []string{"w:0", "rt:0"}, 1, true)
	emit([]string{"ok"}, true, []string{"x:0", "w:0"}, 0, true) // cancelled, but no round trip: no goroutine
	// two calls: the trace goes to the waiter of its own call
	two := []string{"rt:0", "x:0", "r:0", "w:0", "rt:1", "x:1", "cl:1", "w:1"}
	nRand := 150
	if c.Thorough() {
		nRand = 3000
	}
	for i := 0; i < nRand; i++ {
		perm := append([]string{}, two...)
		if r.Bool() {
			perm[2], perm[6] = "cl:0", "r:1"
		}
		for k := len(perm) - 1; k > 0; k-- {
			j := r.Intn(k + 1)
			perm[k], perm[j] = perm[j], perm[k]
		}
		seq := perm[:r.Range(3, len(perm))]
		ctx := []string{gen.Pick(r, []string{"ok", "ok", "ok", "fail", "bare"}), gen.Pick(r, []string{"ok", "ok", "fail"})}
		tr, mode, grace := r.Bool(), r.Intn(4), r.Chance(1, 40)
		shapes = nil
		if r.Bool() {
			shapes = []string{gen.Pick(r, rc.VerifC16AShapes), gen.Pick(r, rc.VerifC16AShapes)}
		}
		emit(ctx, tr, seq, mode, grace)
	}
	shapes = nil
	c.E.Add("wireasync:scripts", len(ins))
	c.DoParallel("wireasync", ins, 16)
}
