package main

import (
	"bytes"
	"context"
	"encoding/binary"
	"encoding/hex"
	"encoding/json"
	"fmt"
	"io"
	"os"
	"path/filepath"
	"regexp"
	"sort"
	"strings"
	"sync"
	"sync/atomic"

	cc "connectrpc.com/conformance/internal/app/connectconformance"
	"connectrpc.com/conformance/internal/app/referenceclient"
	conformancev1 "connectrpc.com/conformance/internal/gen/proto/go/connectrpc/conformance/v1"
	"connectrpc.com/conformance/internal/verifharness/gen"
	"google.golang.org/protobuf/encoding/protojson"
	"google.golang.org/protobuf/proto"
	"google.golang.org/protobuf/types/known/anypb"
)

func init() {
	areas["c02"] = runC02
	rawCommands["c02peer"] = c02Peer
	gen.RegisterOp("c02", "expected", func(_ *gen.Ctx, raw json.RawMessage) any {
		return c02Expected(gen.Into[c02TC](raw))
	})
	gen.RegisterOp("c02", "load", func(_ *gen.Ctx, raw json.RawMessage) any {
		return c02Load(gen.Into[c02LoadIn](raw))
	})
	gen.RegisterOp("c02", "e2e", func(c *gen.Ctx, raw json.RawMessage) any {
		return c02E2E(c, gen.Into[c02E2EIn](raw))
	})
	gen.RegisterOp("c02", "e2e-f07", func(c *gen.Ctx, raw json.RawMessage) any {
		return c02E2E(c, gen.Into[c02E2EIn](raw))
	})
	gen.RegisterOp("c02", "e2e-f27", func(c *gen.Ctx, raw json.RawMessage) any {
		return c02E2E(c, gen.Into[c02E2EIn](raw))
	})
	gen.RegisterOp("c02", "e2e-f31", func(c *gen.Ctx, raw json.RawMessage) any {
		return c02E2E(c, gen.Into[c02E2EIn](raw))
	})
	gen.RegisterOp("c02", "e2e-f34", func(c *gen.Ctx, raw json.RawMessage) any {
		return c02E2E(c, gen.Into[c02E2EIn](raw))
	})
	gen.RegisterOp("c02", "populate", func(_ *gen.Ctx, raw json.RawMessage) any {
		return c02Populate(gen.Into[c02PopIn](raw))
	})
	gen.RegisterOp("c02", "assertx", func(_ *gen.Ctx, raw json.RawMessage) any {
		return c02AssertX(gen.Into[c02AssertIn](raw))
	})
	gen.RegisterOp("c02", "libexpected", func(_ *gen.Ctx, raw json.RawMessage) any {
		return c02LibExpected(gen.Into[c02LibIn](raw))
	})
}

// ---- abstract descriptions (mirrored by lean/ConfModel/Model/Echo.lean) ----

type c02Hdr struct {
	N string   `json:"n"`
	V []string `json:"v"`
}
type c02Err struct {
	Code    int     `json:"code"`
	Msg     *string `json:"msg"`
	Details []int   `json:"details"` // ids of "other" details
}
type c02Def struct {
	Hdrs []c02Hdr `json:"hdrs"`
	Trls []c02Hdr `json:"trls"`
	Kind string   `json:"kind"` // unary definitions: none | data | error ; stream definitions: stream
	Data []string `json:"data"` // hex; unary data: one element
	Err  *c02Err  `json:"err"`
}
type c02TC struct {
	Name    string   `json:"name"`
	St      string   `json:"st"` // unary | clientStream | serverStream | halfDuplex | fullDuplex
	ReqHdrs []c02Hdr `json:"reqHdrs"`
	Reqs    []int    `json:"reqs"` // request ids, in order
	HasDef  bool     `json:"hasDef"`
	Def     c02Def   `json:"def"`
	// response definitions carried by messages after the first: the generator and every peer
	// must ignore them (only the first message's definition counts); the Lean model has no
	// such field, which is exactly that claim
	LaterDefs []c02LaterDef `json:"laterDefs,omitempty"`
	FdFlag  bool     `json:"fdFlag"`
	// Get: use_get_http_method.  Method: "" (service and method left to the runner), "explicit"
	// (service and method given and equal to the defaults), "idempotent" (IdempotentUnary with an
	// IdempotentUnaryRequest), "unimplemented" (Unimplemented with an UnimplementedRequest).
	// Codec (1 proto, 2 json): the permutation's codec, which the generator reads for a GET case
	// (ops expected / libexpected; in e2e runs every permutation carries its own).
	// Explicit: an expected_response given in the suite (the generator must leave it alone).
	// XFail: hint that the explicit expectation is wrong on purpose (only used to skip re-runs;
	// the driver checks it against the model's prediction).
	Get      bool       `json:"get,omitempty"`
	Method   string     `json:"method,omitempty"`
	Codec    int        `json:"codec,omitempty"`
	Explicit *c02Result `json:"explicit,omitempty"`
	XFail    bool       `json:"xfail,omitempty"`
	// OtherCodes: other_allowed_error_codes of the test case (read by assert, never by the generator)
	OtherCodes []int `json:"otherCodes,omitempty"`
}
type c02LaterDef struct {
	At  int    `json:"at"` // index of the request message (>= 1)
	Def c02Def `json:"def"`
}
type c02Info struct {
	Hdrs  []c02Hdr `json:"hdrs"`
	Reqs  []int    `json:"reqs"`
	Query []c02Hdr `json:"query"` // connect_get_info.query_params ([] = no ConnectGetInfo or an empty one)
}
type c02Detail struct {
	Other *int     `json:"other,omitempty"`
	Info  *c02Info `json:"info,omitempty"`
}
type c02ErrOut struct {
	Code    int         `json:"code"`
	Msg     *string     `json:"msg"`
	Details []c02Detail `json:"details"`
}
type c02Payload struct {
	Data string   `json:"data"`
	Info *c02Info `json:"info"`
}
type c02Result struct {
	Hdrs     []c02Hdr     `json:"hdrs"`
	Trls     []c02Hdr     `json:"trls"`
	Payloads []c02Payload `json:"payloads"`
	Err      *c02ErrOut   `json:"err"`
	// Status: http_status_code (explicit expected responses; results handed to assert)
	Status *int `json:"status,omitempty"`
}

// ---- abstract -> proto ----

func c02Headers(hs []c02Hdr) []*conformancev1.Header {
	var out []*conformancev1.Header
	for _, h := range hs {
		out = append(out, &conformancev1.Header{Name: h.N, Value: h.V})
	}
	return out
}

func c02ReqData(id int) []byte {
	b := []byte("req:")
	b = binary.BigEndian.AppendUint32(b, uint32(id))
	// a few content bytes depending on the id, including 0x00 and 0xFF
	b = append(b, 0x00, byte(id*37), 0xFF)
	return b
}

func c02ReqID(data []byte) int {
	if len(data) != 11 || string(data[:4]) != "req:" {
		return -1
	}
	id := int(binary.BigEndian.Uint32(data[4:8]))
	if !bytes.Equal(data, c02ReqData(id)) {
		return -1
	}
	return id
}

func c02ErrProto(e *c02Err) *conformancev1.Error {
	if e == nil {
		return nil
	}
	out := &conformancev1.Error{Code: conformancev1.Code(e.Code), Message: e.Msg}
	for _, d := range e.Details {
		a, _ := anypb.New(&conformancev1.Header{Name: fmt.Sprintf("detail-%d", d), Value: []string{"v", fmt.Sprint(d)}})
		out.Details = append(out.Details, a)
	}
	return out
}

func c02Unhex(s string) []byte {
	b, _ := hex.DecodeString(s)
	return b
}

func c02UnaryDef(d c02Def) *conformancev1.UnaryResponseDefinition {
	out := &conformancev1.UnaryResponseDefinition{ResponseHeaders: c02Headers(d.Hdrs), ResponseTrailers: c02Headers(d.Trls)}
	switch d.Kind {
	case "data":
		var b []byte
		if len(d.Data) > 0 {
			b = c02Unhex(d.Data[0])
		}
		out.Response = &conformancev1.UnaryResponseDefinition_ResponseData{ResponseData: b}
	case "error":
		out.Response = &conformancev1.UnaryResponseDefinition_Error{Error: c02ErrProto(d.Err)}
	}
	return out
}

func c02StreamDef(d c02Def) *conformancev1.StreamResponseDefinition {
	out := &conformancev1.StreamResponseDefinition{ResponseHeaders: c02Headers(d.Hdrs), ResponseTrailers: c02Headers(d.Trls), Error: c02ErrProto(d.Err)}
	for _, x := range d.Data {
		out.ResponseData = append(out.ResponseData, c02Unhex(x))
	}
	return out
}

var c02StreamTypes = map[string]conformancev1.StreamType{
	"unary":        conformancev1.StreamType_STREAM_TYPE_UNARY,
	"clientStream": conformancev1.StreamType_STREAM_TYPE_CLIENT_STREAM,
	"serverStream": conformancev1.StreamType_STREAM_TYPE_SERVER_STREAM,
	"halfDuplex":   conformancev1.StreamType_STREAM_TYPE_HALF_DUPLEX_BIDI_STREAM,
	"fullDuplex":   conformancev1.StreamType_STREAM_TYPE_FULL_DUPLEX_BIDI_STREAM,
}

var c02DefaultMethods = map[string]string{
	"unary": "Unary", "clientStream": "ClientStream", "serverStream": "ServerStream", "halfDuplex": "BidiStream", "fullDuplex": "BidiStream",
}

const c02ServiceName = "connectrpc.conformance.v1.ConformanceService"

func c02TestCase(tc c02TC) *conformancev1.TestCase {
	req := &conformancev1.ClientCompatRequest{
		TestName:         tc.Name,
		StreamType:       c02StreamTypes[tc.St],
		RequestHeaders:   c02Headers(tc.ReqHdrs),
		UseGetHttpMethod: tc.Get,
		Codec:            conformancev1.Codec(tc.Codec),
	}
	switch tc.Method {
	case "explicit":
		req.Service, req.Method = proto.String(c02ServiceName), proto.String(c02DefaultMethods[tc.St])
	case "idempotent":
		req.Service, req.Method = proto.String(c02ServiceName), proto.String("IdempotentUnary")
	case "unimplemented":
		req.Service, req.Method = proto.String(c02ServiceName), proto.String("Unimplemented")
	}
	later := map[int]c02Def{}
	for _, ld := range tc.LaterDefs {
		if ld.At >= 1 {
			later[ld.At] = ld.Def
		}
	}
	for i, id := range tc.Reqs {
		var m proto.Message
		first := i == 0 && tc.HasDef
		if ld, ok := later[i]; ok {
			first = true
			tc.Def = ld
		}
		switch {
		case tc.Method == "unimplemented":
			// no fields: neither a definition nor data
			m = &conformancev1.UnimplementedRequest{}
		case tc.Method == "idempotent":
			r := &conformancev1.IdempotentUnaryRequest{RequestData: c02ReqData(id)}
			if first {
				r.ResponseDefinition = c02UnaryDef(tc.Def)
			}
			m = r
		case tc.St == "unary":
			r := &conformancev1.UnaryRequest{RequestData: c02ReqData(id)}
			if first {
				r.ResponseDefinition = c02UnaryDef(tc.Def)
			}
			m = r
		case tc.St == "clientStream":
			r := &conformancev1.ClientStreamRequest{RequestData: c02ReqData(id)}
			if first {
				r.ResponseDefinition = c02UnaryDef(tc.Def)
			}
			m = r
		case tc.St == "serverStream":
			r := &conformancev1.ServerStreamRequest{RequestData: c02ReqData(id)}
			if first {
				r.ResponseDefinition = c02StreamDef(tc.Def)
			}
			m = r
		default:
			r := &conformancev1.BidiStreamRequest{RequestData: c02ReqData(id)}
			if first {
				r.ResponseDefinition = c02StreamDef(tc.Def)
			}
			if i == 0 {
				r.FullDuplex = tc.FdFlag
			}
			m = r
		}
		a, _ := anypb.New(m)
		req.RequestMessages = append(req.RequestMessages, a)
	}
	out := &conformancev1.TestCase{Request: req}
	for _, c := range tc.OtherCodes {
		out.OtherAllowedErrorCodes = append(out.OtherAllowedErrorCodes, conformancev1.Code(c))
	}
	if tc.Explicit != nil {
		out.ExpectedResponse = c02ResultProto(tc.Explicit, tc, req.RequestMessages)
	}
	return out
}

// c02ResultProto: an abstract result as a ClientResponseResult (explicit expected responses).  A
// request id that is one of the test case's stands for that request message; any other id for a
// UnaryRequest that was never sent.
func c02ResultProto(r *c02Result, tc c02TC, msgs []*anypb.Any) *conformancev1.ClientResponseResult {
	info := func(in *c02Info) *conformancev1.ConformancePayload_RequestInfo {
		if in == nil {
			return nil
		}
		ri := &conformancev1.ConformancePayload_RequestInfo{RequestHeaders: c02Headers(in.Hdrs)}
		if len(in.Query) > 0 {
			ri.ConnectGetInfo = &conformancev1.ConformancePayload_ConnectGetInfo{QueryParams: c02Headers(in.Query)}
		}
		for _, id := range in.Reqs {
			var a *anypb.Any
			for i, have := range tc.Reqs {
				if have == id && i < len(msgs) {
					a = msgs[i]
					break
				}
			}
			if a == nil {
				a, _ = anypb.New(&conformancev1.UnaryRequest{RequestData: c02ReqData(id)})
			}
			ri.Requests = append(ri.Requests, a)
		}
		return ri
	}
	out := &conformancev1.ClientResponseResult{ResponseHeaders: c02Headers(r.Hdrs), ResponseTrailers: c02Headers(r.Trls)}
	if r.Status != nil {
		out.HttpStatusCode = proto.Int32(int32(*r.Status))
	}
	for _, p := range r.Payloads {
		out.Payloads = append(out.Payloads, &conformancev1.ConformancePayload{Data: c02Unhex(p.Data), RequestInfo: info(p.Info)})
	}
	if r.Err != nil {
		e := &conformancev1.Error{Code: conformancev1.Code(r.Err.Code), Message: r.Err.Msg}
		for _, d := range r.Err.Details {
			switch {
			case d.Info != nil:
				a, _ := anypb.New(info(d.Info))
				e.Details = append(e.Details, a)
			case d.Other != nil:
				a, _ := anypb.New(&conformancev1.Header{Name: fmt.Sprintf("detail-%d", *d.Other), Value: []string{"v", fmt.Sprint(*d.Other)}})
				e.Details = append(e.Details, a)
			}
		}
		out.Error = e
	}
	return out
}

// ---- proto -> abstract ----

func c02HdrsOut(hs []*conformancev1.Header) []c02Hdr {
	out := make([]c02Hdr, 0, len(hs))
	for _, h := range hs {
		v := h.Value
		if v == nil {
			v = []string{}
		}
		out = append(out, c02Hdr{N: h.Name, V: v})
	}
	// results coming out of Go maps have no defined order
	sort.SliceStable(out, func(i, j int) bool { return out[i].N < out[j].N })
	return out
}

func c02HdrsOutOrdered(hs []*conformancev1.Header) []c02Hdr {
	out := make([]c02Hdr, 0, len(hs))
	for _, h := range hs {
		v := h.Value
		if v == nil {
			v = []string{}
		}
		out = append(out, c02Hdr{N: h.Name, V: v})
	}
	return out
}

func c02InfoOut(ri *conformancev1.ConformancePayload_RequestInfo, ordered bool) *c02Info {
	if ri == nil {
		return nil
	}
	out := &c02Info{Reqs: []int{}}
	if ordered {
		out.Hdrs, out.Query = c02HdrsOutOrdered(ri.RequestHeaders), c02HdrsOutOrdered(ri.GetConnectGetInfo().GetQueryParams())
	} else {
		out.Hdrs, out.Query = c02HdrsOut(ri.RequestHeaders), c02HdrsOut(ri.GetConnectGetInfo().GetQueryParams())
	}
	for _, a := range ri.Requests {
		id := -1
		if m, err := a.UnmarshalNew(); err == nil {
			if g, ok := m.(interface{ GetRequestData() []byte }); ok {
				id = c02ReqID(g.GetRequestData())
			}
		}
		out.Reqs = append(out.Reqs, id)
	}
	return out
}

var c02DetailRE = regexp.MustCompile(`^detail-(\d+)$`)

func c02ErrOutOf(e *conformancev1.Error, ordered bool) *c02ErrOut {
	if e == nil {
		return nil
	}
	out := &c02ErrOut{Code: int(e.Code), Msg: e.Message, Details: []c02Detail{}}
	for _, d := range e.Details {
		var ri conformancev1.ConformancePayload_RequestInfo
		var h conformancev1.Header
		switch {
		case d.MessageIs(&ri) && d.UnmarshalTo(&ri) == nil:
			out.Details = append(out.Details, c02Detail{Info: c02InfoOut(&ri, ordered)})
		case d.MessageIs(&h) && d.UnmarshalTo(&h) == nil && c02DetailRE.MatchString(h.Name):
			var id int
			fmt.Sscanf(h.Name, "detail-%d", &id)
			out.Details = append(out.Details, c02Detail{Other: &id})
		default:
			id := -1
			out.Details = append(out.Details, c02Detail{Other: &id})
		}
	}
	return out
}

func c02ResultOut(r *conformancev1.ClientResponseResult, ordered bool) *c02Result {
	if r == nil {
		return nil
	}
	out := &c02Result{Payloads: []c02Payload{}, Err: c02ErrOutOf(r.Error, ordered)}
	if r.HttpStatusCode != nil {
		st := int(r.GetHttpStatusCode())
		out.Status = &st
	}
	if ordered {
		out.Hdrs, out.Trls = c02HdrsOutOrdered(r.ResponseHeaders), c02HdrsOutOrdered(r.ResponseTrailers)
	} else {
		out.Hdrs, out.Trls = c02HdrsOut(r.ResponseHeaders), c02HdrsOut(r.ResponseTrailers)
	}
	for _, p := range r.Payloads {
		out.Payloads = append(out.Payloads, c02Payload{Data: hex.EncodeToString(p.GetData()), Info: c02InfoOut(p.GetRequestInfo(), ordered)})
	}
	return out
}

// ---- op: expected ----

type c02ExpectedOut struct {
	Result *c02Result `json:"result"`
	Err    string     `json:"err,omitempty"`
	// other_allowed_error_codes of the test case after the call
	OtherCodes []int `json:"otherCodes"`
}

func c02CodesOut(cs []conformancev1.Code) []int {
	out := []int{}
	for _, c := range cs {
		out = append(out, int(c))
	}
	return out
}

func c02Expected(tc c02TC) c02ExpectedOut {
	def := c02TestCase(tc)
	res, err := cc.VerifC02PopulateExpected(def)
	if err != nil {
		return c02ExpectedOut{Err: "error"}
	}
	return c02ExpectedOut{Result: c02ResultOut(res, true), OtherCodes: c02CodesOut(def.OtherAllowedErrorCodes)}
}

// ---- op: assertx (populateExpectedResponse, then the real assert, on the full expectation) ----

// c02AssertIn: a test case (with or without an explicit expected response, its http_status_code, other
// allowed error codes) and a client result (with or without an http_status_code)
type c02AssertIn struct {
	TC     c02TC      `json:"tc"`
	Actual *c02Result `json:"actual"`
}

func c02AssertX(in c02AssertIn) map[string]any {
	def := c02TestCase(in.TC)
	if _, err := cc.VerifC02PopulateExpected(def); err != nil {
		return map[string]any{"err": "error"}
	}
	stored := c02ResultOut(def.ExpectedResponse, true)
	actual := c02ResultProto(in.Actual, in.TC, def.Request.RequestMessages)
	recorded, pass, n := cc.VerifC02Assert(def, actual)
	return map[string]any{"recorded": recorded, "pass": pass, "n": n, "stored": stored, "otherCodes": c02CodesOut(def.OtherAllowedErrorCodes)}
}

// c02FullExplicit: the case with an expected response of its own that restates what the generator
// would derive (computed by the real generator, here, while building the input) — as it is, or with
// one departure: the error code replaced (and the real one among / not among the other allowed codes),
// a detail dropped or added, the message left open, an error expected where none is defined.  XFail says
// whether the departure is one no leniency covers.  ok=false: not applicable (GET cases — the derived
// expectation depends on the permutation's codec —, cases that already carry one, later definitions).
func c02FullExplicit(r *gen.Rand, tc c02TC) (c02TC, bool) {
	if tc.Explicit != nil || tc.Get || len(tc.LaterDefs) > 0 || tc.Method == "unimplemented" || tc.Method == "idempotent" {
		return tc, false
	}
	t := tc
	t.Name, t.Codec = "x", 0
	d := c02Expected(t)
	if d.Err != "" || d.Result == nil {
		return tc, false
	}
	ex := d.Result
	otherThan := func(code int) int {
		c := r.Range(1, 16)
		if c == code {
			c = code%16 + 1
		}
		return c
	}
	codesWithout := func(code int) []int {
		out := []int{}
		for k := r.Intn(4); k > 0; k-- {
			out = append(out, otherThan(code))
		}
		return out
	}
	kind := r.Intn(7)
	if ex.Err == nil {
		tc.OtherCodes = codesWithout(0)
		if kind == 3 {
			// other allowed codes never excuse a missing error
			ex.Err = &c02ErrOut{Code: r.Range(1, 16), Details: []c02Detail{}}
			tc.OtherCodes = append(tc.OtherCodes, r.Range(1, 16))
			tc.XFail = true
		}
		tc.Explicit = ex
		return tc, true
	}
	real := ex.Err.Code
	switch kind {
	case 0:
		tc.OtherCodes = codesWithout(real)
	case 1:
		ex.Err.Code = otherThan(real)
		tc.OtherCodes = append(codesWithout(real), real)
		if r.Bool() {
			tc.OtherCodes = append(tc.OtherCodes, otherThan(real))
		}
	case 2:
		ex.Err.Code = otherThan(real)
		tc.OtherCodes = codesWithout(real)
		tc.XFail = true
	case 3:
		if len(ex.Err.Details) > 0 {
			ex.Err.Details = ex.Err.Details[:len(ex.Err.Details)-1]
		} else {
			id := 77
			ex.Err.Details = append(ex.Err.Details, c02Detail{Other: &id})
		}
		tc.OtherCodes = append(codesWithout(real), real)
		tc.XFail = true
	case 4:
		ex.Err.Msg = nil
	case 5:
		id := 78
		ex.Err.Details = append(ex.Err.Details, c02Detail{Other: &id})
		tc.XFail = true
	default:
		tc.OtherCodes = []int{real}
	}
	tc.Explicit = ex
	return tc, true
}

// c02ActualFor: a client result to hold against the case's expectation: what the generator derives for
// the case, with its error code / details / presence, a payload and the HTTP status varied
func c02ActualFor(r *gen.Rand, tc c02TC) *c02Result {
	t := tc
	t.Name, t.Explicit = "x", nil
	if t.Method == "unimplemented" {
		t.Method = ""
	}
	d := c02Expected(t)
	a := d.Result
	if a == nil {
		a = &c02Result{Hdrs: []c02Hdr{}, Trls: []c02Hdr{}, Payloads: []c02Payload{}}
	}
	if a.Err != nil {
		switch r.Intn(6) {
		case 0:
			if len(tc.OtherCodes) > 0 {
				a.Err.Code = gen.Pick(r, tc.OtherCodes)
			}
		case 1:
			a.Err.Code = r.Range(1, 16)
		case 2:
			if tc.Explicit != nil && tc.Explicit.Err != nil {
				a.Err.Code = tc.Explicit.Err.Code
			}
		case 3:
			if r.Chance(1, 3) {
				a.Err = nil
			} else if len(a.Err.Details) > 0 && r.Bool() {
				a.Err.Details = a.Err.Details[1:]
			}
		}
	} else if r.Chance(1, 6) {
		a.Err = &c02ErrOut{Code: r.Range(1, 16), Details: []c02Detail{}}
		if len(tc.OtherCodes) > 0 && r.Bool() {
			a.Err.Code = gen.Pick(r, tc.OtherCodes)
		}
	}
	if len(a.Payloads) > 0 && r.Chance(1, 8) {
		a.Payloads[0].Data += "ee"
	}
	if r.Chance(2, 3) {
		st := gen.Pick(r, []int{200, 400, 409, 500})
		a.Status = &st
	}
	return a
}

// ---- op: libexpected (what populateExpectedResponses leaves in the library) ----

// c02LibIn: the two suites of an e2e run (V: every protocol; VG: reliesOnConnectGet, Connect only,
// relevantCompressions GetComps), loaded with a config of the given features — no RPC is made.
type c02LibIn struct {
	Mode     string  `json:"mode"` // client | server | both (grpc peers as in the e2e op)
	Versions []int   `json:"versions"`
	Protos   []int   `json:"protocols"`
	Codecs   []int   `json:"codecs"`
	Comps    []int   `json:"compressions"`
	Cases    []c02TC `json:"cases"`
	GetCases []c02TC `json:"getCases,omitempty"`
	GetComps []int   `json:"getComps,omitempty"`
}
type c02LibPerm struct {
	Name     string     `json:"name"`
	Case     int        `json:"case"`
	G        bool       `json:"g,omitempty"`
	Codec    int        `json:"codec"`
	Get      bool       `json:"get,omitempty"`
	Service  string     `json:"service"`
	Method   string     `json:"method"`
	Expected *c02Result `json:"expected"`
	OtherCodes []int    `json:"otherCodes"`
}
type c02LibOut struct {
	Perms []c02LibPerm `json:"perms"`
	Err   string       `json:"err,omitempty"`
}

// c02Suites: the suite files of a run and the config text
func c02Suites(dir string, cases, getCases []c02TC, getComps []int, versions, protos, codecs, comps []int) (map[string][]byte, []string, string) {
	for i := range cases {
		cases[i].Name = fmt.Sprintf("t%d", i)
		cases[i].Codec = 0
	}
	for i := range getCases {
		getCases[i].Name = fmt.Sprintf("g%d", i)
		getCases[i].Codec = 0
	}
	files := map[string][]byte{}
	var testFiles []string
	if len(cases) > 0 || len(getCases) == 0 {
		suitePath := filepath.Join(dir, "suite.yaml")
		files[suitePath] = c02SuiteJSON(cases, false, nil)
		testFiles = append(testFiles, suitePath)
	}
	if len(getCases) > 0 {
		suitePath := filepath.Join(dir, "suiteg.yaml")
		files[suitePath] = c02SuiteJSON(getCases, true, getComps)
		testFiles = append(testFiles, suitePath)
	}
	return files, testFiles, c02CfgYAMLGet(versions, protos, codecs, comps, len(getCases) > 0)
}

// the case a permutation belongs to: its simple name is t<i> (suite V) or g<i> (suite VG)
func c02CaseOf(name string) (bool, int) {
	last := name[strings.LastIndex(name, "/")+1:]
	var idx int
	if strings.HasPrefix(last, "g") {
		fmt.Sscanf(last, "g%d", &idx)
		return true, idx
	}
	fmt.Sscanf(last, "t%d", &idx)
	return false, idx
}

func c02ModeOf(m string) (conformancev1.TestSuite_TestMode, bool, bool) {
	switch m {
	case "server", "grpcserver":
		return conformancev1.TestSuite_TEST_MODE_SERVER, true, false
	case "both":
		return conformancev1.TestSuite_TEST_MODE_UNSPECIFIED, true, true
	}
	return conformancev1.TestSuite_TEST_MODE_CLIENT, false, true
}

func c02LibExpected(in c02LibIn) c02LibOut {
	files, _, cfg := c02Suites("/lib", in.Cases, in.GetCases, in.GetComps, in.Versions, in.Protos, in.Codecs, in.Comps)
	mode, clientGRPC, serverGRPC := c02ModeOf(in.Mode)
	perms, err := cc.VerifC02LoadPerms(files, cfg, mode, clientGRPC, serverGRPC)
	if err != nil {
		return c02LibOut{Err: "error"}
	}
	out := c02LibOut{Perms: []c02LibPerm{}}
	for _, p := range perms {
		g, idx := c02CaseOf(p.Name)
		out.Perms = append(out.Perms, c02LibPerm{Name: p.Name, Case: idx, G: g, Codec: int(p.Codec), Get: p.UseGet,
			Service: p.Service, Method: p.Method, Expected: c02ResultOut(p.Expected, true), OtherCodes: c02CodesOut(p.OtherCodes)})
	}
	return out
}

// ---- op: load (suite loading never crashes) ----

type c02LoadIn struct {
	Suite string `json:"suite"` // YAML/JSON text of one suite file
	Mode  string `json:"mode"`
	Note  string `json:"note"`
	// Shapes: instead of Suite, an abstract description of one suite per file (mirrored by
	// lean/ConfModel/Model/EchoLoad.lean, which predicts whether the load is rejected)
	Shapes []c02LSuite `json:"shapes,omitempty"`
}

// kinds of request messages: unary | idempotent | clientStream | serverStream | bidi (carry a
// response definition and request_data) | unimplemented (UnimplementedRequest) | other (a Header)
type c02LCase struct {
	Name        string   `json:"name"`
	St          int      `json:"st"` // stream_type enum number (0 unspecified, 1..5, other numbers unknown)
	Service     bool     `json:"service"`
	Method      bool     `json:"method"`
	Msgs        []string `json:"msgs"`
	RawRequest  bool     `json:"rawRequest"`
	RawResponse bool     `json:"rawResponse"` // the first message's definition carries a raw response
	Explicit    bool     `json:"explicit"`
	Expand      []string `json:"expand"` // absent | fits | misfit
}
type c02LSuite struct {
	Name        string     `json:"name"`
	Mode        int        `json:"mode"`
	Protos      []int      `json:"protos"` // relevantProtocols, without repetitions (a repeated value expands the suite twice)
	Codecs      []int      `json:"codecs"`
	Tls         bool       `json:"tls"`
	Certs       bool       `json:"certs"`
	Get         bool       `json:"get"`
	Cvm         int        `json:"cvm"`
	Cases       []c02LCase `json:"cases"`
}

func c02LMsg(kind string, first, raw bool, k int) *anypb.Any {
	data := []byte{byte(k), 1, 2}
	var udef *conformancev1.UnaryResponseDefinition
	var sdef *conformancev1.StreamResponseDefinition
	if first {
		udef = &conformancev1.UnaryResponseDefinition{Response: &conformancev1.UnaryResponseDefinition_ResponseData{ResponseData: []byte("r")}}
		sdef = &conformancev1.StreamResponseDefinition{ResponseData: [][]byte{[]byte("r")}}
		if raw {
			udef.RawResponse = &conformancev1.RawHTTPResponse{StatusCode: 200}
			sdef.RawResponse = &conformancev1.RawHTTPResponse{StatusCode: 200}
		}
	}
	var m proto.Message
	switch kind {
	case "unary":
		m = &conformancev1.UnaryRequest{RequestData: data, ResponseDefinition: udef}
	case "idempotent":
		m = &conformancev1.IdempotentUnaryRequest{RequestData: data, ResponseDefinition: udef}
	case "clientStream":
		m = &conformancev1.ClientStreamRequest{RequestData: data, ResponseDefinition: udef}
	case "serverStream":
		m = &conformancev1.ServerStreamRequest{RequestData: data, ResponseDefinition: sdef}
	case "bidi":
		m = &conformancev1.BidiStreamRequest{RequestData: data, ResponseDefinition: sdef}
	case "unimplemented":
		m = &conformancev1.UnimplementedRequest{}
	default:
		m = &conformancev1.Header{Name: "x-not-a-request", Value: []string{"v"}}
	}
	a, _ := anypb.New(m)
	return a
}

func c02LSuiteProto(sh c02LSuite) *conformancev1.TestSuite {
	s := &conformancev1.TestSuite{Name: sh.Name, Mode: conformancev1.TestSuite_TestMode(sh.Mode), ReliesOnTls: sh.Tls,
		ReliesOnTlsClientCerts: sh.Certs, ReliesOnConnectGet: sh.Get, ConnectVersionMode: conformancev1.TestSuite_ConnectVersionMode(sh.Cvm)}
	for _, p := range sh.Protos {
		s.RelevantProtocols = append(s.RelevantProtocols, conformancev1.Protocol(p))
	}
	for _, c := range sh.Codecs {
		s.RelevantCodecs = append(s.RelevantCodecs, conformancev1.Codec(c))
	}
	for _, c := range sh.Cases {
		req := &conformancev1.ClientCompatRequest{TestName: c.Name, StreamType: conformancev1.StreamType(c.St)}
		if c.Service {
			req.Service = proto.String(c02ServiceName)
		}
		if c.Method {
			req.Method = proto.String("Unary")
		}
		for i, k := range c.Msgs {
			req.RequestMessages = append(req.RequestMessages, c02LMsg(k, i == 0, c.RawResponse, i))
		}
		if c.RawRequest {
			req.RawRequest = &conformancev1.RawHTTPRequest{Verb: "POST", Uri: "/x"}
		}
		tc := &conformancev1.TestCase{Request: req}
		if c.Explicit {
			tc.ExpectedResponse = &conformancev1.ClientResponseResult{Error: &conformancev1.Error{Code: conformancev1.Code_CODE_UNIMPLEMENTED}}
		}
		for _, d := range c.Expand {
			switch d {
			case "fits":
				tc.ExpandRequests = append(tc.ExpandRequests, &conformancev1.TestCase_ExpandedSize{SizeRelativeToLimit: proto.Int32(int32(len(tc.ExpandRequests)) - 1)})
			case "misfit":
				// a single byte — less than removing all request data leaves —, or below zero altogether
				v := int32(-204799)
				if len(tc.ExpandRequests)%2 == 1 {
					v = -204801
				}
				tc.ExpandRequests = append(tc.ExpandRequests, &conformancev1.TestCase_ExpandedSize{SizeRelativeToLimit: proto.Int32(v)})
			default:
				tc.ExpandRequests = append(tc.ExpandRequests, &conformancev1.TestCase_ExpandedSize{})
			}
		}
		s.TestCases = append(s.TestCases, tc)
	}
	return s
}

// ---- op: populate (populateExpectedResponse on messages no suite file can contain) ----

// c02PopIn: a test case built directly as a message: stream type by number, request messages by kind —
// here also "unknown" (an Any of a type that is not registered) and "garbage" (bytes that are no
// message of the named type), which JSON / YAML cannot express
type c02PopIn struct {
	St       int      `json:"st"`
	Msgs     []string `json:"msgs"`
	Explicit bool     `json:"explicit"`
}

func c02Populate(in c02PopIn) map[string]any {
	req := &conformancev1.ClientCompatRequest{TestName: "p", StreamType: conformancev1.StreamType(in.St)}
	for i, k := range in.Msgs {
		switch k {
		case "unknown":
			req.RequestMessages = append(req.RequestMessages, &anypb.Any{TypeUrl: "type.googleapis.com/nope.Nope", Value: []byte{1, 2}})
		case "garbage":
			req.RequestMessages = append(req.RequestMessages, &anypb.Any{TypeUrl: "type.googleapis.com/connectrpc.conformance.v1.UnaryRequest", Value: []byte{0xff, 0xff, 0xff}})
		default:
			req.RequestMessages = append(req.RequestMessages, c02LMsg(k, i == 0, false, i))
		}
	}
	tc := &conformancev1.TestCase{Request: req}
	if in.Explicit {
		tc.ExpectedResponse = &conformancev1.ClientResponseResult{}
	}
	res, err := cc.VerifC02PopulateExpected(tc)
	if err != nil {
		return map[string]any{"class": "error"}
	}
	return map[string]any{"class": "ok", "payloads": len(res.GetPayloads())}
}

func c02Load(in c02LoadIn) map[string]any {
	mode := conformancev1.TestSuite_TEST_MODE_UNSPECIFIED
	switch in.Mode {
	case "client":
		mode = conformancev1.TestSuite_TEST_MODE_CLIENT
	case "server":
		mode = conformancev1.TestSuite_TEST_MODE_SERVER
	}
	files := map[string][]byte{"s.yaml": []byte(in.Suite)}
	cfg := c02CfgYAML([]int{1, 2}, []int{1, 2, 3}, []int{1, 2}, []int{1})
	if len(in.Shapes) > 0 {
		// the configuration lean/ConfModel/Model/EchoLoad.lean `cfgApplies` speaks about
		files, cfg = map[string][]byte{}, c02CfgYAMLGet([]int{1, 2}, []int{1, 2, 3}, []int{1, 2}, []int{1, 2}, true)
		for i, sh := range in.Shapes {
			b, err := protojson.Marshal(c02LSuiteProto(sh))
			if err != nil {
				return map[string]any{"class": "unmarshalable", "err": err.Error()}
			}
			files[fmt.Sprintf("s%d.yaml", i)] = b
		}
	}
	names, err := cc.VerifC02Load(files, cfg, mode, true, true)
	if len(in.Shapes) > 1 {
		// the files are visited in map order: the verdict must not depend on it
		for k := 0; k < 5; k++ {
			if _, err2 := cc.VerifC02Load(files, cfg, mode, true, true); (err2 == nil) != (err == nil) {
				return map[string]any{"class": "unstable"}
			}
		}
	}
	if err != nil {
		return map[string]any{"class": "error"}
	}
	return map[string]any{"class": "ok", "n": len(names)}
}

// ---- op: e2e ----

type c02E2EIn struct {
	Mode     string  `json:"mode"` // client: wrapped reference client against in-process reference + grpc servers; server: referenceserver binary against in-process reference + grpc clients
	Versions []int   `json:"versions"`
	Protos   []int   `json:"protocols"`
	Codecs   []int   `json:"codecs"`
	Comps    []int   `json:"compressions"`
	Cases    []c02TC `json:"cases"`
	// GetCases: a second suite "VG" in the same run: reliesOnConnectGet, relevantProtocols
	// [PROTOCOL_CONNECT], every codec and compression of the config (which then declares
	// supportsConnectGet: true); its cases are named g<i>
	GetCases []c02TC `json:"getCases,omitempty"`
	// GetComps: relevantCompressions of suite VG (empty: every compression of the config)
	GetComps []int `json:"getComps,omitempty"`
	NoRerun  bool    `json:"noRerun,omitempty"` // failing permutations are not re-run alone (ops whose failures are 20 s time-outs)
	// Trace: the runner's --trace (Flags.HTTPTrace): the in-process reference peers run inside the
	// HTTP tracing wrappers (tracer.TracingHandler around the reference server's checks,
	// TracingRoundTripper in the reference client).  Tracing is an observer: no verdict may change.
	Trace bool `json:"trace,omitempty"`
}
type c02PermOut struct {
	Name    string     `json:"name"`
	Case    int        `json:"case"`
	G       bool       `json:"g,omitempty"`     // a case of suite VG (index into getCases)
	Codec   int        `json:"codec,omitempty"` // the permutation's codec (1 proto, 2 json)
	Verdict string     `json:"verdict"` // pass | fail
	Why     string     `json:"why,omitempty"`
	Actual  *c02Result `json:"actual"`
}
type c02E2EOut struct {
	Perms  []c02PermOut `json:"perms"`
	RunErr string       `json:"runErr,omitempty"`
	OK     bool         `json:"ok"`
}

func c02CfgYAML(versions, protos, codecs, comps []int) string {
	return c02CfgYAMLGet(versions, protos, codecs, comps, false)
}

func c02CfgYAMLGet(versions, protos, codecs, comps []int, get bool) string {
	var b strings.Builder
	b.WriteString("features:\n")
	list := func(key string, vals []int, names map[int32]string) {
		fmt.Fprintf(&b, "  %s:\n", key)
		for _, v := range vals {
			fmt.Fprintf(&b, "  - %s\n", names[int32(v)])
		}
	}
	list("versions", versions, conformancev1.HTTPVersion_name)
	list("protocols", protos, conformancev1.Protocol_name)
	list("codecs", codecs, conformancev1.Codec_name)
	list("compressions", comps, conformancev1.Compression_name)
	b.WriteString("  supportsTls: false\n  supportsHalfDuplexBidiOverHttp1: true\n  supportsMessageReceiveLimit: false\n")
	fmt.Fprintf(&b, "  supportsConnectGet: %v\n", get)
	return b.String()
}

type c02Printer struct {
	mu sync.Mutex
	b  strings.Builder
}

func (p *c02Printer) Printf(msg string, args ...any) {
	p.mu.Lock()
	defer p.mu.Unlock()
	fmt.Fprintf(&p.b, msg, args...)
	p.b.WriteByte('\n')
}
func (p *c02Printer) PrefixPrintf(prefix, msg string, args ...any) {
	p.Printf(prefix+": "+msg, args...)
}

var c02Seq atomic.Int64

func c02SuiteJSON(cases []c02TC, get bool, getComps []int) []byte {
	suite := &conformancev1.TestSuite{Name: "V"}
	if get {
		suite = &conformancev1.TestSuite{Name: "VG", ReliesOnConnectGet: true, RelevantProtocols: []conformancev1.Protocol{conformancev1.Protocol_PROTOCOL_CONNECT}}
		for _, z := range getComps {
			suite.RelevantCompressions = append(suite.RelevantCompressions, conformancev1.Compression(z))
		}
	}
	for _, tc := range cases {
		suite.TestCases = append(suite.TestCases, c02TestCase(tc))
	}
	b, _ := protojson.Marshal(suite)
	// the file is read as YAML, which does not admit a raw DEL (protojson escapes the bytes below 0x20 only)
	return bytes.ReplaceAll(b, []byte{0x7f}, []byte(`\u007f`))
}

func c02E2E(c *gen.Ctx, in c02E2EIn) c02E2EOut {
	dir := filepath.Join(c.WorkDir, fmt.Sprintf("c02-%d-%d", os.Getpid(), c02Seq.Add(1)))
	os.MkdirAll(dir, 0o755)
	defer os.RemoveAll(dir)
	files, testFiles, cfg := c02Suites(dir, in.Cases, in.GetCases, in.GetComps, in.Versions, in.Protos, in.Codecs, in.Comps)
	cfgPath := filepath.Join(dir, "cfg.yaml")
	for path, data := range files {
		os.WriteFile(path, data, 0o644)
	}
	os.WriteFile(cfgPath, []byte(cfg), 0o644)
	capPath := filepath.Join(dir, "responses.bin")
	self, _ := os.Executable()
	flags := &cc.Flags{ConfigFile: cfgPath, TestFiles: testFiles, MaxServers: 4, Parallelism: 8, ServerBind: "127.0.0.1", HTTPTrace: in.Trace}
	mode := conformancev1.TestSuite_TEST_MODE_CLIENT
	clientGRPC, serverGRPC := false, true
	if in.Mode == "server" {
		mode = conformancev1.TestSuite_TEST_MODE_SERVER
		clientGRPC, serverGRPC = true, false
		flags.ServerCommand = []string{filepath.Join(c.BinDir, "referenceserver")}
	} else if in.Mode == "grpcserver" {
		// the stand-alone gRPC reference server (the binary `make runservertests` uses: its own
		// process, its own set of linked codecs) against the in-process reference and grpc-go clients
		mode = conformancev1.TestSuite_TEST_MODE_SERVER
		clientGRPC, serverGRPC = true, false
		flags.ServerCommand = []string{filepath.Join(c.BinDir, "grpcserver")}
	} else if in.Mode == "grpcclient" {
		// the stand-alone gRPC reference client against the in-process reference and grpc-go servers
		mode = conformancev1.TestSuite_TEST_MODE_CLIENT
		clientGRPC, serverGRPC = false, true
		flags.ClientCommand = []string{filepath.Join(c.BinDir, "grpcclient")}
	} else if in.Mode == "both" {
		// neither command: the in-process reference client against the in-process reference server,
		// both in reference mode (every deviation either peer notices on the wire is a failure of
		// the permutation), plus the grpc-go client and server
		mode = conformancev1.TestSuite_TEST_MODE_UNSPECIFIED
		clientGRPC, serverGRPC = true, true
	} else {
		flags.ClientCommand = []string{self, "c02peer", "refclient", capPath}
	}
	var out c02E2EOut
	perms, err := cc.VerifC02LoadPerms(files, cfg, mode, clientGRPC, serverGRPC)
	if err != nil {
		out.RunErr = "load: " + err.Error()
		return out
	}
	caseOf := c02CaseOf
	xfail := func(name string) bool {
		g, idx := caseOf(name)
		if g {
			return idx < len(in.GetCases) && in.GetCases[idx].XFail
		}
		return idx < len(in.Cases) && in.Cases[idx].XFail
	}
	parseFailed := func(log string) map[string]string {
		// failures: "FAILED: <name>:\n\t<lines>"
		failed := map[string]string{}
		lines := strings.Split(log, "\n")
		for i := 0; i < len(lines); i++ {
			l := lines[i]
			if !strings.HasPrefix(l, "FAILED: ") {
				continue
			}
			name := strings.TrimSuffix(strings.TrimPrefix(l, "FAILED: "), ":")
			name = strings.TrimSuffix(name, " was expected to fail but did not")
			var why []string
			for j := i + 1; j < len(lines) && strings.HasPrefix(lines[j], "\t") && len(why) < 6; j++ {
				why = append(why, strings.TrimSpace(lines[j]))
			}
			failed[name] = strings.Join(why, " | ")
		}
		return failed
	}
	readCap := func() (map[string]*conformancev1.ClientResponseResult, map[string]string) {
		acts, errs := map[string]*conformancev1.ClientResponseResult{}, map[string]string{}
		data, err := os.ReadFile(capPath)
		if err != nil {
			return acts, errs
		}
		for len(data) >= 4 {
			n := int(binary.BigEndian.Uint32(data[:4]))
			if len(data) < 4+n {
				break
			}
			var resp conformancev1.ClientCompatResponse
			if proto.Unmarshal(data[4:4+n], &resp) == nil {
				if r := resp.GetResponse(); r != nil {
					acts[resp.TestName] = r
				} else if e := resp.GetError(); e != nil {
					errs[resp.TestName] = e.Message
				}
			}
			data = data[4+n:]
		}
		return acts, errs
	}
	rerunActuals := map[string]*conformancev1.ClientResponseResult{}
	logP, errP := &c02Printer{}, &c02Printer{}
	ok, err := cc.Run(flags, logP, errP)
	out.OK = ok
	if err != nil {
		out.RunErr = err.Error()
	}
	log := logP.b.String()
	failed := parseFailed(log)
	actuals, clientErrs := readCap()
	// Scheduling-dependent failures of the real stacks (e.g. half-duplex over HTTP/1.1 through the
	// grpc-web wrapper: "http: invalid Read on closed Body") are not failures of the property, which
	// quantifies over inputs: re-run the failing permutations alone, twice; a permutation that
	// passes in a re-run counts as passing (and is counted as transient).
	unexpected := func() int {
		n := 0
		for name := range failed {
			if !xfail(name) {
				n++
			}
		}
		return n
	}
	for attempt := 0; attempt < 3 && !in.NoRerun && unexpected() > 0 && unexpected() <= 12 && strings.Contains(log, "Total cases:"); attempt++ {
		f2 := *flags
		f2.Parallelism, f2.MaxServers = 1, 1
		if len(f2.ClientCommand) > 0 {
			f2.ClientCommand = append(append([]string{}, f2.ClientCommand...), "-p", "1")
		}
		for name := range failed {
			if !xfail(name) { // an expectation that is wrong on purpose fails every time
				f2.RunPatterns = append(f2.RunPatterns, name)
			}
		}
		if len(f2.RunPatterns) == 0 {
			break
		}
		lp2 := &c02Printer{}
		cc.Run(&f2, lp2, &c02Printer{})
		log2 := lp2.b.String()
		if !strings.Contains(log2, "Total cases:") {
			break
		}
		still := parseFailed(log2)
		acts2, _ := readCap()
		for name := range failed {
			if xfail(name) {
				continue
			}
			if _, bad := still[name]; !bad {
				delete(failed, name)
				c.E.Count("e2e-transient-failure")
				if a, ok := acts2[name]; ok {
					rerunActuals[name] = a
				}
			}
		}
	}
	for name, a := range rerunActuals {
		actuals[name] = a
	}
	ran := strings.Contains(log, "Total cases:")
	for _, perm := range perms {
		name := perm.Name
		g, idx := caseOf(name)
		p := c02PermOut{Name: name, Case: idx, G: g, Codec: int(perm.Codec), Verdict: "pass"}
		if why, bad := failed[name]; bad {
			p.Verdict, p.Why = "fail", why
		} else if !ran {
			p.Verdict, p.Why = "fail", "run did not complete: "+out.RunErr
		}
		// the wrapped client sees the names as sent by the runner (same names)
		if a, ok := actuals[name]; ok {
			p.Actual = c02ResultOut(a, false)
		} else if e, ok := clientErrs[name]; ok && p.Why == "" {
			p.Why = "client error: " + e
		}
		out.Perms = append(out.Perms, p)
	}
	if !ran && out.RunErr == "" {
		out.RunErr = "no summary printed: " + errP.b.String()
	}
	return out
}

// c02Peer: `verifharness c02peer refclient <capture-file>` runs the real reference client
// (as a client under test, i.e. not in reference mode) and tees its stdout to a file.
func c02Peer(args []string) int {
	if len(args) < 2 || args[0] != "refclient" {
		fmt.Fprintln(os.Stderr, "usage: c02peer refclient <capture-file>")
		return 2
	}
	f, err := os.Create(args[1])
	if err != nil {
		fmt.Fprintln(os.Stderr, err)
		return 2
	}
	defer f.Close()
	out := &c02Tee{w: io.MultiWriter(os.Stdout, f)}
	if err := referenceclient.Run(context.Background(), append([]string{"referenceclient"}, args[2:]...), os.Stdin, out, os.Stderr); err != nil {
		fmt.Fprintln(os.Stderr, err)
		return 1
	}
	return 0
}

type c02Tee struct{ w io.Writer }

func (t *c02Tee) Write(p []byte) (int, error) { return t.w.Write(p) }
func (t *c02Tee) Close() error                { return os.Stdout.Close() }

// ---- generator ----

func c02GenHdrs(r *gen.Rand, prefix string, bin bool) []c02Hdr {
	n := r.Intn(4)
	var out []c02Hdr
	used := map[string]bool{}
	for i := 0; i < n; i++ {
		// names over the whole alphabet every peer accepts in a metadata key (letters, digits, '-', '_', '.')
		name := fmt.Sprintf("%s-%s%d", prefix, gen.Pick(r, []string{"a", "bb", "Key", "LONG-name", "q", "snake_case", "dot.ted", "_u", "m.x_Y-z"}), r.Intn(3))
		if r.Chance(1, 3) {
			name = strings.ToUpper(name[:1]) + name[1:]
		}
		isBin := bin && r.Chance(1, 4)
		if isBin {
			name += gen.Pick(r, []string{"-bin", "-bin", "-Bin", "-BIN"})
		}
		if used[strings.ToLower(name)] {
			continue
		}
		used[strings.ToLower(name)] = true
		nv := r.Range(1, 3)
		vals := make([]string, nv)
		for k := range vals {
			if isBin {
				vals[k] = gen.Pick(r, []string{"AAEC", "/w", "aGVsbG8", "AA"})
			} else {
				// plain values, and list-shaped ones: elements joined by commas with or without blanks,
				// empty elements at the end, in the middle, at the start, a blank element
				vals[k] = gen.Pick(r, []string{"v1", "Value2", "a b", "x;y=z", "100%", "trailing", "~tilde!", "1",
					"one,two", "one, two", "one,two,", "a,,b", "alpha, ,beta", ",lead", "k=v, k2=\"q\"", ",", "a ,b"})
			}
		}
		out = append(out, c02Hdr{N: name, V: vals})
	}
	if out == nil {
		out = []c02Hdr{}
	}
	return out
}

func c02GenErr(r *gen.Rand) *c02Err {
	e := &c02Err{Code: r.Range(1, 16), Details: []int{}}
	if r.Chance(4, 5) {
		m := gen.Pick(r, []string{"boom", "oops: it failed", "50% done", "üñïcödé ☃", "a/b?c=d&e", "", "tab\tinside", "quote\"and'backslash\\",
			"1+1 = 2", "a+b%2Bc%20d", "x=1&y=2#frag;z", "~!*'()", "100%25"})
		e.Msg = &m
	}
	for k := r.Intn(3); k > 0; k-- {
		e.Details = append(e.Details, r.Intn(50))
	}
	return e
}

// c02ClassMsg: an error message with at least one character of every byte class a protocol encodes
// differently: control bytes below 0x10 (tab, LF, CR among them), 0x10..0x1F, NUL, space, '%' (alone and
// in front of hex digits), DEL, '+', two-, three- and four-byte UTF-8, plain ASCII — in a seeded order.
// (gRPC / gRPC-Web percent-encode grpc-message byte by byte, Connect puts it into JSON, the reference
// server writes both by hand when the error comes with response headers.)
func c02ClassMsg(r *gen.Rand) string {
	low := []string{"\t", "\n", "\r", "\x01", "\x07", "\x0b", "\x0f", "\r\n"}
	segs := []string{
		gen.Pick(r, low), gen.Pick(r, low),
		gen.Pick(r, []string{"\x10", "\x1b", "\x1f"}),
		gen.Pick(r, []string{" ", "  ", " a "}),
		gen.Pick(r, []string{"%", "100%", "%41", "%0A", "%%", "%zz"}),
		"\x7f",
		gen.Pick(r, []string{"+", "a+b", "&=?#;/"}),
		gen.Pick(r, []string{"é", "ß", "ü"}),
		gen.Pick(r, []string{"☃", "€", "世界"}),
		gen.Pick(r, []string{"😀", "𝄞"}),
		gen.Pick(r, []string{"step 1 failed:", "disk", "OK", "~tilde!"}),
	}
	if r.Chance(1, 2) {
		segs = append(segs, "\x00")
	}
	for i := len(segs) - 1; i > 0; i-- {
		j := r.Intn(i + 1)
		segs[i], segs[j] = segs[j], segs[i]
	}
	// the space class stays inside: gRPC-Web carries grpc-message in a trailer block in the body, written
	// and parsed as header lines — a space is not percent-encoded, and optional white space around a field
	// value is not part of it: a message that begins or ends with a space arrives without it (connect-go and
	// grpc-go peers alike; noted in agent-notes/s2.md as a limit of the transport, outside WireLaw)
	for i, sg := range segs {
		if strings.HasPrefix(sg, " ") || strings.HasSuffix(sg, " ") {
			if i == 0 || i == len(segs)-1 {
				segs[i], segs[1] = segs[1], segs[i]
			}
		}
	}
	return strings.Join(segs, "")
}

// c02ClassErrTC: a case of the given stream type whose definition is an error WITH response headers and
// trailers (the shape for which the reference server builds a gRPC / gRPC-Web error response by hand)
// and an error message of every byte class; for the streaming definitions with or without responses
// before the error
func c02ClassErrTC(r *gen.Rand, st string) c02TC {
	var tc c02TC
	for try := 0; ; try++ {
		nResp := 0
		if st != "unary" && st != "clientStream" && r.Bool() {
			nResp = r.Range(1, 2)
		}
		tc = c02GenTC(r, st, 1, nResp, true, true)
		if tc.HasDef && len(tc.Def.Hdrs) > 0 && len(tc.Def.Trls) > 0 && tc.Def.Err != nil || try > 50 {
			break
		}
	}
	tc.LaterDefs = nil
	m := c02ClassMsg(r)
	tc.Def.Err.Msg = &m
	return tc
}

func c02GenData(r *gen.Rand) string {
	// one payload in sixteen is large: the response that echoes it is a single wire message of more
	// than 128 KiB (a compressor's block / window boundary) while the request stays below the
	// server's 200 KB receive limit
	if r.Intn(16) == 0 {
		n := gen.Pick(r, []int{66000, 70000, 90000})
		b := make([]byte, n)
		for i := range b {
			b[i] = byte((i / 61) % 251)
		}
		copy(b, r.Bytes(64))
		return hex.EncodeToString(b)
	}
	switch r.Intn(5) {
	case 0:
		return ""
	case 1:
		return "00ff00ff"
	default:
		return hex.EncodeToString(r.Bytes(r.Range(1, 40)))
	}
}

func c02GenTC(r *gen.Rand, st string, nReq, nResp int, withErr bool, bin bool) c02TC {
	tc := c02TC{St: st, ReqHdrs: c02GenHdrs(r, "x-req", bin), Reqs: []int{}, FdFlag: st == "fullDuplex", HasDef: true}
	for i := 0; i < nReq; i++ {
		tc.Reqs = append(tc.Reqs, 100+i*7+r.Intn(5))
	}
	d := c02Def{Hdrs: c02GenHdrs(r, "x-hdr", bin), Trls: c02GenHdrs(r, "x-trl", bin), Data: []string{}}
	// a trailer may have the same name as a header (possibly in another letter case)
	if len(d.Hdrs) > 0 && r.Chance(1, 3) {
		h := gen.Pick(r, d.Hdrs)
		name := h.N
		if r.Bool() {
			name = strings.ToUpper(name[:3]) + name[3:]
		}
		vals := []string{gen.Pick(r, []string{"from-trailer", "t1", "v1"})}
		if strings.HasSuffix(strings.ToLower(name), "-bin") {
			vals = []string{"dHJs"}
		}
		d.Trls = append(d.Trls, c02Hdr{N: name, V: vals})
	}
	switch st {
	case "unary", "clientStream":
		switch {
		case withErr:
			d.Kind, d.Err = "error", c02GenErr(r)
		case nResp > 0:
			d.Kind, d.Data = "data", []string{c02GenData(r)}
		default:
			d.Kind = "none"
		}
	default:
		d.Kind = "stream"
		for i := 0; i < nResp; i++ {
			d.Data = append(d.Data, c02GenData(r))
		}
		if withErr {
			d.Err = c02GenErr(r)
		}
	}
	tc.Def = d
	if r.Chance(1, 12) {
		tc.HasDef = false
	}
	// a later message may carry a (different) definition of its own; it must be ignored
	if nReq >= 2 && r.Chance(1, 3) {
		ld := c02Def{Hdrs: c02GenHdrs(r, "x-late", false), Trls: []c02Hdr{}, Data: []string{}}
		switch st {
		case "unary", "clientStream":
			if r.Bool() {
				ld.Kind, ld.Data = "data", []string{"6c61746572"}
			} else {
				ld.Kind, ld.Err = "error", c02GenErr(r)
			}
		default:
			ld.Kind = "stream"
			for i := r.Intn(3); i > 0; i-- {
				ld.Data = append(ld.Data, "6c617465")
			}
			if r.Bool() {
				ld.Err = c02GenErr(r)
			}
		}
		tc.LaterDefs = []c02LaterDef{{At: r.Range(1, nReq-1), Def: ld}}
	}
	return tc
}

var c02Sts = []string{"unary", "clientStream", "serverStream", "halfDuplex", "fullDuplex"}

// c02WeakExplicit: an expected response as a suite author could write it by hand for a case whose
// definition has no error: the payloads and the echoed requests, no metadata (response headers and
// trailers and request headers are compared by subsumption, so leaving them out is allowed).  It
// differs from the derived expectation whenever the case sets any header.  wrong: the same with a
// discrepancy no leniency covers (other payload bytes, or an error where none is defined).
func c02WeakExplicit(tc c02TC, wrong bool) *c02Result {
	out := &c02Result{Hdrs: []c02Hdr{}, Trls: []c02Hdr{}, Payloads: []c02Payload{}}
	info := func(reqs []int) *c02Info {
		return &c02Info{Hdrs: []c02Hdr{}, Reqs: append([]int{}, reqs...), Query: []c02Hdr{}}
	}
	hasDef := tc.HasDef && len(tc.Reqs) > 0
	switch tc.St {
	case "unary", "clientStream":
		data := ""
		if hasDef && tc.Def.Kind == "data" && len(tc.Def.Data) > 0 {
			data = tc.Def.Data[0]
		}
		out.Payloads = append(out.Payloads, c02Payload{Data: data, Info: info(tc.Reqs)})
	default:
		if hasDef {
			for i, d := range tc.Def.Data {
				p := c02Payload{Data: d}
				switch {
				case tc.St == "fullDuplex" && i < len(tc.Reqs):
					p.Info = info(tc.Reqs[i : i+1])
				case tc.St != "fullDuplex" && i == 0:
					p.Info = info(tc.Reqs)
				}
				out.Payloads = append(out.Payloads, p)
			}
		}
	}
	if wrong {
		if len(out.Payloads) > 0 {
			out.Payloads[0].Data += "ff"
		} else {
			out.Err = &c02ErrOut{Code: 13, Details: []c02Detail{}}
		}
	}
	return out
}

// c02Unimplemented: the Unimplemented method (unary, one UnimplementedRequest) with the expected
// response the corpus gives for it (error code unimplemented) — or, wrong, another code
func c02Unimplemented(r *gen.Rand, wrong bool) c02TC {
	tc := c02TC{St: "unary", Method: "unimplemented", ReqHdrs: c02GenHdrs(r, "x-req", false), Reqs: []int{100 + r.Intn(50)},
		Def: c02Def{Hdrs: []c02Hdr{}, Trls: []c02Hdr{}, Kind: "none", Data: []string{}}}
	code := 12
	if wrong {
		code = gen.Pick(r, []int{2, 5, 13})
		tc.XFail = true
	}
	tc.Explicit = &c02Result{Hdrs: []c02Hdr{}, Trls: []c02Hdr{}, Payloads: []c02Payload{}, Err: &c02ErrOut{Code: code, Details: []c02Detail{}}}
	return tc
}

// c02Decorate: with some probability turn a generated case into one that names service and method
// itself (the defaults), or that gives its expected response itself (right, or wrong on purpose)
func c02Decorate(r *gen.Rand, tc c02TC) c02TC {
	if r.Chance(1, 5) && tc.Method == "" {
		tc.Method = "explicit"
	}
	noErr := tc.Def.Err == nil && tc.Def.Kind != "error"
	if noErr && len(tc.LaterDefs) == 0 && r.Chance(1, 6) {
		tc.XFail = r.Chance(1, 3)
		tc.Explicit = c02WeakExplicit(tc, tc.XFail)
	}
	return tc
}

// c02GenGetTC: a case of suite VG (reliesOnConnectGet, Connect only): mostly IdempotentUnary with
// use_get_http_method; also cases that do not use GET at all (any stream type — the config cases of
// a GET-supporting implementation exist for every stream type), and the unimplemented method
//
// postGet: also a case that sets use_get_http_method on the plain Unary method, which every client
// POSTs: the expectation lists query parameters, the response none, and the comparison is skipped
// ("only when both sides list any") — not against the reference-mode reference server, which is told
// to expect a GET request line.
func c02GenGetTC(r *gen.Rand, bin bool, postGet bool) c02TC {
	switch r.Intn(10) {
	case 0:
		return c02Decorate(r, c02RandomTC(r, bin, 1))
	case 1:
		return c02Unimplemented(r, false)
	case 2:
		if postGet {
			tc := c02GenTC(r, "unary", 1, r.Intn(2), r.Chance(2, 5), bin)
			tc.LaterDefs = nil
			tc.Get = true
			return tc
		}
	}
	tc := c02GenTC(r, "unary", 1, r.Intn(2), r.Chance(2, 5), bin)
	tc.LaterDefs = nil
	tc.Method, tc.Get = "idempotent", true
	if r.Chance(1, 8) {
		tc.XFail = tc.Def.Err == nil && tc.Def.Kind != "error" && r.Bool()
		if tc.Def.Err == nil && tc.Def.Kind != "error" {
			tc.Explicit = c02WeakExplicit(tc, tc.XFail)
			if !tc.XFail && r.Bool() {
				// the author lists the query parameters too
				tc.Explicit.Payloads[0].Info.Query = []c02Hdr{{N: "connect", V: []string{"v1"}}}
			}
		}
	}
	return tc
}

func c02RandomTC(r *gen.Rand, bin bool, minReq int) c02TC {
	st := gen.Pick(r, c02Sts)
	nReq := 1
	switch st {
	case "clientStream", "halfDuplex", "fullDuplex":
		// an empty request stream is a request stream (minReq = 0); in mode client it is the shape
		// of known finding F27 and has its own op (e2e-f27)
		nReq = r.Range(minReq, 4)
	}
	nResp, withErr := r.Intn(5), r.Chance(2, 5)
	if st == "fullDuplex" && nReq >= 2 && nResp == 0 && withErr {
		nResp = 1 // the shape of known finding F07 has its own op (e2e-f07)
	}
	return c02GenTC(r, st, nReq, nResp, withErr, bin)
}

func runC02(c *gen.Ctx) error {
	r := c.R
	// (1) the generator against the model: every stream type x N requests (0..4) x M responses
	// (0..4) x error or not: exhaustive over the shape, random content
	for _, st := range c02Sts {
		for n := 0; n <= 4; n++ {
			for m := 0; m <= 4; m++ {
				for _, e := range []bool{false, true} {
					tc := c02GenTC(r, st, n, m, e, true)
					tc.Name = "x"
					c.Do("expected", tc)
					c.E.Count("expected-shape:" + st)
				}
			}
		}
	}
	nRand := 400
	if c.Thorough() {
		nRand = 20000
	}
	for i := 0; i < nRand; i++ {
		tc := c02GenTC(r, gen.Pick(r, c02Sts), r.Intn(6), r.Intn(6), r.Chance(2, 5), true)
		tc.Name = "x"
		if r.Chance(1, 10) {
			tc.FdFlag = !tc.FdFlag // ill-formed on purpose: generator must still not crash
		}
		c.Do("expected", tc)
	}
	// everything below that did not exist before the Connect GET / unimplemented / explicit-expectation
	// extension draws from a generator of its own, so that the older streams keep their inputs per seed
	rg := gen.NewRand(c.Seed*0x9E3779B97F4A7C15 + 0xC02)
	// ... and so does the full-expectation extension (explicit error expectations with details, HTTP
	// status, other allowed error codes)
	rx := gen.NewRand(c.Seed*0x9E3779B97F4A7C15 + 0xC02E)
	// (1b) the same function on the axes it reads besides the shape: use_get_http_method under every
	// stream type, the permutation's codec (also unspecified / the deprecated text codec: "anything
	// but json is proto"), service and method given, IdempotentUnary, Unimplemented (no response
	// definition: rejected unless the suite gives the expected response), explicit expected
	// responses (must come back untouched)
	nGet := 400
	if c.Thorough() {
		nGet = 8000
	}
	for i := 0; i < nGet; i++ {
		st := gen.Pick(rg, c02Sts)
		tc := c02GenTC(rg, st, rg.Intn(4), rg.Intn(4), rg.Chance(2, 5), true)
		tc.Name = "x"
		tc.Get, tc.Codec = rg.Chance(2, 3), rg.Intn(4)
		switch rg.Intn(7) {
		case 0:
			tc.Method = "explicit"
		case 1, 2:
			if st == "unary" || st == "clientStream" {
				tc.Method = "idempotent"
			}
		case 3:
			tc.Method, tc.HasDef, tc.LaterDefs = "unimplemented", false, nil
		}
		if rg.Chance(1, 5) {
			if tc.Def.Err == nil && tc.Def.Kind != "error" && tc.Method != "unimplemented" {
				tc.Explicit = c02WeakExplicit(tc, rg.Chance(1, 3))
				if tc.Get && rg.Bool() && len(tc.Explicit.Payloads) > 0 && tc.Explicit.Payloads[0].Info != nil {
					tc.Explicit.Payloads[0].Info.Query = []c02Hdr{{N: "encoding", V: []string{"json"}}, {N: "x", V: []string{}}}
				}
			} else {
				id := rg.Intn(9)
				tc.Explicit = &c02Result{Hdrs: c02GenHdrs(rg, "x-e", false), Trls: []c02Hdr{}, Payloads: []c02Payload{},
					Err: &c02ErrOut{Code: rg.Range(1, 16), Details: []c02Detail{{Other: &id}, {Info: &c02Info{Hdrs: []c02Hdr{}, Reqs: []int{7}, Query: []c02Hdr{}}}}}}
			}
		}
		c.Do("expected", tc)
		c.E.Count("expected-axes:" + map[bool]string{true: "get", false: "post"}[tc.Get] + ":" + tc.Method)
	}
	// (1c) the same through the library (parseTestSuites, expandCases, populateExpectedResponses):
	// derived and explicit expectations side by side in one suite, plus the GET suite — what every
	// permutation ends up with must be what the model says for that permutation's codec
	nLib := 6
	if c.Thorough() {
		nLib = 60
	}
	for k := 0; k < nLib; k++ {
		in := c02LibIn{Mode: gen.Pick(rg, []string{"client", "server", "both"}), Versions: []int{1, 2}, Protos: []int{1, 2, 3}, Codecs: []int{1, 2}, Comps: []int{1, 2}}
		for i := 0; i < 10; i++ {
			in.Cases = append(in.Cases, c02Decorate(rg, c02RandomTC(rg, true, 0)))
		}
		in.Cases = append(in.Cases, c02Unimplemented(rg, rg.Chance(1, 3)))
		// explicit expectations on error definitions (details, other allowed codes, an HTTP status)
		for i := 0; i < 4; i++ {
			tc, ok := c02FullExplicit(rx, c02RandomTC(rx, true, 0))
			if ok && rx.Bool() {
				stc := gen.Pick(rx, []int{200, 400, 409, 500})
				tc.Explicit.Status = &stc
			}
			tc.XFail = false
			in.Cases = append(in.Cases, tc)
		}
		for i := 0; i < 6; i++ {
			in.GetCases = append(in.GetCases, c02GenGetTC(rg, true, true))
		}
		if rg.Bool() {
			in.GetComps = []int{1}
		}
		if k%3 == 2 {
			// one case nothing can be derived for: the whole load must fail
			bad := c02Unimplemented(rg, false)
			bad.Explicit = nil
			if rg.Bool() {
				in.Cases = append(in.Cases, bad)
			} else {
				in.GetCases = append(in.GetCases, bad)
			}
		}
		c.Do("libexpected", in)
	}
	// (1d) the full expectation: explicit expected responses that restate an error definition with its
	// details (or depart from it), an http_status_code, other allowed error codes (with and without an
	// explicit expectation) — through populateExpectedResponse alone (op expected: kept / derived,
	// status and codes where they were) and followed by the real assert against a client result whose
	// code, details, payload and HTTP status vary (op assertx: the verdict is `agreeX`'s).  A generator of
	// its own again.
	nX := 500
	if c.Thorough() {
		nX = 12000
	}
	for i := 0; i < nX; i++ {
		st := gen.Pick(rx, c02Sts)
		tc := c02GenTC(rx, st, rx.Intn(4), rx.Intn(4), rx.Chance(3, 5), true)
		tc.Name = "x"
		tc.LaterDefs = nil
		if rx.Chance(1, 8) {
			tc.Method, tc.HasDef = "unimplemented", false
			tc.Explicit = &c02Result{Hdrs: []c02Hdr{}, Trls: []c02Hdr{}, Payloads: []c02Payload{}, Err: &c02ErrOut{Code: gen.Pick(rx, []int{12, 12, 13}), Details: []c02Detail{}}}
			tc.OtherCodes = [][]int{nil, {12}, {2, 13}}[rx.Intn(3)]
		} else if rx.Chance(3, 4) {
			tc, _ = c02FullExplicit(rx, tc)
		} else if rx.Bool() {
			tc.OtherCodes = []int{rx.Range(1, 16), rx.Range(1, 16)}
		}
		tc.XFail = false
		if tc.Explicit != nil && rx.Chance(1, 2) {
			stc := gen.Pick(rx, []int{200, 400, 409, 500})
			tc.Explicit.Status = &stc
		}
		if i%2 == 0 {
			c.Do("expected", tc)
		}
		c.Do("assertx", c02AssertIn{TC: tc, Actual: c02ActualFor(rx, tc)})
		c.E.Count("assertx:" + map[bool]string{true: "explicit", false: "derived"}[tc.Explicit != nil])
	}
	// (2) loading parseable but odd suites never crashes
	for _, in := range c02LoadCases(r) {
		c.Do("load", in)
	}
	// (2b) ... and is rejected exactly when the model of the validation says so: suites described by
	// shape, one departure (or two) from a loadable input per validation branch
	for _, in := range c02LoadShapes(rg, c.Thorough()) {
		c.Do("load", in)
		c.E.Count("load-shape:" + in.Note)
	}
	// ... and the whole matrix {raw request, raw response, explicit expectation} x suite mode x run mode
	// (shared with C07, op rawload there)
	for _, in := range c07RawMatrix() {
		c.Do("load", in)
	}
	// (2c) populateExpectedResponse called directly: stream types by number (unspecified, unknown) and
	// request messages that no suite file can express (unregistered type, bytes that are no message)
	for st := 0; st <= 7; st++ {
		for _, kinds := range [][]string{{}, {"unary"}, {"idempotent"}, {"clientStream"}, {"serverStream"}, {"bidi"}, {"unimplemented"}, {"other"},
			{"unknown"}, {"garbage"}, {"unary", "garbage"}, {"bidi", "unknown"}, {"garbage", "unary"}} {
			for _, ex := range []bool{false, true} {
				c.Do("populate", c02PopIn{St: st, Msgs: kinds, Explicit: ex})
			}
		}
	}
	// (3) end to end through the real Run
	nRuns, perRun := 14, 12
	if c.Thorough() {
		nRuns, perRun = 84, 14
	}
	allComps := []int{1, 2, 3, 4, 5, 6}
	var ins []any
	for k := 0; k < nRuns; k++ {
		in := c02E2EIn{Mode: "client", Versions: []int{1, 2}, Protos: []int{1, 2, 3}, Codecs: []int{1, 2}, Comps: []int{1, allComps[1+r.Intn(5)]}}
		switch k % 4 {
		case 2:
			in.Mode = "server"
		case 3:
			in.Mode = "both"
		}
		// the stand-alone gRPC reference peers (what testing/grpc-impls-config.yaml declares for
		// them: HTTP/2, gRPC, proto, no TLS; identity and gzip)
		if k%7 == 5 || k%7 == 6 {
			in.Mode = map[int]string{5: "grpcserver", 6: "grpcclient"}[k%7]
			in.Versions, in.Protos, in.Codecs, in.Comps = []int{2}, []int{2}, []int{1}, []int{1, 2}
		}
		if c.Thorough() && k%5 == 4 && in.Mode != "grpcserver" && in.Mode != "grpcclient" {
			// (the stand-alone gRPC peers link identity and gzip only: testing/grpc-impls-config.yaml)
			in.Comps = allComps
		}
		// every third run with the runner's --trace (k = 1 client, 4 client, 7 both, 10 server, 13 grpcclient ...)
		in.Trace = k%3 == 1
		// the first run carries the fixed shape family, the others random cases
		if k == 0 {
			for _, sh := range [][3]int{{1, 0, 1}, {2, 0, 0}, {3, 0, 0}, {1, 3, 0}, {2, 3, 1}, {3, 1, 0}, {3, 3, 1}, {2, 1, 1}} {
				in.Cases = append(in.Cases, c02GenTC(r, "fullDuplex", sh[0], sh[1], sh[2] == 1, false))
			}
			in.Cases = append(in.Cases, c02GenTC(r, "halfDuplex", 3, 0, true, false), c02GenTC(r, "clientStream", 3, 0, true, false), c02GenTC(r, "unary", 1, 1, false, false))
			// every stream type: an error with response headers and trailers and a message of every byte
			// class (mode client: the reference-mode reference server and the grpc-go server, all protocols)
			for _, st := range c02Sts {
				in.Cases = append(in.Cases, c02ClassErrTC(rx, st))
			}
		} else {
			minReq := 0
			if in.Mode == "client" || in.Mode == "grpcclient" {
				minReq = 1
			}
			for i := 0; i < perRun; i++ {
				in.Cases = append(in.Cases, c02Decorate(rg, c02RandomTC(r, true, minReq)))
			}
			// in every run: a unary error with response headers and a message of every byte class (the
			// reference server writes this response by hand under gRPC / gRPC-Web), and the same for one
			// more stream type in turn
			in.Cases = append(in.Cases, c02ClassErrTC(rx, "unary"), c02ClassErrTC(rx, c02Sts[1+k%4]))
			// cases that state their expected response in full — an error definition restated with its
			// details and the request info, or one departure from it; other allowed error codes that do /
			// do not cover a wrong code: must pass / FAIL as `agreeX` says
			for i := 0; i < 2; i++ {
				if tc, ok := c02FullExplicit(rx, c02GenTC(rx, gen.Pick(rx, c02Sts[:]), 1, rx.Intn(3)*rx.Intn(2), true, true)); ok {
					tc.LaterDefs = nil
					in.Cases = append(in.Cases, tc)
				}
			}
			// the unimplemented method (every peer, the gRPC ones too), now and then with a wrong expectation
			in.Cases = append(in.Cases, c02Unimplemented(rg, k%5 == 3))
			if in.Mode != "client" && in.Mode != "grpcclient" && k < 8 {
				// the empty request stream of every stream type, always
				in.Cases = append(in.Cases, c02GenTC(r, "clientStream", 0, 0, false, false), c02GenTC(r, "halfDuplex", 0, 0, false, false), c02GenTC(r, "fullDuplex", 0, 0, false, false))
			}
		}
		// suite VG next to suite V in the runs whose peers speak Connect: GET against the
		// reference-mode reference server only without compression (known finding F31, below)
		if in.Mode == "client" || in.Mode == "server" || in.Mode == "both" {
			nGetCases := 5
			if k == 0 {
				nGetCases = 8
			}
			for i := 0; i < nGetCases; i++ {
				in.GetCases = append(in.GetCases, c02GenGetTC(rg, true, in.Mode == "server"))
			}
			if in.Mode != "server" {
				in.GetComps = []int{1}
			} else {
				// always: use_get_http_method on the plain Unary method (POSTed: nothing to compare the
				// expected query parameters with)
				tc := c02GenTC(rg, "unary", 1, rg.Intn(2), rg.Chance(2, 5), true)
				tc.LaterDefs = nil
				tc.Get = true
				in.GetCases = append(in.GetCases, tc)
			}
		}
		ins = append(ins, in)
	}
	opsOf := make([]string, len(ins))
	for i := range opsOf {
		opsOf[i] = "e2e"
	}
	// known finding F07, kept separate so that its symptom cannot hide anything else
	f07 := c02E2EIn{Mode: "client", Versions: []int{1, 2}, Protos: []int{1, 2, 3}, Codecs: []int{1}, Comps: []int{1}}
	for n := 2; n <= 3; n++ {
		tc := c02GenTC(r, "fullDuplex", n, 0, true, false)
		tc.HasDef = true
		f07.Cases = append(f07.Cases, tc)
	}
	// known finding F27: empty request streams in mode client (a client that is not the tracing
	// reference-mode client sends END_STREAM on the HEADERS frame; grpc-go 1.70's own HTTP/2 server
	// never delivers the end of the request stream to the handler): only that symptom may appear
	f27 := c02E2EIn{Mode: "client", Versions: []int{1, 2}, Protos: []int{1, 2, 3}, Codecs: []int{1}, Comps: []int{1}, NoRerun: true}
	for _, st := range []string{"clientStream", "halfDuplex", "fullDuplex"} {
		f27.Cases = append(f27.Cases, c02GenTC(r, st, 0, 0, false, false))
	}
	// known finding F31: a GET call is never compressed by the reference client (connect-go compresses
	// a GET only to make an over-long URL fit), while the reference server in reference mode insists on
	// the permutation's compression: only that symptom may appear, and only on the GET calls
	f31 := c02E2EIn{Mode: gen.Pick(rg, []string{"client", "both"}), Versions: []int{1, 2}, Protos: []int{1}, Codecs: []int{1, 2}, Comps: []int{1, allComps[1+rg.Intn(5)]}, NoRerun: true}
	for i := 0; i < 3; i++ {
		tc := c02GenTC(rg, "unary", 1, rg.Intn(2), rg.Chance(2, 5), false)
		tc.LaterDefs = nil
		tc.Method, tc.Get = "idempotent", true
		f31.GetCases = append(f31.GetCases, tc)
	}
	post := c02GenTC(rg, "unary", 1, 1, false, false)
	post.LaterDefs = nil
	f31.GetCases = append(f31.GetCases, post)
	ins = append(ins, f07, f27, f31)
	opsOf = append(opsOf, "e2e-f07", "e2e-f27", "e2e-f31")
	// known finding F34: an error message that begins / ends with a SPACE loses it under gRPC-Web (the
	// trailer block travels in the body as header lines; 0x20 is not percent-encoded in grpc-message and
	// optional white space around a field value is dropped on decoding): one fixed scenario per run —
	// the message with the boundary spaces next to controls (the same text without them; boundary TABS,
	// which are percent-encoded) on an immediate unary error and on a server stream that fails after a
	// response; only that symptom may appear, only on gRPC-Web permutations of the boundary-space cases.
	// quick: mode client (wrapped reference client: the message comparison fails); thorough also mode
	// both (reference-mode client: its wire check reports grpc-message != grpc-status-details-bin)
	f34Modes := []string{"client"}
	if c.Thorough() {
		f34Modes = append(f34Modes, "both")
	}
	for _, mode := range f34Modes {
		ins = append(ins, c02F34In(mode))
		opsOf = append(opsOf, "e2e-f34")
	}
	c.DoParallelOps(opsOf, ins, 4)
	return nil
}

// c02F34Msg is the message of known finding F34 (plain ASCII: Go's %q of it is the text in quotes)
const c02F34Msg = " lead and trail "

func c02F34In(mode string) c02E2EIn {
	mk := func(st string, nResp int, msg string) c02TC {
		m := msg
		d := c02Def{Hdrs: []c02Hdr{{N: "x-hdr-f34", V: []string{"v1"}}}, Trls: []c02Hdr{{N: "x-trl-f34", V: []string{"t1"}}}, Data: []string{},
			Err: &c02Err{Code: 9, Msg: &m, Details: []int{}}}
		if st == "unary" {
			d.Kind = "error"
		} else {
			d.Kind = "stream"
			for i := 0; i < nResp; i++ {
				d.Data = append(d.Data, "aa")
			}
		}
		return c02TC{St: st, ReqHdrs: []c02Hdr{}, Reqs: []int{101}, HasDef: true, Def: d}
	}
	in := c02E2EIn{Mode: mode, Versions: []int{1, 2}, Protos: []int{1, 2, 3}, Codecs: []int{1}, Comps: []int{1}, NoRerun: true}
	for _, msg := range []string{c02F34Msg, strings.TrimSpace(c02F34Msg), "\tlead and trail\t"} {
		in.Cases = append(in.Cases, mk("unary", 0, msg), mk("serverStream", 1, msg))
	}
	return in
}

// ---- generator of suite shapes for the load op ----

var c02LKinds = []string{"unary", "idempotent", "clientStream", "serverStream", "bidi", "unimplemented", "other"}

// a case the loader accepts: the message kind of its stream type, no directives
func c02LGoodCase(r *gen.Rand, name string) c02LCase {
	st := r.Range(1, 5)
	kind := map[int]string{1: "unary", 2: "clientStream", 3: "serverStream", 4: "bidi", 5: "bidi"}[st]
	c := c02LCase{Name: name, St: st, Msgs: []string{}, Expand: []string{}}
	n := 1
	if st == 2 || st >= 4 {
		n = r.Intn(3)
	}
	for i := 0; i < n; i++ {
		c.Msgs = append(c.Msgs, kind)
	}
	if r.Chance(1, 4) {
		c.Service, c.Method = true, true
	}
	return c
}

// runMode: the mode of the run (0, 1 client, 2 server): the suite is for every mode or for that one
func c02LGoodSuite(r *gen.Rand, name string, runMode int) c02LSuite {
	s := c02LSuite{Name: name, Mode: gen.Pick(r, []int{0, 0, runMode}), Protos: gen.Pick(r, [][]int{{}, {}, {2, 1}, {3}}),
		Codecs: gen.Pick(r, [][]int{{}, {}, {1}, {2}, {1, 2}})}
	for i := r.Range(1, 3); i > 0; i-- {
		s.Cases = append(s.Cases, c02LGoodCase(r, fmt.Sprintf("c%d", i)))
	}
	return s
}

// the single departures from a loadable input, one per validation branch of parseTestSuites /
// expandRequestData / newTestCaseLibrary / expandSuite / expandCases / populateExpectedResponse
var c02LDefects = []struct {
	name  string
	apply func(r *gen.Rand, ss []c02LSuite) []c02LSuite
}{
	{"none", func(r *gen.Rand, ss []c02LSuite) []c02LSuite { return ss }},
	{"stream-type-unspecified", func(r *gen.Rand, ss []c02LSuite) []c02LSuite { ss[0].Cases[0].St = 0; return ss }},
	{"stream-type-unknown", func(r *gen.Rand, ss []c02LSuite) []c02LSuite { ss[0].Cases[0].St = gen.Pick(r, []int{6, 7, 99}); return ss }},
	{"all-stream-types-unknown", func(r *gen.Rand, ss []c02LSuite) []c02LSuite {
		for i := range ss {
			for j := range ss[i].Cases {
				ss[i].Cases[j].St = 6 + j
			}
		}
		return ss
	}},
	{"case-no-name", func(r *gen.Rand, ss []c02LSuite) []c02LSuite { ss[0].Cases[len(ss[0].Cases)-1].Name = ""; return ss }},
	{"service-without-method", func(r *gen.Rand, ss []c02LSuite) []c02LSuite {
		ss[0].Cases[0].Service, ss[0].Cases[0].Method = true, false
		return ss
	}},
	{"method-without-service", func(r *gen.Rand, ss []c02LSuite) []c02LSuite {
		ss[0].Cases[0].Service, ss[0].Cases[0].Method = false, true
		return ss
	}},
	{"duplicate-case-name", func(r *gen.Rand, ss []c02LSuite) []c02LSuite {
		c := c02LGoodCase(r, ss[0].Cases[0].Name) // possibly of another stream type: the name alone counts
		ss[0].Cases = append(ss[0].Cases, c)
		return ss
	}},
	{"duplicate-name-not-runnable", func(r *gen.Rand, ss []c02LSuite) []c02LSuite {
		c := c02LGoodCase(r, ss[0].Cases[0].Name)
		c.St = 9 // never expanded: no clash
		ss[0].Cases = append(ss[0].Cases, c)
		return ss
	}},
	{"message-of-other-family", func(r *gen.Rand, ss []c02LSuite) []c02LSuite {
		c := &ss[0].Cases[0]
		if c.St <= 2 {
			c.Msgs = []string{gen.Pick(r, []string{"serverStream", "bidi"})}
		} else {
			c.Msgs = []string{gen.Pick(r, []string{"unary", "idempotent", "clientStream"})}
		}
		return ss
	}},
	{"message-of-same-family-other-method", func(r *gen.Rand, ss []c02LSuite) []c02LSuite {
		c := &ss[0].Cases[0] // accepted: only the family of the first message is looked at
		if c.St <= 2 {
			c.Msgs = []string{gen.Pick(r, []string{"unary", "idempotent", "clientStream"})}
		} else {
			c.Msgs = []string{gen.Pick(r, []string{"serverStream", "bidi"})}
		}
		return ss
	}},
	{"unimplemented-request", func(r *gen.Rand, ss []c02LSuite) []c02LSuite { ss[0].Cases[0].Msgs = []string{"unimplemented"}; return ss }},
	{"non-request-message", func(r *gen.Rand, ss []c02LSuite) []c02LSuite { ss[0].Cases[0].Msgs = []string{"other"}; return ss }},
	{"later-message-odd", func(r *gen.Rand, ss []c02LSuite) []c02LSuite {
		c := &ss[0].Cases[0] // accepted: later messages are not looked at
		if len(c.Msgs) == 0 {
			c.Msgs = []string{map[bool]string{true: "unary", false: "bidi"}[c.St <= 2]}
		}
		c.Msgs = append(c.Msgs, gen.Pick(r, []string{"other", "unimplemented", "unary", "bidi"}))
		return ss
	}},
	{"explicit-covers-odd-message", func(r *gen.Rand, ss []c02LSuite) []c02LSuite {
		ss[0].Cases[0].Msgs, ss[0].Cases[0].Explicit = []string{gen.Pick(r, []string{"other", "unimplemented"})}, true
		return ss
	}},
	{"raw-request", func(r *gen.Rand, ss []c02LSuite) []c02LSuite { ss[0].Cases[0].RawRequest = true; return ss }},
	{"raw-request-server-suite", func(r *gen.Rand, ss []c02LSuite) []c02LSuite {
		ss[0].Cases[0].RawRequest, ss[0].Mode = true, 2
		return ss
	}},
	{"raw-response", func(r *gen.Rand, ss []c02LSuite) []c02LSuite {
		c := &ss[0].Cases[0]
		if len(c.Msgs) == 0 {
			c.Msgs = []string{map[bool]string{true: "clientStream", false: "bidi"}[c.St <= 2]}
		}
		c.RawResponse, c.Explicit = true, r.Bool()
		return ss
	}},
	{"raw-response-client-suite", func(r *gen.Rand, ss []c02LSuite) []c02LSuite {
		c := &ss[0].Cases[0]
		if len(c.Msgs) == 0 {
			c.Msgs = []string{map[bool]string{true: "clientStream", false: "bidi"}[c.St <= 2]}
		}
		c.RawResponse, c.Explicit, ss[0].Mode = true, r.Chance(2, 3), 1
		return ss
	}},
	{"raw-response-flag-without-definer", func(r *gen.Rand, ss []c02LSuite) []c02LSuite {
		ss[0].Cases[0].Msgs, ss[0].Cases[0].RawResponse, ss[0].Cases[0].Explicit = []string{"other"}, true, true
		return ss
	}},
	{"expand", func(r *gen.Rand, ss []c02LSuite) []c02LSuite {
		c := &ss[0].Cases[0]
		if len(c.Msgs) == 0 {
			c.Msgs = []string{map[bool]string{true: "clientStream", false: "bidi"}[c.St <= 2]}
		}
		ss[0].Codecs = gen.Pick(r, [][]int{{1}, {1}, {}, {2}, {1, 2}, {2, 1}, {1, 1}})
		n := r.Range(1, len(c.Msgs)+1)
		for i := 0; i < n; i++ {
			c.Expand = append(c.Expand, gen.Pick(r, []string{"absent", "fits", "fits", "misfit"}))
		}
		return ss
	}},
	{"expand-more-than-messages", func(r *gen.Rand, ss []c02LSuite) []c02LSuite {
		c := &ss[0].Cases[0]
		ss[0].Codecs = []int{1}
		for i := 0; i <= len(c.Msgs); i++ {
			c.Expand = append(c.Expand, gen.Pick(r, []string{"absent", "fits"}))
		}
		return ss
	}},
	{"expand-on-message-without-data", func(r *gen.Rand, ss []c02LSuite) []c02LSuite {
		c := &ss[0].Cases[0]
		c.Msgs, c.Explicit = []string{gen.Pick(r, []string{"other", "unimplemented"})}, true
		ss[0].Codecs = []int{1}
		c.Expand = []string{gen.Pick(r, []string{"absent", "fits", "misfit"})}
		return ss
	}},
	{"suite-no-name", func(r *gen.Rand, ss []c02LSuite) []c02LSuite { ss[len(ss)-1].Name = ""; return ss }},
	{"suite-no-cases", func(r *gen.Rand, ss []c02LSuite) []c02LSuite { ss[len(ss)-1].Cases = nil; return ss }},
	{"duplicate-suite-name", func(r *gen.Rand, ss []c02LSuite) []c02LSuite {
		d := c02LGoodSuite(r, ss[0].Name, r.Intn(3)) // a second file: also when it is for another mode
		return append(ss, d)
	}},
	{"duplicate-suite-name-client-only", func(r *gen.Rand, ss []c02LSuite) []c02LSuite {
		d := c02LGoodSuite(r, ss[0].Name, 1) // skipped unless the run is in client mode: still a duplicate
		d.Mode = 1
		return append(ss, d)
	}},
	{"duplicate-suite-name-server-only", func(r *gen.Rand, ss []c02LSuite) []c02LSuite {
		d := c02LGoodSuite(r, ss[0].Name, 2)
		d.Mode = 2
		return append(ss, d)
	}},
	{"other-mode-only", func(r *gen.Rand, ss []c02LSuite) []c02LSuite {
		for i := range ss {
			ss[i].Mode = 1 + r.Intn(2) // against mode unspecified / the other one: "no test cases apply"
		}
		return ss
	}},
	{"certs-without-tls", func(r *gen.Rand, ss []c02LSuite) []c02LSuite { ss[0].Certs = true; return ss }},
	{"tls", func(r *gen.Rand, ss []c02LSuite) []c02LSuite { ss[0].Tls, ss[0].Certs = true, r.Bool(); return ss }},
	{"get", func(r *gen.Rand, ss []c02LSuite) []c02LSuite {
		ss[0].Get = true
		if r.Chance(2, 3) {
			ss[0].Protos = []int{1}
		}
		return ss
	}},
	{"get-with-connect-among-others", func(r *gen.Rand, ss []c02LSuite) []c02LSuite {
		ss[0].Get, ss[0].Protos = true, gen.Pick(r, [][]int{{1, 2}, {3, 1}, {}, {2}})
		return ss
	}},
	{"connect-version-mode", func(r *gen.Rand, ss []c02LSuite) []c02LSuite {
		ss[0].Cvm = 1 + r.Intn(2)
		if r.Bool() {
			ss[0].Protos = []int{1}
		}
		return ss
	}},
	{"codecs-not-configured", func(r *gen.Rand, ss []c02LSuite) []c02LSuite { ss[0].Codecs = []int{3}; return ss }},
}

func c02LoadShapes(r *gen.Rand, thorough bool) []c02LoadIn {
	var out []c02LoadIn
	base := func(runMode int) []c02LSuite {
		ss := []c02LSuite{c02LGoodSuite(r, "A", runMode)}
		if r.Chance(1, 3) {
			ss = append(ss, c02LGoodSuite(r, "B", r.Intn(3)))
		}
		return ss
	}
	modes := []string{"", "client", "server"}
	reps := 3
	if thorough {
		reps = 40
	}
	// every single defect, under every run mode
	for _, d := range c02LDefects {
		for k := 0; k < reps; k++ {
			out = append(out, c02LoadIn{Mode: modes[k%3], Note: d.name, Shapes: d.apply(r, base(k%3))})
		}
	}
	// pairs of defects (which error wins is not determined; that it is one is)
	n := 60
	if thorough {
		n = 3000
	}
	for k := 0; k < n; k++ {
		d1, d2 := gen.Pick(r, c02LDefects), gen.Pick(r, c02LDefects)
		if d1.name == "suite-no-cases" {
			d1, d2 = d2, d1 // the others look at the first case
		}
		m := r.Intn(3)
		out = append(out, c02LoadIn{Mode: modes[m], Note: d1.name + "+" + d2.name, Shapes: d2.apply(r, d1.apply(r, base(m)))})
	}
	return out
}

// suites that parse but have shapes the expansion cannot handle, or sit at its edges
func c02LoadCases(r *gen.Rand) []c02LoadIn {
	mk := func(note string, mutate func(s *conformancev1.TestSuite)) c02LoadIn {
		tc := c02GenTC(r, "fullDuplex", 2, 2, false, false)
		tc.Name = "a"
		s := &conformancev1.TestSuite{Name: "L", TestCases: []*conformancev1.TestCase{c02TestCase(tc)}}
		mutate(s)
		b, _ := protojson.Marshal(s)
		return c02LoadIn{Suite: string(b), Mode: gen.Pick(r, []string{"client", "server", ""}), Note: note}
	}
	var out []c02LoadIn
	for n := 0; n <= 3; n++ {
		for m := 0; m <= 4; m++ {
			for _, st := range []string{"fullDuplex", "halfDuplex", "serverStream", "clientStream", "unary"} {
				n, m, st := n, m, st
				out = append(out, mk(fmt.Sprintf("%s N=%d M=%d", st, n, m), func(s *conformancev1.TestSuite) {
					tc := c02GenTC(r, st, n, m, r.Bool(), false)
					tc.Name = "a"
					s.TestCases = []*conformancev1.TestCase{c02TestCase(tc)}
				}))
			}
		}
	}
	out = append(out,
		mk("no stream type", func(s *conformancev1.TestSuite) { s.TestCases[0].Request.StreamType = 0 }),
		mk("no test name", func(s *conformancev1.TestSuite) { s.TestCases[0].Request.TestName = "" }),
		mk("duplicate names", func(s *conformancev1.TestSuite) {
			s.TestCases = append(s.TestCases, proto.Clone(s.TestCases[0]).(*conformancev1.TestCase))
		}),
		mk("service without method", func(s *conformancev1.TestSuite) { svc := "x.Y"; s.TestCases[0].Request.Service = &svc }),
		mk("method without service", func(s *conformancev1.TestSuite) { m := "Z"; s.TestCases[0].Request.Method = &m }),
		mk("wrong message type", func(s *conformancev1.TestSuite) {
			a, _ := anypb.New(&conformancev1.UnaryRequest{})
			s.TestCases[0].Request.RequestMessages = []*anypb.Any{a}
		}),
		mk("non-request message type", func(s *conformancev1.TestSuite) {
			a, _ := anypb.New(&conformancev1.Header{Name: "x"})
			s.TestCases[0].Request.RequestMessages = []*anypb.Any{a}
		}),
		// (these two end up as an EMPTY file: JSON cannot render such an Any — protojson.Marshal fails;
		// the messages themselves go through populateExpectedResponse in op populate)
		mk("unknown any type", func(s *conformancev1.TestSuite) {
			s.TestCases[0].Request.RequestMessages = []*anypb.Any{{TypeUrl: "type.googleapis.com/nope.Nope", Value: []byte{1, 2}}}
		}),
		mk("garbage any value", func(s *conformancev1.TestSuite) {
			s.TestCases[0].Request.RequestMessages[0].Value = []byte{0xff, 0xff, 0xff}
		}),
		mk("expand directives > messages", func(s *conformancev1.TestSuite) {
			s.RelevantCodecs = []conformancev1.Codec{conformancev1.Codec_CODEC_PROTO}
			s.TestCases[0].ExpandRequests = []*conformancev1.TestCase_ExpandedSize{{SizeRelativeToLimit: proto.Int32(0)}, {SizeRelativeToLimit: proto.Int32(1)}, {SizeRelativeToLimit: proto.Int32(2)}}
		}),
		mk("expand far below size", func(s *conformancev1.TestSuite) {
			s.RelevantCodecs = []conformancev1.Codec{conformancev1.Codec_CODEC_PROTO}
			s.TestCases[0].ExpandRequests = []*conformancev1.TestCase_ExpandedSize{{SizeRelativeToLimit: proto.Int32(-204000)}}
		}),
		mk("empty suite", func(s *conformancev1.TestSuite) { s.TestCases = nil }),
		mk("no suite name", func(s *conformancev1.TestSuite) { s.Name = "" }),
		mk("explicit expected response", func(s *conformancev1.TestSuite) {
			s.TestCases[0].ExpectedResponse = &conformancev1.ClientResponseResult{}
		}),
	)
	return out
}
