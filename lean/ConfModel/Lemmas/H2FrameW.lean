/-
Helper lemmas for C15: a `Machine` that simulates a lawful one through an abstraction function
emits the same outputs; the fixed-width frame machine (`Model/H2FrameW.lean`) simulates the `Nat`
frame machine — no counter wraps on a reachable state.
-/
import ConfModel.Model.H2FrameW
import ConfModel.Lemmas.H2Frame
set_option linter.unusedSimpArgs false
set_option linter.unusedVariables false
namespace ConfModel.H2
namespace Machine
variable {S SW O : Type}

/-- branch-by-branch correspondence of two machines through `abs`, on states satisfying `Inv` -/
structure Sim (mW : Machine SW O) (m : Machine S O) (abs : SW → S) (Inv : S → Prop) : Prop where
  stopped : ∀ s, mW.stopped s = m.stopped (abs s)
  need : ∀ s, Inv (abs s) → m.stopped (abs s) = false → mW.need s = m.need (abs s)
  absorb : ∀ s d, Inv (abs s) → m.stopped (abs s) = false → d.length < m.need (abs s) →
    abs (mW.absorb s d) = m.absorb (abs s) d
  complete : ∀ s d, Inv (abs s) → m.stopped (abs s) = false → d.length = m.need (abs s) →
    abs (mW.complete s d).1 = (m.complete (abs s) d).1 ∧ (mW.complete s d).2 = (m.complete (abs s) d).2

variable {mW : Machine SW O} {m : Machine S O} {abs : SW → S} {Inv : S → Prop}

theorem trace_sim (law : Lawful m Inv) (sim : Sim mW m abs Inv) : ∀ (fuel : Nat) (s : SW) (d : Bytes), Inv (abs s) →
    (abs (mW.trace fuel s d).1, (mW.trace fuel s d).2) = m.trace fuel (abs s) d
  | 0, s, d, _ => rfl
  | fuel+1, s, d, hi => by
    rw [trace_unfold, trace_unfold, sim.stopped s]
    by_cases hs : m.stopped (abs s) = true
    · simp [hs]
    · have hs' : m.stopped (abs s) = false := by simpa using hs
      simp only [hs', Bool.false_eq_true, if_false]
      by_cases hd : d.isEmpty
      · simp [hd]
      · simp only [hd, Bool.false_eq_true, if_false]
        rw [sim.need s hi hs']
        by_cases hl : d.length < m.need (abs s)
        · simp only [hl, if_true]
          rw [sim.absorb s d hi hs' hl]
        · simp only [hl, if_false]
          have hlen : (d.take (m.need (abs s))).length = m.need (abs s) := by
            simp only [List.length_take]; omega
          have hc := sim.complete s _ hi hs' hlen
          have hinv : Inv (abs (mW.complete s (d.take (m.need (abs s)))).1) := by
            rw [hc.1]; exact law.inv_complete _ _ hi hs' hlen
          have ih := trace_sim law sim fuel (mW.complete s (d.take (m.need (abs s)))).1 (d.drop (m.need (abs s))) hinv
          rw [hc.1] at ih
          have ih1 := congrArg Prod.fst ih
          have ih2 := congrArg Prod.snd ih
          simp only at ih1 ih2
          rw [ih1, ih2, hc.2]

theorem run_sim (law : Lawful m Inv) (sim : Sim mW m abs Inv) (s : SW) (d : Bytes) (hi : Inv (abs s)) :
    (abs (mW.run s d).1, (mW.run s d).2) = m.run (abs s) d :=
  trace_sim law sim _ s d hi

theorem runChunks_sim (law : Lawful m Inv) (sim : Sim mW m abs Inv) : ∀ (cs : List Bytes) (s : SW), Inv (abs s) →
    (abs (mW.runChunks s cs).1, (mW.runChunks s cs).2) = m.runChunks (abs s) cs
  | [], s, _ => rfl
  | c :: cs, s, hi => by
    have h1 := run_sim law sim s c hi
    have h11 := congrArg Prod.fst h1
    have h12 := congrArg Prod.snd h1
    simp only at h11 h12
    have hinv : Inv (abs (mW.run s c).1) := by rw [h11]; exact inv_run' law _ _ hi
    have ih := runChunks_sim law sim cs (mW.run s c).1 hinv
    have ih1 := congrArg Prod.fst ih
    have ih2 := congrArg Prod.snd ih
    simp only at ih1 ih2
    simp only [runChunks, comb]
    rw [ih1, ih2, h11, h12]

end Machine

variable {σ : Type}

/-- the three length bytes of a frame header: every length has 24 bits -/
theorem hdrLen_lt (h : Bytes) : hdrLen h < 2 ^ 24 := by
  match h with
  | [] => simp [hdrLen]
  | [_] => simp [hdrLen]
  | [_, _] => simp [hdrLen]
  | a :: b :: c :: _ =>
    have ha := a.toNat_lt; have hb := b.toNat_lt; have hc := c.toNat_lt
    simp only [hdrLen]
    omega

theorem u32_zero_iff (x : UInt32) : x = 0 ↔ x.toNat = 0 := by
  rw [← UInt32.toNat_inj]; simp

theorem u32_ofNat_toNat (n : Nat) (h : n < 2 ^ 32) : (UInt32.ofNat n).toNat = n :=
  UInt32.toNat_ofNat_of_lt' (by simpa [UInt32.size] using h)

/-- `int(expecting - uint32(actual))` is the exact difference whenever `actual ≤ expecting`
(both then below 2^32): `uint32(actual)` loses nothing, the `uint32` subtraction does not wrap -/
theorem needPayloadW_eq (e : UInt32) (a : UInt64) (h : a.toNat ≤ e.toNat) :
    needPayloadW e a = e.toNat - a.toNat := by
  have hlt := e.toNat_lt
  have hmod : a.toUInt32.toNat = a.toNat := by
    rw [UInt64.toNat_toUInt32]; exact Nat.mod_eq_of_lt (by omega)
  unfold needPayloadW
  rw [UInt32.toNat_sub_of_le _ _ (by rw [UInt32.le_iff_toNat_le, hmod]; exact h), hmod]

theorem emitW_sim (dec : Bytes → σ → Option (Frame × σ)) (s : FStW σ) :
    (emitW dec s).1.abs = (emit dec s.abs).1 ∧ (emitW dec s).2 = (emit dec s.abs).2 := by
  cases hb : holdBlock s.typ s.flags <;> cases h : dec s.buf s.hp <;>
    simp [emitW, emit, FStW.abs, hb, h]

theorem inPrefaceW_iff (s : FStW σ) : InPrefaceW s ↔ InPreface s.abs := Iff.rfl

theorem frameW_sim (dec : Bytes → σ → Option (Frame × σ)) :
    Machine.Sim (frameMachineW dec) (frameMachine dec) FStW.abs FInv where
  stopped := fun s => rfl
  need := by
    intro s hi _
    obtain ⟨h1, h2, h3⟩ := hi
    simp only [frameMachineW, frameMachine, fNeedW, fNeed]
    by_cases hp : InPrefaceW s
    · rw [if_pos hp, if_pos ((inPrefaceW_iff s).mp hp)]; rfl
    · rw [if_neg hp, if_neg (fun h => hp ((inPrefaceW_iff s).mpr h))]
      by_cases he : s.expecting = 0
      · have he' : s.abs.expecting = 0 := (u32_zero_iff _).mp he
        rw [if_pos he, if_pos he']; rfl
      · have he' : ¬ s.abs.expecting = 0 := fun h => he ((u32_zero_iff _).mpr h)
        rw [if_neg he, if_neg he']
        have := h3 he'
        exact needPayloadW_eq _ _ (Nat.le_of_lt this)
  absorb := by
    intro s d hi _ hl
    obtain ⟨h1, h2, h3⟩ := hi
    simp only [frameMachineW, frameMachine, fNeed, fAbsorbW, fAbsorb] at hl ⊢
    by_cases hp : InPrefaceW s
    · rw [if_pos hp, if_pos ((inPrefaceW_iff s).mp hp)]; rfl
    · rw [if_neg hp, if_neg (fun h => hp ((inPrefaceW_iff s).mpr h))]
      rw [if_neg (fun h => hp ((inPrefaceW_iff s).mpr h))] at hl
      by_cases he : s.expecting = 0
      · have he' : s.abs.expecting = 0 := (u32_zero_iff _).mp he
        rw [if_pos he, if_pos he']; rfl
      · have he' : ¬ s.abs.expecting = 0 := fun h => he ((u32_zero_iff _).mpr h)
        rw [if_neg he, if_neg he']
        rw [if_neg he'] at hl
        have hlt := s.expecting.toNat_lt
        have hact : (s.actual + UInt64.ofNat d.length).toNat = s.actual.toNat + d.length := by
          have hb : s.abs.actual < s.abs.expecting := h3 he'
          simp only [FStW.abs] at hb hl
          rw [UInt64.toNat_add, UInt64.toNat_ofNat']
          have : d.length % 2 ^ 64 = d.length := Nat.mod_eq_of_lt (by omega)
          rw [this]
          exact Nat.mod_eq_of_lt (by omega)
        simp only [FStW.abs, hact]
  complete := by
    intro s d hi _ hl
    obtain ⟨h1, h2, h3⟩ := hi
    simp only [frameMachineW, frameMachine, fCompleteW, fComplete]
    by_cases hp : InPrefaceW s
    · rw [if_pos hp, if_pos ((inPrefaceW_iff s).mp hp)]
      by_cases hpre : s.preface ++ d = clientPreface <;> simp [FStW.abs, hpre]
    · rw [if_neg hp, if_neg (fun h => hp ((inPrefaceW_iff s).mpr h))]
      by_cases he : s.expecting = 0
      · have he' : s.abs.expecting = 0 := (u32_zero_iff _).mp he
        rw [if_pos he, if_pos he']
        have hx : (UInt32.ofNat (hdrLen (s.pfx ++ d))).toNat = hdrLen (s.pfx ++ d) :=
          u32_ofNat_toNat _ (Nat.lt_trans (hdrLen_lt _) (by decide))
        have ha0 : s.actual.toNat = 0 := h2 he'
        by_cases h0 : hdrLen (s.pfx ++ d) = 0
        · have h1' : UInt32.ofNat (hdrLen (s.pfx ++ d)) = 0 := by rw [u32_zero_iff, hx, h0]
          have h0' : hdrLen (s.abs.pfx ++ d) = 0 := h0
          rw [if_pos h1', if_pos h0']
          have := emitW_sim dec { s with pfx := [], typ := hdrTyp (s.pfx ++ d), flags := hdrFlags (s.pfx ++ d), buf := s.buf ++ (s.pfx ++ d), expecting := UInt32.ofNat (hdrLen (s.pfx ++ d)) }
          simp only [FStW.abs, hx] at this ⊢
          exact this
        · have h1' : ¬ UInt32.ofNat (hdrLen (s.pfx ++ d)) = 0 := by rw [u32_zero_iff, hx]; exact h0
          have h0' : ¬ hdrLen (s.abs.pfx ++ d) = 0 := h0
          rw [if_neg h1', if_neg h0']
          simp [FStW.abs, hx]
      · have he' : ¬ s.abs.expecting = 0 := fun h => he ((u32_zero_iff _).mpr h)
        rw [if_neg he, if_neg he']
        have := emitW_sim dec { s with buf := s.buf ++ d, expecting := 0, actual := 0 }
        simp only [FStW.abs] at this ⊢
        exact this

theorem abs_initW (isReq : Bool) (hp : σ) : (FStW.init isReq hp).abs = FSt.init isReq hp := rfl

end ConfModel.H2
