#!/usr/bin/env python3
"""Regenerates the generated tables of DESIGN.md §11 (findings, per-property summary) between markers."""
import json, os, glob, re
here = os.path.dirname(os.path.abspath(__file__))
def put(s, tag, body):
    b, e = f"<!-- {tag}-BEGIN -->", f"<!-- {tag}-END -->"
    if b not in s:
        raise SystemExit(f"marker {tag} missing in DESIGN.md")
    return s[:s.index(b) + len(b)] + "\n" + body + "\n" + s[s.index(e):]
kf = json.load(open(os.path.join(here, "known-findings.json")))["findings"]
def key(f):
    m = re.match(r"F(\d+)([a-z]?)", f["id"]); return (int(m.group(1)), m.group(2), f["id"])
rows = ["| id | property | status | what (witness) |", "|---|---|---|---|"]
for f in sorted(kf, key=key):
    what = f.get("record") or f.get("what", "")
    what = re.sub(r"^fixed: property=C\d+ \S+ ", "", what)
    what = " ".join(what.split()).replace("|", "/")[:330]
    st = f["status"] + (" " + f["commit"] if f.get("commit") else "")
    rows.append(f"| {f['id']} | {f['property']} | {st} | {what} |")
findings = "\n".join(rows)
rows = ["| id | level | theorems (audited) | lines judged, quick | quick wall s | headline theorems |", "|---|---|---|---|---|---|"]
for p in sorted(glob.glob(os.path.join(here, "checks", "C*.json"))):
    pid = os.path.basename(p)[:-5]; c = json.load(open(p))
    evp = os.path.join(here, "evidence", pid + ".json")
    ev = json.load(open(evp)) if os.path.exists(evp) else {}
    cov = ev.get("coverage", {})
    head = c.get("headline", "").replace("ConfModel.Props." + pid + ".", "")
    rows.append(f"| {pid} | {c['manifest']['level_claimed']['category']} | {cov.get('obligations', '-')} | {cov.get('evaluations', '-')} | {ev.get('wall_s', '-')} | {head[:200]} |")
summary = "\n".join(rows)
p = os.path.join(here, "DESIGN.md")
s = open(p).read()
s = put(s, "FINDINGS-TABLE", findings)
s = put(s, "SUMMARY-TABLE", summary)
open(p, "w").write(s)
print("DESIGN.md tables regenerated:", len(kf), "findings")
