/-
Declarative side of C20: what "the same name denotes the same algorithm everywhere" means
over the tables extracted from the tree, and what a history of a pooled decompressor must
deliver.
-/
import ConfModel.Model.Compression
namespace ConfModel.CompressionSpec
open ConfModel.Compression

/-- the naming tables regenerated from the repository on every run
(`ConfModel/Generated/C20Facts.lean`); algorithms are identified *by behaviour* against the
third-party libraries used directly -/
structure Tables where
  /-- identifier ↦ value of the name constants in `internal/compression` -/
  nameConsts : List (String × String)
  /-- `compression.GetCompressor` on enum values 0..8 -/
  compressorOf : List (Nat × String)
  /-- `compression.GetDecompressor` on enum values 0..8 -/
  decompressorOf : List (Nat × String)
  /-- `checkCompression`: expected enum ↦ (accepted probe names, accepted when nothing is announced) -/
  checkOf : List (Nat × List String × Bool)
  /-- `tracer.GetDecompressor` on the probe names -/
  tracerOf : List (String × String)
  /-- reference server: `connect.WithCompression(name, dec, comp)` -/
  serverRegs : List (String × String × String)
  /-- reference client, `switch req.Compression`: enum ↦ (accept registrations, send names) -/
  clientRegs : List (Nat × List (String × String × String) × List String)
  /-- raw-payload encoders (`internal.WriteRawMessageContents`, an item of
  `WriteRawStreamContents`) on enum values 0..8: the algorithm whose reference decoder returns
  the payload -/
  rawEncoderOf : List (Nat × String × String)
  /-- raw-payload encoder on a present-but-empty payload, enum values 0..8: written, and the
  matching decompressor and the library both return the empty string -/
  rawEmptyOf : List (Nat × Bool)

/-- names the tables are probed with: the six, the empty string, other letter case, and
names that must not be understood -/
def probeNames : List String :=
  ["", "identity", "gzip", "br", "zstd", "deflate", "snappy", "GZIP", "Br", "Identity", "ZSTD", "Deflate", "SNAPPY",
   "brotli", "zlib", "x-gzip", "compress", "lz4", "gzip ", " gzip", "zstandard"]

def enums : List Nat := List.range 9

def tracerLabel (n : String) : String :=
  match algOfName (asciiLower n) with
  | some a => a.label
  | none => "broken"

/-- connect-go registers gzip itself; identity needs no registration -/
def builtin : List String := ["identity", "gzip"]

/-- The same encoding name denotes the same algorithm in `compression.go` (runner and
raw-payload encoder), `tracer.GetDecompressor`, `checkCompression`, the server's and the
client's registrations; all six and only those six are mapped. -/
def consistent (t : Tables) : Bool :=
  -- enum ↦ algorithm, the same for compressor and decompressor; 7 and 8 unsupported
  t.compressorOf == enums.map (fun e => (e, labelOf (algOfEnum e))) &&
  t.decompressorOf == enums.map (fun e => (e, labelOf (algOfEnum e))) &&
  -- the raw-payload encoders use the same table, for a message and for a stream item, and a
  -- present-but-empty payload is written as the encoding of the empty string
  t.rawEncoderOf == enums.map (fun e => (e, labelOf (algOfEnum e), labelOf (algOfEnum e))) &&
  t.rawEmptyOf == enums.map (fun e => (e, (algOfEnum e).isSome)) &&
  -- the name the reference server expects for an enum value (exactly one; identity also when absent)
  t.checkOf == enums.map (fun e => (e, (nameOfEnum e).toList, e == 1)) &&
  -- the wire tracer understands exactly the six names (any letter case, "" = identity)
  t.tracerOf == probeNames.map (fun n => (n, tracerLabel n)) &&
  -- the name constants are the six names
  (t.nameConsts.map (·.2)).all (fun n => (algOfName n).isSome && n != "") &&
  (List.range 7).tail.all (fun e => (nameOfEnum e).any (fun n => (t.nameConsts.map (·.2)).contains n)) &&
  -- server: every registration pairs a name with its own algorithm, both directions; together
  -- with the built-ins all six names are served
  t.serverRegs.all (fun r => r.2.1 == labelOf (algOfName r.1) && r.2.2 == labelOf (algOfName r.1)) &&
  (List.range 7).tail.all (fun e => (nameOfEnum e).any (fun n => builtin.contains n || (t.serverRegs.map (·.1)).contains n)) &&
  -- client: for enum e it registers and sends exactly e's name with e's algorithm
  t.clientRegs == (List.range 7).map (fun e =>
    let n := (nameOfEnum e).getD ""
    let a := labelOf (algOfEnum e)
    if e ≤ 1 then (e, [], []) else if e == 2 then (e, [], [n]) else (e, [(n, a, a)], [n]))

/-- what a history must deliver: every valid message comes back byte-exact, nothing panics.
`expected[i] = some b` for a step that carried a valid encoding of `b`. -/
def historyOk (expected : List (Option Bytes)) (outs : List Out) : Bool :=
  expected.length == outs.length &&
  (expected.zip outs).all (fun p => p.2 != .panic && (match p.1 with | some b => p.2 == .data b | none => true))

/-! ## raw-payload encoders -/

/-- one payload handed to the raw-payload encoder: `data = none` is an absent payload (nil
contents / unset oneof), `some []` a present-but-empty one -/
structure RawItem where
  enc : Nat
  data : Option Bytes
  flags : Nat
deriving DecidableEq, Repr

/-- one frame found in what the encoder wrote, its payload decoded by a fresh decompressor of
`internal/compression` for the item's enum value (`dec`) and by the third-party library used
directly (`ref`); `none` = the decoder failed -/
structure RawFrame where
  flags : Nat
  len : Nat
  payload : Bytes
  dec : Option Bytes
  ref : Option Bytes
deriving DecidableEq, Repr

/-- the items the round trip is claimed for: one of the six encodings (or unspecified), flags
that fit the envelope's byte -/
def rawClaimed (items : List RawItem) : Bool :=
  items.all (fun it => (algOfEnum it.enc).isSome && it.flags ≤ 255)

/-- "decompressing what the matching compressor produced returns the original bytes for any
input including the empty one", through the raw-payload encoders: nothing fails, the output
is exactly one frame per item, and every present payload — also the empty one — comes back
byte-exact from the repository's decompressor and from the library; an absent payload writes
nothing. -/
def rawOk (items : List RawItem) (err : Bool) (frames : List RawFrame) (rest : Bytes) : Bool :=
  !err && rest.isEmpty && frames.length == items.length &&
  (items.zip frames).all (fun p =>
    p.2.flags == p.1.flags && p.2.len == p.2.payload.length &&
    (match p.1.data with
     | some d => p.2.dec == some d && p.2.ref == some d
     | none => p.2.payload.isEmpty))

/-! ## wire tracer -/

/-- what the wire tracer must report for the messages of one response body: `expected[i] =
some b` for a message whose end-stream content is known (a valid encoding of `b`, or `b` sent
uncompressed; `some []` also for a message that is no end-stream message: nothing may be
reported for it), `none` for a damaged one (anything may be reported). `reported[i]` is the
content reported for the i-th message (`[]`: none). A bad message never changes what is
reported for a later valid one. -/
def tracerOk (expected : List (Option Bytes)) (reported : List Bytes) : Bool :=
  expected.length == reported.length &&
  (expected.zip reported).all (fun p => match p.1 with | some b => p.2 == b | none => true)

end ConfModel.CompressionSpec
