package main

// C19 — expand directives through the runner's loading glue. A whole test suite (header
// attributes + test cases with expand_requests directives) is rendered as a test file and
// driven through parseTestSuites, the default configuration and newTestCaseLibrary, the way
// Run/run load suites; observed are the request messages of the parsed suite AND of every
// permutation the library would hand to a client. The property makes no exception for any
// suite attribute: a request marked for expansion is padded exactly, or the suite is rejected.

import (
	"encoding/json"
	"fmt"
	"sort"
	"strings"

	cc "connectrpc.com/conformance/internal/app/connectconformance"
	conformancev1 "connectrpc.com/conformance/internal/gen/proto/go/connectrpc/conformance/v1"
	"connectrpc.com/conformance/internal/verifharness/gen"
	"google.golang.org/protobuf/encoding/protojson"
	"google.golang.org/protobuf/proto"
	"google.golang.org/protobuf/types/known/anypb"
)

func init() {
	gen.RegisterOp("c19", "suite", func(c *gen.Ctx, raw json.RawMessage) any {
		out := c19Suite(gen.Into[c19SuiteIn](raw))
		c.E.Count("suite:" + out.Class)
		return out
	})
}

type c19Case struct {
	Msgs  []c19Msg `json:"msgs"`  // all of the same request type (the stream type follows from it)
	Extra int      `json:"extra"` // number of directives = len(msgs) + extra; -len(msgs): no directive at all
	Full  bool     `json:"full"`  // bidi: full duplex
}

type c19SuiteIn struct {
	Relies    bool      `json:"relies"` // reliesOnMessageReceiveLimit
	Mode      int32     `json:"mode"`   // TestSuite.TestMode (0 unspecified, 1 client, 2 server)
	Codecs    []int32   `json:"codecs"` // relevantCodecs
	Protocols []int32   `json:"protocols"`
	Versions  []int32   `json:"versions"`
	Comps     []int32   `json:"comps"`
	TLS       bool      `json:"tls"` // reliesOnTls
	Cases     []c19Case `json:"cases"`
}

type c19PermMsg struct {
	Size   int  `json:"size"`
	L      int  `json:"l"`
	Others bool `json:"others"`
}
type c19Perm struct {
	Case int          `json:"case"` // index of the test case of the file this permutation comes from
	Msgs []c19PermMsg `json:"msgs"`
}
type c19CaseOut struct {
	Msgs []c19MsgOut `json:"msgs"`
}
type c19RL struct {
	R  int `json:"r"`  // proto.Size of the message without request_data, as written to the file
	L0 int `json:"l0"` // len(request_data) in the file
}
type c19SuiteOut struct {
	Limit int64 `json:"limit"`
	// per case, per message: what the file contains (also reported when the suite is rejected)
	RL [][]c19RL `json:"rl"`
	// ok | codecs | range | cantPad | count | other | panic
	Class string       `json:"class"`
	Cases []c19CaseOut `json:"cases"` // the parsed suite (class ok)
	// the library: "" or the error text class, the permutations sorted by name
	LibErr  string    `json:"libErr"`
	Perms   []c19Perm `json:"perms"`
	Grouped int       `json:"grouped"`
	All     int       `json:"all"`
}

func c19StreamType(m c19Msg, full bool) conformancev1.StreamType {
	switch m.Type {
	case 0, 1:
		return conformancev1.StreamType_STREAM_TYPE_UNARY
	case 2:
		return conformancev1.StreamType_STREAM_TYPE_SERVER_STREAM
	case 3:
		return conformancev1.StreamType_STREAM_TYPE_CLIENT_STREAM
	}
	if full {
		return conformancev1.StreamType_STREAM_TYPE_FULL_DUPLEX_BIDI_STREAM
	}
	return conformancev1.StreamType_STREAM_TYPE_HALF_DUPLEX_BIDI_STREAM
}

func c19Enums[T ~int32](xs []int32) []T {
	out := make([]T, len(xs))
	for i, x := range xs {
		out[i] = T(x)
	}
	return out
}

func c19MsgObs(before proto.Message, a, orig *anypb.Any) c19MsgOut {
	after, err := a.UnmarshalNew()
	if err != nil {
		panic(err)
	}
	o := c19MsgOut{
		R:         proto.Size(c19WithoutData(before)),
		L0:        len(c19Data(before)),
		Size:      proto.Size(after),
		L:         len(c19Data(after)),
		Others:    a.TypeUrl == orig.TypeUrl && proto.Equal(c19WithoutData(before), c19WithoutData(after)),
		Unchanged: proto.Equal(before, after),
	}
	od, nd := c19Data(before), c19Data(after)
	k := 0
	for k < len(nd) && k < len(od) && nd[k] == od[k] {
		k++
	}
	o.ZeroPad = true
	for _, x := range nd[k:] {
		o.ZeroPad = o.ZeroPad && x == 0
	}
	return o
}

func c19Suite(in c19SuiteIn) c19SuiteOut {
	out := c19SuiteOut{Limit: cc.VerifC19ServerReceiveLimit(), RL: make([][]c19RL, len(in.Cases)), Cases: []c19CaseOut{}, Perms: []c19Perm{}}
	suite := &conformancev1.TestSuite{
		Name:                        "verif c19 suite",
		Mode:                        conformancev1.TestSuite_TestMode(in.Mode),
		RelevantCodecs:              c19Enums[conformancev1.Codec](in.Codecs),
		RelevantProtocols:           c19Enums[conformancev1.Protocol](in.Protocols),
		RelevantHttpVersions:        c19Enums[conformancev1.HTTPVersion](in.Versions),
		RelevantCompressions:        c19Enums[conformancev1.Compression](in.Comps),
		ReliesOnTls:                 in.TLS,
		ReliesOnMessageReceiveLimit: in.Relies,
	}
	before := make([][]proto.Message, len(in.Cases))
	origs := make([][]*anypb.Any, len(in.Cases))
	for ci, cs := range in.Cases {
		out.RL[ci] = []c19RL{}
		tc := &conformancev1.TestCase{Request: &conformancev1.ClientCompatRequest{TestName: fmt.Sprintf("case-%d", ci)}}
		for _, m := range cs.Msgs {
			msg := c19Build(m)
			if b, ok := msg.(*conformancev1.BidiStreamRequest); ok {
				b.FullDuplex = cs.Full
			}
			a, err := anypb.New(msg)
			if err != nil {
				panic(err)
			}
			before[ci] = append(before[ci], msg)
			out.RL[ci] = append(out.RL[ci], c19RL{R: proto.Size(c19WithoutData(msg)), L0: len(c19Data(msg))})
			origs[ci] = append(origs[ci], a)
			tc.Request.RequestMessages = append(tc.Request.RequestMessages, a)
		}
		if len(cs.Msgs) > 0 {
			tc.Request.StreamType = c19StreamType(cs.Msgs[0], cs.Full)
			if cs.Msgs[0].Type == 1 {
				tc.Request.Service = proto.String("connectrpc.conformance.v1.ConformanceService")
				tc.Request.Method = proto.String("IdempotentUnary")
			}
		} else {
			tc.Request.StreamType = conformancev1.StreamType_STREAM_TYPE_CLIENT_STREAM
		}
		for i := 0; i < len(cs.Msgs)+cs.Extra; i++ {
			d := &conformancev1.TestCase_ExpandedSize{}
			if i < len(cs.Msgs) {
				if cs.Msgs[i].Off != nil {
					d.SizeRelativeToLimit = proto.Int32(int32(*cs.Msgs[i].Off))
				}
			} else {
				d.SizeRelativeToLimit = proto.Int32(0)
			}
			tc.ExpandRequests = append(tc.ExpandRequests, d)
		}
		suite.TestCases = append(suite.TestCases, tc)
	}
	data, err := protojson.Marshal(suite) // JSON is YAML
	if err != nil {
		panic(err)
	}
	var loaded cc.VerifC19Loaded
	if p := gen.Recover(func() {
		loaded = cc.VerifC19Load(map[string][]byte{"verif_c19.yaml": data}, conformancev1.TestSuite_TestMode(in.Mode))
	}); p != "" {
		out.Class = "panic"
		return out
	}
	if err := loaded.ParseErr; err != nil {
		switch {
		case strings.Contains(err.Error(), "includes codecs other than CODEC_PROTO"):
			out.Class = "codecs"
		case strings.Contains(err.Error(), "results in an invalid request size"):
			out.Class = "range"
		case strings.Contains(err.Error(), "can't pad to exactly"):
			out.Class = "cantPad"
		case strings.Contains(err.Error(), "expand directives indicate"):
			out.Class = "count"
		default:
			out.Class = "other"
		}
		return out
	}
	out.Class = "ok"
	parsed := loaded.Suites["verif_c19.yaml"]
	if parsed == nil || len(parsed.TestCases) != len(in.Cases) {
		out.Class = "other"
		return out
	}
	for ci, tc := range parsed.TestCases {
		co := c19CaseOut{Msgs: []c19MsgOut{}}
		if len(tc.Request.RequestMessages) != len(before[ci]) {
			out.Class = "other"
			return out
		}
		for mi, a := range tc.Request.RequestMessages {
			co.Msgs = append(co.Msgs, c19MsgObs(before[ci][mi], a, origs[ci][mi]))
		}
		out.Cases = append(out.Cases, co)
	}
	if loaded.LibErr != nil {
		out.LibErr = "error"
		if strings.Contains(loaded.LibErr.Error(), "no test cases apply") {
			out.LibErr = "none-apply"
		}
		return out
	}
	out.Grouped, out.All = loaded.Grouped, loaded.All
	names := make([]string, 0, len(loaded.Perms))
	for name := range loaded.Perms {
		names = append(names, name)
	}
	sort.Strings(names)
	for _, name := range names {
		tc := loaded.Perms[name]
		var ci int
		if _, err := fmt.Sscanf(loaded.Simple[name], "case-%d", &ci); err != nil || ci < 0 || ci >= len(in.Cases) {
			out.LibErr = "unknown-case"
			return out
		}
		p := c19Perm{Case: ci, Msgs: []c19PermMsg{}}
		for mi, a := range tc.Request.RequestMessages {
			if mi >= len(before[ci]) {
				out.LibErr = "extra-message"
				return out
			}
			o := c19MsgObs(before[ci][mi], a, origs[ci][mi])
			p.Msgs = append(p.Msgs, c19PermMsg{Size: o.Size, L: o.L, Others: o.Others})
		}
		out.Perms = append(out.Perms, p)
	}
	return out
}

// c19SuiteGen: (1) a fixed family of cases (reachable offsets, the unreachable size at the
// 2->3 byte length boundary, a negative total, no directive, too many directives) under every
// combination of reliesOnMessageReceiveLimit x mode x relevant codecs; (2) random suites.
func c19SuiteGen(c *gen.Ctx) {
	r := c.R
	limit := cc.VerifC19ServerReceiveLimit()
	off := func(v int64) *int64 { return &v }
	probeR := func(m c19Msg) int64 { return int64(proto.Size(c19WithoutData(c19Build(m)))) }
	small := func(typ int, o *int64) c19Msg {
		return c19Msg{Type: typ, DefSeed: 11, DefSize: 12, L0: 0, Off: o}
	}
	// from an empty data field the sizes R+3+L (L < 16384) end at R+16386 and R+4+L (L >= 16384)
	// start at R+16388: R+16387 cannot be reached by any padding
	unreachable := func(typ int) c19Msg {
		m := small(typ, nil)
		m.Off = off(probeR(m) + 16387 - limit)
		return m
	}
	type shape struct {
		name  string
		cases []c19Case
	}
	shapes := []shape{
		{"reachable", []c19Case{
			{Msgs: []c19Msg{small(0, off(-1000))}},
			{Msgs: []c19Msg{small(3, off(-1)), small(3, nil), small(3, off(0))}},
			{Msgs: []c19Msg{small(4, off(10)), small(4, off(-300))}, Extra: -1, Full: true},
		}},
		{"one", []c19Case{{Msgs: []c19Msg{small(2, off(0))}}}},
		{"tiny-target", []c19Case{{Msgs: []c19Msg{func() c19Msg { m := small(0, nil); m.Off = off(probeR(m) + 40 - limit); return m }()}}}},
		{"unreachable", []c19Case{{Msgs: []c19Msg{small(0, off(0))}}, {Msgs: []c19Msg{unreachable(3)}}}},
		{"gap", []c19Case{{Msgs: []c19Msg{func() c19Msg { m := small(1, nil); m.Off = off(probeR(m) + 1 - limit); return m }()}}}},
		{"negative", []c19Case{{Msgs: []c19Msg{small(0, off(-limit-5))}}}},
		{"none", []c19Case{{Msgs: []c19Msg{small(0, nil), small(0, nil)}, Extra: -2}, {Msgs: []c19Msg{small(3, nil)}, Extra: -1}}},
		{"too-many", []c19Case{{Msgs: []c19Msg{small(3, off(0))}, Extra: 1}}},
	}
	codecSets := [][]int32{{1}, {}, {2}, {1, 2}, {2, 1}}
	n := 0
	for _, relies := range []bool{false, true} {
		for mode := int32(0); mode <= 2; mode++ {
			for _, codecs := range codecSets {
				for _, sh := range shapes {
					c.Do("suite", c19SuiteIn{Relies: relies, Mode: mode, Codecs: codecs, Protocols: []int32{1}, Versions: []int32{1}, Comps: []int32{1}, Cases: sh.cases})
					n++
				}
			}
		}
	}
	c.E.Add("suites-fixed", n)

	nRand := 250
	if c.Thorough() {
		nRand = 4000
	}
	for i := 0; i < nRand; i++ {
		in := c19SuiteIn{Relies: r.Bool(), Mode: int32(r.Intn(3)), Codecs: []int32{1}, TLS: r.Chance(1, 6)}
		if r.Chance(1, 8) {
			in.Codecs = gen.Pick(r, codecSets)
		}
		in.Protocols = []int32{int32(r.Range(1, 3))}
		in.Versions = []int32{int32(r.Range(1, 2))}
		if r.Chance(1, 4) {
			in.Versions = []int32{1, 2}
		}
		in.Comps = []int32{int32(r.Range(1, 6))}
		nc := r.Range(1, 3)
		for k := 0; k < nc; k++ {
			typ := r.Intn(5)
			nm := 1
			if typ >= 3 {
				nm = r.Range(1, 3)
			}
			cs := c19Case{Full: r.Bool()}
			for j := 0; j < nm; j++ {
				m := c19Msg{Type: typ, DefSeed: r.Uint64() >> 16, DefSize: gen.Pick(r, []int{0, 5, 20, 20, 200}), L0: gen.Pick(r, []int{0, 0, 0, 1, 127, 128, 300})}
				switch r.Intn(10) {
				case 0:
					m.Off = nil
				case 1, 2, 3:
					m.Off = off(int64(r.Range(-300, 300)))
				case 4:
					m.Off = off(probeR(m) + int64(r.Range(-3, 3)) - limit)
				case 5:
					m.Off = off(probeR(m) + int64(gen.Pick(r, []int{1 << 7, 1 << 14})) + int64(r.Range(-4, 6)) - limit)
				default:
					m.Off = off(probeR(m) + int64(m.L0) + int64(r.Range(0, 3000)) - limit)
				}
				cs.Msgs = append(cs.Msgs, m)
			}
			switch r.Intn(12) {
			case 0:
				cs.Extra = 1
			case 1:
				cs.Extra = -r.Range(1, nm)
			}
			in.Cases = append(in.Cases, cs)
		}
		c.Do("suite", in)
	}
	c.E.Add("suites-random", nRand)
}
