package main

import (
	"encoding/json"
	"fmt"
	"os"
	"path/filepath"
	"reflect"

	cc "connectrpc.com/conformance/internal/app/connectconformance"
	"connectrpc.com/conformance/internal/verifharness/gen"
)

// c07In: abstract suites, config cases as VerifC06Code codes, run mode (0 unspecified, 1 client, 2 server).
type c07In struct {
	Suites []cc.VerifC07Suite `json:"suites"`
	Cases  []int              `json:"cases"`
	Mode   int                `json:"mode"`
}

type c07Out struct {
	cc.VerifC07Dump
	// Stable: the expansion was repeated (fresh protos, fresh Go map iteration orders) and
	// every repetition produced the same dump.
	Stable bool `json:"stable"`
}

type c07ParseIn struct {
	Suites []cc.VerifC07Suite `json:"suites"`
}

const c07Repeats = 5

func init() {
	areas["c07"] = runC07
	gen.RegisterOp("c07", "lib", func(_ *gen.Ctx, raw json.RawMessage) any {
		in := gen.Into[c07In](raw)
		first := cc.VerifC07Library(in.Suites, in.Cases, in.Mode)
		out := c07Out{VerifC07Dump: first, Stable: true}
		for i := 1; i < c07Repeats; i++ {
			again := cc.VerifC07Library(in.Suites, in.Cases, in.Mode)
			if first.Err != "" || again.Err != "" {
				// which error is reported may depend on the iteration order; that one is reported must not
				if (first.Err == "") != (again.Err == "") {
					out.Stable = false
				}
				continue
			}
			if !reflect.DeepEqual(first, again) {
				out.Stable = false
			}
		}
		return out
	})
	// corpus: the real embedded test suites (in.Suites is their abstraction, for the driver only)
	gen.RegisterOp("c07", "corpus", func(_ *gen.Ctx, raw json.RawMessage) any {
		in := gen.Into[c07In](raw)
		first := cc.VerifC07CorpusLibrary(in.Cases, in.Mode)
		again := cc.VerifC07CorpusLibrary(in.Cases, in.Mode)
		return c07Out{VerifC07Dump: first, Stable: reflect.DeepEqual(first, again)}
	})
	gen.RegisterOp("c07", "parse", func(_ *gen.Ctx, raw json.RawMessage) any {
		in := gen.Into[c07ParseIn](raw)
		return map[string]string{"err": cc.VerifC07Parse(in.Suites)}
	})
}

var (
	c07SuiteNames = []string{"Basic", "TLS", "Connect GET", "gRPC Trailers", "a/b", "Timeouts", "S", "T"}
	c07TestNames  = []string{"t1", "t2", "unary/basic", "a", "b", "x/y/z", "success", "error/with-details"}
	c07OddNames   = []string{"a//b", "./a", "a/../b", "a/", "/a", "..", ".", "a/./b", "TLS:true", "t1/t1"}
	c07His        = [4]int{3, 3, 3, 6} // protocols, versions, codecs, compressions
)

func c07Directive(r *gen.Rand, hi int) []int {
	switch x := r.Intn(100); {
	case x < 40:
		return []int{}
	case x < 72:
		return []int{r.Range(1, hi)}
	case x < 90:
		// two distinct values
		a := r.Range(1, hi)
		b := r.Range(1, hi)
		if a == b {
			b = a%hi + 1
		}
		return []int{a, b}
	case x < 94:
		out := []int{}
		for v := 1; v <= hi; v++ {
			if r.Chance(2, 3) {
				out = append(out, v)
			}
		}
		return out
	case x < 97:
		// a duplicate
		a := r.Range(1, hi)
		return []int{a, a}
	case x < 99:
		// the proto zero value in the list
		return []int{0, r.Range(1, hi)}
	default:
		return []int{0}
	}
}

func c07Test(r *gen.Rand, i int, clean bool) cc.VerifC07Test {
	t := cc.VerifC07Test{Name: gen.Pick(r, c07TestNames), St: r.Range(1, 5)}
	if clean || r.Chance(3, 4) {
		t.Name = fmt.Sprintf("%s-%d", t.Name, i)
	}
	if r.Chance(1, 6) {
		t.Service, t.Method = "pkg.Svc", "Do"
	}
	t.RawReq = r.Chance(1, 10)
	t.RawResp = r.Chance(1, 10)
	t.Pre = r.Chance(1, 8)
	t.Expected = t.RawResp || r.Chance(1, 5)
	if clean {
		return t
	}
	switch r.Intn(40) {
	case 0:
		t.Name = ""
	case 1:
		t.St = 0
	case 2:
		t.Service, t.Method = "pkg.Svc", ""
	case 3:
		t.Service, t.Method = "", "Do"
	case 4, 5:
		t.Name = gen.Pick(r, c07OddNames)
	}
	return t
}

func c07Suite(r *gen.Rand, i int, clean bool) cc.VerifC07Suite {
	s := cc.VerifC07Suite{
		File: fmt.Sprintf("f%d.yaml", i),
		Name: fmt.Sprintf("%s %d", gen.Pick(r, c07SuiteNames), i),
		Mode: r.Intn(3),
	}
	if !clean && r.Chance(1, 3) {
		s.Name = gen.Pick(r, c07SuiteNames)
	}
	s.Protocols = c07Directive(r, 3)
	s.Versions = c07Directive(r, 3)
	s.Codecs = c07Directive(r, 3)
	s.Comps = c07Directive(r, 6)
	s.TLS = r.Chance(1, 4)
	if s.TLS {
		s.Certs = r.Chance(1, 2)
	}
	s.Limit = r.Chance(1, 6)
	if r.Chance(1, 6) {
		s.Protocols = []int{1}
		s.Get = r.Chance(1, 2)
		s.CVM = r.Intn(3)
	}
	n := r.Range(1, 5)
	for k := 0; k < n; k++ {
		s.Tests = append(s.Tests, c07Test(r, k, clean))
	}
	if clean {
		return s
	}
	switch r.Intn(60) {
	case 0:
		s.Name = ""
	case 1:
		s.Tests = nil
	case 2:
		s.Certs, s.TLS = true, false
	case 3:
		s.Get = true // mostly without [connect]
	case 4:
		s.CVM = r.Range(1, 2)
	case 5, 6:
		// a repeated test name inside the suite
		if len(s.Tests) > 1 {
			s.Tests[len(s.Tests)-1].Name = s.Tests[0].Name
			s.Tests[len(s.Tests)-1].St = s.Tests[0].St
		}
	case 7:
		s.Name = gen.Pick(r, []string{"a//b", "/abs", "x/../y", "."})
	}
	if s.Tests == nil {
		s.Tests = []cc.VerifC07Test{}
	}
	return s
}

func c07Code(v, p, c, z, st int, tls, certs, get, limit bool, cvm int) int {
	b := func(x bool) int {
		if x {
			return 1
		}
		return 0
	}
	code := v
	code = code*4 + p
	code = code*4 + c
	code = code*7 + z
	code = code*6 + st
	code = code*2 + b(tls)
	code = code*2 + b(certs)
	code = code*2 + b(get)
	code = code*2 + b(limit)
	return code + 43008*cvm
}

// c07CaseFor draws a case that suite s admits (with probability ~3/4 in every coordinate).
func c07CaseFor(r *gen.Rand, s cc.VerifC07Suite) int {
	pick := func(l []int, hi int) int {
		if len(l) > 0 && r.Chance(7, 8) {
			return gen.Pick(r, l)
		}
		return r.Range(1, hi)
	}
	flag := func(b bool) bool {
		if r.Chance(9, 10) {
			return b
		}
		return !b
	}
	tls := s.TLS || r.Bool()
	st := r.Range(1, 5)
	if len(s.Tests) > 0 && r.Chance(3, 4) {
		st = gen.Pick(r, s.Tests).St
	}
	cvm := s.CVM
	if r.Chance(1, 12) {
		cvm = r.Intn(3)
	}
	return c07Code(pick(s.Versions, 3), pick(s.Protocols, 3), pick(s.Codecs, 3), pick(s.Comps, 6), st,
		tls, flag(s.Certs), flag(s.Get), flag(s.Limit), cvm)
}

func c07RandCase(r *gen.Rand) int {
	return c07Code(r.Intn(4), r.Intn(4), r.Intn(4), r.Intn(7), r.Intn(6), r.Bool(), r.Chance(1, 4), r.Chance(1, 4), r.Chance(1, 4), 0)
}

func runC07(c *gen.Ctx) error {
	r, e := c.R, c.E
	nIn := 8000
	if c.Thorough() {
		nIn = 80000
	}
	var ins []any
	flush := func() {
		c.DoParallel("lib", ins, 8)
		ins = ins[:0]
	}
	for i := 0; i < nIn; i++ {
		clean := r.Chance(2, 3)
		nS := r.Range(1, 4)
		suites := make([]cc.VerifC07Suite, nS)
		for k := range suites {
			suites[k] = c07Suite(r, k, clean)
		}
		if !clean && nS > 1 && r.Chance(1, 25) {
			suites[nS-1].Name = suites[0].Name // two files define the same suite
		}
		if nS > 1 && r.Chance(1, 8) {
			// two suites differing only in mode (and name): same tests, same directives
			cp := suites[0]
			cp.File = fmt.Sprintf("f%d.yaml", nS-1)
			cp.Name = suites[0].Name + " (other mode)"
			cp.Mode = (suites[0].Mode + 1) % 3
			suites[nS-1] = cp
		}
		var cases []int
		switch r.Intn(10) {
		case 0:
			// the result of the real parseConfig on a small random configuration (C06 generator)
			in := c06In{Versions: c06Small(r, 1, 3, false), Protocols: c06Small(r, 1, 3, false), Codecs: []int{r.Range(1, 2)},
				Comps: []int{r.Range(1, 6)}, Sts: c06Small(r, 1, 5, false), Flags: [7]int{-1, -1, r.Intn(3) - 1, -1, -1, r.Intn(3) - 1, r.Intn(3) - 1}}
			if data, err := c06Render(in); err == nil {
				codes, _, _ := cc.VerifC06ParseConfig(data)
				cases = codes
			}
			e.Count("cases:parseConfig")
		default:
			n := r.Range(0, 40)
			if r.Chance(2, 3) {
				n = r.Range(8, 40)
			}
			for k := 0; k < n; k++ {
				if r.Chance(5, 6) {
					cases = append(cases, c07CaseFor(r, gen.Pick(r, suites)))
				} else {
					cases = append(cases, c07RandCase(r))
				}
			}
			if n > 0 && r.Chance(1, 10) {
				cases = append(cases, cases[0]) // the slice may repeat a case
			}
			e.Count("cases:directed")
		}
		if cases == nil {
			cases = []int{}
		}
		for mode := 0; mode <= 2; mode++ {
			if mode == 0 && !r.Chance(1, 3) {
				continue
			}
			ins = append(ins, c07In{Suites: suites, Cases: cases, Mode: mode})
		}
		if clean {
			e.Count("suites:clean")
		} else {
			e.Count("suites:with-faults")
		}
		if len(ins) >= 1000 {
			flush()
		}
	}
	flush()
	// the embedded corpus x the shipped configurations (thorough: also the reference configuration)
	if suites, err := cc.VerifC07Corpus(); err != nil {
		return fmt.Errorf("c07 corpus: %w", err)
	} else {
		cfgs := []struct {
			file string
			mode int
		}{{"testing/grpc-impls-config.yaml", 1}, {"testing/grpc-impls-config.yaml", 2}, {"testing/grpc-web-client-impl-config.yaml", 1}, {"testing/grpc-web-server-impl-config.yaml", 2}}
		if c.Thorough() && c.Seed < 1000 {
			cfgs = append(cfgs, struct {
				file string
				mode int
			}{"testing/reference-impls-config.yaml", 1}, struct {
				file string
				mode int
			}{"testing/reference-impls-config.yaml", 2})
		}
		for _, cf := range cfgs {
			data, err := os.ReadFile(filepath.Join(c.RepoDir, cf.file))
			if err != nil {
				return fmt.Errorf("c07 corpus: %w", err)
			}
			codes, class, raw := cc.VerifC06ParseConfig(data)
			if class != "" {
				return fmt.Errorf("c07 corpus: %s: %s %s", cf.file, class, raw)
			}
			c.Do("corpus", c07In{Suites: suites, Cases: codes, Mode: cf.mode})
			e.Count("corpus:" + filepath.Base(cf.file))
		}
	}
	// parseTestSuites validation (raw request / raw response only in the right mode)
	nP := 600
	if c.Thorough() {
		nP = 6000
	}
	for i := 0; i < nP; i++ {
		nS := r.Range(1, 3)
		suites := make([]cc.VerifC07Suite, nS)
		for k := range suites {
			s := c07Suite(r, k, true)
			for j := range s.Tests {
				t := &s.Tests[j]
				t.RawReq, t.RawResp, t.Expected = false, false, r.Chance(1, 4)
				switch r.Intn(8) {
				case 0:
					t.RawReq = true
					if r.Chance(3, 4) {
						s.Mode = 2
					}
				case 1:
					t.RawResp = true
					t.Expected = r.Chance(4, 5)
					if r.Chance(3, 4) {
						s.Mode = 1
					}
				}
			}
			suites[k] = s
		}
		c.Do("parse", c07ParseIn{Suites: suites})
	}
	return nil
}
