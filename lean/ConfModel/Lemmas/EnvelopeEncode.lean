/-
Helper lemmas for C14: the declarative parse inverts the envelope encoding.
-/
import ConfModel.Lemmas.DataTracer
namespace ConfModel.Envelopes
open ConfModel.DataTracer

theorem be32_enc (n : Nat) (h : n < 2 ^ 32) : be32 (be32enc n) = n := by
  simp only [be32, be32enc, List.foldl_cons, List.foldl_nil, UInt8.toNat_ofNat']
  omega

theorem prefixOf_length (e : Env) : (prefixOf e).length = 5 := rfl

theorem envOf_prefixOf (e : Env) (h : e.len < 2 ^ 32) : envOf (prefixOf e) = e := by
  cases e with
  | mk f n =>
    simp only [envOf, prefixOf, List.headD_cons, List.drop_succ_cons, List.drop_zero]
    rw [be32_enc n h]

theorem parseF_fuel : ∀ (n m : Nat) (b : Bytes), b.length < n → b.length < m → parseF n b = parseF m b
  | 0, _, _, h, _ => by omega
  | _, 0, _, _, h => by omega
  | n+1, m+1, b, h1, h2 => by
    rw [parseF_unfold, parseF_unfold]
    by_cases hb : b.isEmpty
    · simp [hb]
    · simp only [hb, Bool.false_eq_true, if_false]
      by_cases h5 : b.length < 5
      · simp [h5]
      · simp only [h5, if_false]
        by_cases hs : (b.drop 5).length < (envOf (b.take 5)).len
        · rw [if_pos hs, if_pos hs]
        · rw [if_neg hs, if_neg hs]
          have hl : ((b.drop 5).drop (envOf (b.take 5)).len).length < b.length := by
            simp only [List.length_drop]; omega
          rw [parseF_fuel n m _ (by omega) (by omega)]

/-- one complete message in front: `parse` splits it off -/
theorem parse_cons (it : Item) (hw : it.wf) (rest : Bytes) :
    parse (encodeItem it ++ rest) = (it :: (parse rest).1, (parse rest).2) := by
  obtain ⟨hlen, hlt⟩ := hw
  unfold parse
  rw [parseF_unfold]
  have hb : (encodeItem it ++ rest).isEmpty = false := by
    simp [encodeItem, prefixOf]
  have hL : (encodeItem it ++ rest).length = 5 + it.env.len + rest.length := by
    simp [encodeItem, prefixOf_length, hlen]; omega
  have h5 : ¬ (encodeItem it ++ rest).length < 5 := by omega
  have ht : (encodeItem it ++ rest).take 5 = prefixOf it.env := by
    simp only [encodeItem, List.append_assoc]
    rw [List.take_append_of_le_length (by simp [prefixOf_length])]
    exact List.take_of_length_le (by simp [prefixOf_length])
  have hd : (encodeItem it ++ rest).drop 5 = it.payload ++ rest := by
    simp only [encodeItem, List.append_assoc]
    rw [List.drop_append_of_le_length (by simp [prefixOf_length])]
    rw [List.drop_of_length_le (by simp [prefixOf_length])]
    simp
  simp only [hb, Bool.false_eq_true, if_false, h5, ht, hd, envOf_prefixOf it.env hlt]
  have hs : ¬ (it.payload ++ rest).length < it.env.len := by simp [hlen]
  simp only [hs, if_false]
  have e1 : (it.payload ++ rest).take it.env.len = it.payload := by
    rw [← hlen]; simp
  have e2 : (it.payload ++ rest).drop it.env.len = rest := by
    rw [← hlen]; simp
  rw [e1, e2, parseF_fuel _ (rest.length + 1) rest (by omega) (by omega)]

/-- `parse` inverts `encode`, whatever follows the complete messages -/
theorem parse_encode_append : ∀ (items : List Item), (∀ it ∈ items, it.wf) → ∀ (rest : Bytes),
    parse (encode items ++ rest) = (items ++ (parse rest).1, (parse rest).2)
  | [], _, rest => by simp [encode]
  | it :: t, hw, rest => by
    have h1 := hw it (by simp)
    have ht : ∀ x ∈ t, x.wf := fun x hx => hw x (by simp [hx])
    have : encode (it :: t) ++ rest = encodeItem it ++ (encode t ++ rest) := by
      simp [encode, List.append_assoc]
    rw [this, parse_cons it h1, parse_encode_append t ht rest]
    simp

theorem parse_nil : parse [] = ([], .clean) := rfl

/-- 1..4 stray bytes: a partial prefix -/
theorem parse_short (t : Bytes) (h0 : 0 < t.length) (h5 : t.length < 5) :
    parse t = ([], .partialPrefix t.length) := by
  unfold parse
  rw [parseF_unfold]
  have : t.isEmpty = false := by cases t <;> simp_all
  simp [this, h5]

/-- a complete prefix and fewer payload bytes than it declares: a partial payload -/
theorem parse_partial (e : Env) (hlt : e.len < 2 ^ 32) (p : Bytes) (hp : p.length < e.len) :
    parse (prefixOf e ++ p) = ([], .partialPayload e p.length) := by
  unfold parse
  rw [parseF_unfold]
  have hb : (prefixOf e ++ p).isEmpty = false := by simp [prefixOf]
  have h5 : ¬ (prefixOf e ++ p).length < 5 := by simp [prefixOf_length]
  have ht : (prefixOf e ++ p).take 5 = prefixOf e := by
    rw [List.take_append_of_le_length (by simp [prefixOf_length])]
    exact List.take_of_length_le (by simp [prefixOf_length])
  have hd : (prefixOf e ++ p).drop 5 = p := by
    rw [List.drop_append_of_le_length (by simp [prefixOf_length])]
    rw [List.drop_of_length_le (by simp [prefixOf_length])]
    simp
  rw [if_neg (by simp [hb]), if_neg h5, ht, hd, envOf_prefixOf e hlt, if_pos hp]

/-- the payload matters only for an end-stream message on the response side -/
theorem itemEvents_payload_irrel (c : Cfg) (e : Env) (p q : Bytes)
    (h : (!c.isRequest && isEndFlag e.flags && e.len != 0) = false) :
    itemEvents c ⟨e, p⟩ = itemEvents c ⟨e, q⟩ := by
  simp [itemEvents, h]

end ConfModel.Envelopes
