/-
Model of `referenceServerChecks` and its helpers in
`internal/app/referenceserver/checks.go`, over an abstract request:
HTTP major version, method, header list (canonical names, in order of `Header.Add`), query
parameter list, TLS state (`none` plain text, `some none` TLS without peer certificate,
`some (some cn)` TLS with a peer certificate of that common name), number of trailer keys,
and whether an immediate read of the body yields EOF.

Every `feedback.Printf` site is one constructor of `Fb`.  The feedback of a request is the
concatenation, in program order, of the feedback of the individual checks; each check is a
function of the few header values it reads (`…Core`), which is what the matrix theorems of
Props/C12 exploit.  `render` is how a protocol-conformant client presents a given tuple of
aspects; `expectHeaders` is what the runner adds (server_runner.go).
-/
import ConfModel.Model.ServerTimeout
namespace ConfModel.ServerChecks
open ConfModel.ServerTimeout (Bytes parseInt)

abbrev Hdrs := List (String × String)

structure Req where
  major : Nat
  method : String
  headers : Hdrs
  query : Hdrs := []
  tls : Option (Option String) := none
  trailers : Nat := 0
  bodyEmpty : Bool := true
  deriving Repr, DecidableEq

/-- `http.Header.Values(name)` / `url.Values[name]` -/
def values (h : Hdrs) (name : String) : List String :=
  h.filterMap (fun kv => if kv.1 == name then some kv.2 else none)

/-- `http.Header.Del(name)` -/
def del (h : Hdrs) (name : String) : Hdrs := h.filter (fun kv => !(kv.1 == name))

def first (vals : List String) : String := vals.head?.getD ""

def hasPrefix (s p : String) : Bool := p.toList.isPrefixOf s.toList

/-- `strings.TrimPrefix(s, p)` when `hasPrefix s p` -/
def dropPrefix (s p : String) : String := String.ofList (s.toList.drop p.toList.length)

def bytesOf (s : String) : Bytes := s.toUTF8.data.toList

inductive Fb
  | repeated
  | dup (name : String)
  | dupQuery (name : String)
  | badValue (name : String)
  | outOfRange (name : String)
  | badExpectedVersion
  | version
  | protocolUnknown
  | protocol
  | te
  | badExpectedCodec
  | getContentType
  | getBody
  | encodingMissing
  | codec
  | badExpectedCompression
  | compression
  | tlsExpected
  | plainExpected
  | clientCert
  | method
  | trailers
  | timeoutEmpty
  | timeoutUnit
  | timeoutNumeric
  | timeoutDigits
  /-- an unclassified message (never produced by the model) -/
  | other (msg : String)
  deriving DecidableEq, Repr

def Fb.toString : Fb → String
  | .repeated => "repeat"
  | .dup n => "dup:" ++ n
  | .dupQuery n => "dupq:" ++ n
  | .badValue n => "badvalue:" ++ n
  | .outOfRange n => "range:" ++ n
  | .badExpectedVersion => "bad-expected-version"
  | .version => "version"
  | .protocolUnknown => "protocol-unknown"
  | .protocol => "protocol"
  | .te => "te"
  | .badExpectedCodec => "bad-expected-codec"
  | .getContentType => "get-content-type"
  | .getBody => "get-body"
  | .encodingMissing => "encoding-missing"
  | .codec => "codec"
  | .badExpectedCompression => "bad-expected-compression"
  | .compression => "compression"
  | .tlsExpected => "tls-expected"
  | .plainExpected => "plain-expected"
  | .clientCert => "client-cert"
  | .method => "method"
  | .trailers => "trailers"
  | .timeoutEmpty => "timeout-empty"
  | .timeoutUnit => "timeout-unit"
  | .timeoutNumeric => "timeout-numeric"
  | .timeoutDigits => "timeout-digits"
  | .other m => "other:" ++ m

/-- the "appears %d times" complaint of `getHeader` -/
def dupFb (name : String) (vals : List String) : List Fb :=
  if vals.length > 1 then [.dup name] else []

def dupQFb (name : String) (vals : List String) : List Fb :=
  if vals.length > 1 then [.dupQuery name] else []

/-- `enumValue`: the header's values, the predicate "is a number of the enum" -/
def enumValue (name : String) (vals : List String) (valid : Int → Bool) : List Fb × Option Int :=
  let fb := dupFb name vals
  match parseInt 32 (bytesOf (first vals)) with
  | none => (fb ++ [.badValue name], none)
  | some n => if valid n then (fb, some n) else (fb ++ [.outOfRange name], none)

def inRange (hi : Int) (n : Int) : Bool := 0 ≤ n && n ≤ hi

/-! ### the individual checks -/

def versionCore (expVals : List String) (major : Nat) : List Fb :=
  let (fb, ev) := enumValue "X-Expect-Http-Version" expVals (inRange 3)
  match ev with
  | none => fb
  | some n =>
    if n == 1 || n == 2 || n == 3 then
      if (major : Int) != n then fb ++ [.version] else fb
    else fb ++ [.badExpectedVersion]

/-- the protocol `checkProtocol` derives from content type and method: 1, 2, 3; 0 = cannot tell -/
def actualProtocol (ct : String) (method : String) : Int :=
  if ct == "application/grpc" || hasPrefix ct "application/grpc+" then 2
  else if ct == "application/grpc-web" || hasPrefix ct "application/grpc-web+" then 3
  else if hasPrefix ct "application/" || method == "GET" then 1
  else 0

def checkProtocol (expected : Int) (ct : String) (method : String) (te : String) : List Fb :=
  let actual := actualProtocol ct method
  if actual == 0 then [.protocolUnknown]
  else if expected != actual then [.protocol]
  else if expected == 2 && te != "trailers" then [.te]
  else []

def liftT (hdr : String) : ServerTimeout.TFb → Fb
  | .dup => .dup hdr
  | .emptyValue => .timeoutEmpty
  | .invalidUnit => .timeoutUnit
  | .invalidNumeric => .timeoutNumeric
  | .tooManyDigits => .timeoutDigits

def protoOf (n : Int) : ServerTimeout.Proto :=
  if n == 1 then .connect else if n == 2 then .grpc else if n == 3 then .grpcWeb else .other

/-- the `X-Expect-Protocol` block: `enumValue`, `checkProtocol`, `extractTimeout`.
Result: feedback, accepted timeout, header to delete. -/
def protocolCore (expVals ctVals teVals : List String) (method : String)
    (connectTO grpcTO : List String) : List Fb × Option Int × Option String :=
  let (fb, ev) := enumValue "X-Expect-Protocol" expVals (inRange 3)
  match ev with
  | none => (fb, none, none)
  | some n =>
    let fb := fb ++ checkProtocol n (first ctVals) method (first teVals)
    match protoOf n with
    | .connect =>
      let r := ServerTimeout.connectTimeout (connectTO.map bytesOf)
      (fb ++ r.feedback.map (liftT "Connect-Timeout-Ms"), r.timeout,
        if r.removed then some "Connect-Timeout-Ms" else none)
    | .grpc | .grpcWeb =>
      let r := ServerTimeout.grpcTimeout (grpcTO.map bytesOf)
      (fb ++ r.feedback.map (liftT "Grpc-Timeout"), r.timeout,
        if r.removed then some "Grpc-Timeout" else none)
    | .other => (fb, none, none)

def codecCore (expVals ctVals : List String) (method : String) (bodyEmpty : Bool)
    (encVals : List String) : List Fb :=
  let (fb, ev) := enumValue "X-Expect-Codec" expVals (inRange 3)
  match ev with
  | none => fb
  | some n =>
    if !(n == 1 || n == 2) then fb ++ [.badExpectedCodec] else
    let expect := if n == 1 then "proto" else "json"
    let fb := fb ++ dupFb "Content-Type" ctVals
    let ct := first ctVals
    let cmp (actual : String) : List Fb := if expect != actual then [.codec] else []
    if method == "GET" then
      let fb := fb ++ (if ctVals.length > 0 then [.getContentType] else [])
        ++ (if !bodyEmpty then [.getBody] else []) ++ dupQFb "encoding" encVals
      if encVals.length > 0 then fb ++ cmp (first encVals) else fb ++ [.encodingMissing]
    else if ct == "application/grpc" || ct == "application/grpc-web" then fb ++ cmp "proto"
    else if hasPrefix ct "application/grpc+" then fb ++ cmp (dropPrefix ct "application/grpc+")
    else if hasPrefix ct "application/grpc-web+" then fb ++ cmp (dropPrefix ct "application/grpc-web+")
    else if hasPrefix ct "application/connect+" then fb ++ cmp (dropPrefix ct "application/connect+")
    else if hasPrefix ct "application/" then fb ++ cmp (dropPrefix ct "application/")
    else fb

def compressionName (n : Int) : Option String :=
  if n == 1 then some "identity" else if n == 2 then some "gzip" else if n == 3 then some "br"
  else if n == 4 then some "zstd" else if n == 5 then some "deflate" else if n == 6 then some "snappy"
  else none

/-- the three headers that can announce the request compression -/
inductive EncHeader | grpc | connectStream | connectUnary
  deriving DecidableEq, Repr

def EncHeader.name : EncHeader → String
  | .grpc => "Grpc-Encoding"
  | .connectStream => "Connect-Content-Encoding"
  | .connectUnary => "Content-Encoding"

/-- which header announces the compression for a content type (`none`: unknown content type) -/
def encodingHeaderFor (ct : String) : Option EncHeader :=
  if ct == "application/grpc" || ct == "application/grpc-web" ||
      hasPrefix ct "application/grpc+" || hasPrefix ct "application/grpc-web+" then some .grpc
  else if hasPrefix ct "application/connect+" then some .connectStream
  else if hasPrefix ct "application/" then some .connectUnary
  else none

/-- `checkCompression`; `kind` = `encodingHeaderFor` of the content type, `queryVals` the
`compression` query values (GET), `hdrVals` the values of each candidate header. -/
def compressionCore (expVals : List String) (kind : Option EncHeader) (method : String)
    (queryVals : List String) (hdrVals : EncHeader → List String) : List Fb :=
  let (fb, ev) := enumValue "X-Expect-Compression" expVals (inRange 6)
  match ev with
  | none => fb
  | some n =>
    match compressionName n with
    | none => fb ++ [.badExpectedCompression]
    | some expect =>
      let cmp (vals : List String) : List Fb :=
        let actual := if vals.length > 0 then first vals else "identity"
        if expect != actual then [.compression] else []
      if method == "GET" then fb ++ dupQFb "compression" queryVals ++ cmp queryVals
      else match kind with
        | none => fb
        | some h => fb ++ dupFb h.name (hdrVals h) ++ cmp (hdrVals h)

/-- `strconv.ParseBool` -/
def parseBool (s : String) : Option Bool :=
  if s == "1" || s == "t" || s == "T" || s == "TRUE" || s == "true" || s == "True" then some true
  else if s == "0" || s == "f" || s == "F" || s == "FALSE" || s == "false" || s == "False" then some false
  else none

def tlsCore (expTls expCert : List String) (tls : Option (Option String)) : List Fb :=
  let fb := dupFb "X-Expect-Tls" expTls
  match parseBool (first expTls) with
  | none => fb ++ [.badValue "X-Expect-Tls"]
  | some expectTLS =>
    match tls with
    | none => if expectTLS then fb ++ [.tlsExpected] else fb
    | some peer =>
      if !expectTLS then fb ++ [.plainExpected] else
      let fb := fb ++ dupFb "X-Expect-Client-Cert" expCert
      if first expCert != peer.getD "" then fb ++ [.clientCert] else fb

def methodCore (expVals : List String) (method : String) : List Fb :=
  dupFb "X-Expect-Http-Method" expVals ++ (if method != first expVals then [.method] else [])

/-! ### the handler -/

def fbRepeat (count : Nat) : List Fb := if count > 0 then [.repeated] else []

def fbVersion (r : Req) : List Fb := versionCore (values r.headers "X-Expect-Http-Version") r.major

def protocolBlock (r : Req) : List Fb × Option Int × Option String :=
  protocolCore (values r.headers "X-Expect-Protocol") (values r.headers "Content-Type")
    (values r.headers "Te") r.method (values r.headers "Connect-Timeout-Ms") (values r.headers "Grpc-Timeout")

/-- the request after `extractTimeout` deleted the timeout header -/
def afterTimeout (r : Req) : Req :=
  match (protocolBlock r).2.2 with
  | none => r
  | some h => { r with headers := del r.headers h }

def fbCodec (r : Req) : List Fb :=
  codecCore (values r.headers "X-Expect-Codec") (values r.headers "Content-Type") r.method r.bodyEmpty
    (values r.query "encoding")

def encVals (r : Req) : EncHeader → List String
  | .grpc => values r.headers "Grpc-Encoding"
  | .connectStream => values r.headers "Connect-Content-Encoding"
  | .connectUnary => values r.headers "Content-Encoding"

def fbCompression (r : Req) : List Fb :=
  compressionCore (values r.headers "X-Expect-Compression")
    (encodingHeaderFor (first (values r.headers "Content-Type"))) r.method
    (values r.query "compression") (encVals r)

def fbTLS (r : Req) : List Fb :=
  tlsCore (values r.headers "X-Expect-Tls") (values r.headers "X-Expect-Client-Cert") r.tls

def fbMethod (r : Req) : List Fb := methodCore (values r.headers "X-Expect-Http-Method") r.method

def fbTrailers (r : Req) : List Fb := if r.trailers > 0 then [.trailers] else []

structure Outcome where
  /-- no test name: an error response, the inner handler is not called -/
  rejected : Bool
  feedback : List Fb := []
  /-- the timeout recorded in the context for `RequestInfo.timeout_ms` (ns) -/
  timeout : Option Int := none
  /-- the headers the inner handler sees -/
  seen : Hdrs := []
  deriving Repr, DecidableEq

def testName (r : Req) : String := first (values r.headers "X-Test-Case-Name")

/-- one call of the handler returned by `referenceServerChecks`; `count` = earlier requests
with the same test name. -/
def checks (count : Nat) (r : Req) : Outcome :=
  if testName r == "" then { rejected := true } else
  let r' := afterTimeout r
  { rejected := false
    feedback := fbRepeat count ++ fbVersion r ++ (protocolBlock r).1 ++ fbCodec r' ++ fbCompression r'
      ++ fbTLS r' ++ fbMethod r' ++ fbTrailers r'
    timeout := (protocolBlock r).2.1
    seen := r'.headers }

/-- the `calls` map -/
def countOf (calls : List String) (name : String) : Nat := (calls.filter (· == name)).length

/-- a sequence of requests against one handler instance -/
def serve : List String → List Req → List Outcome
  | _, [] => []
  | calls, r :: rs =>
    let o := checks (countOf calls (testName r)) r
    o :: serve (if o.rejected then calls else testName r :: calls) rs

/-! ### the handler chain `createServer` builds in reference mode

`cors ∘ [tracing] ∘ rawResponder ∘ referenceServerChecks ∘ pretendHTTP2 ∘ mux`: the checks run on
the request as it arrived; only the innermost wrapper, directly around connect-go's mux,
presents an HTTP/1.x request for the BidiStream procedure as HTTP/2 (connect-go refuses bidi
streams below HTTP/2; the conformance suite tests half-duplex bidi over HTTP/1.1). CORS,
tracing and the raw responder do not touch what the checks read. -/

def bidiStreamProcedure : String := "/connectrpc.conformance.v1.ConformanceService/BidiStream"

def hasSuffix (s p : String) : Bool := p.toList.reverse.isPrefixOf s.toList.reverse

/-- the wrapper around the mux: `req.ProtoMajor, req.ProtoMinor = 2, 0` for HTTP/1 bidi -/
def pretendHTTP2 (path : String) (r : Req) : Req :=
  if hasSuffix path bidiStreamProcedure && r.major == 1 then { r with major := 2 } else r

structure ChainOutcome where
  /-- what `referenceServerChecks` made of the request -/
  outcome : Outcome
  /-- the request connect-go's mux receives (`none`: rejected before) -/
  inner : Option Req
  deriving Repr, DecidableEq

/-- one request for URL path `path` through the chain; `count` as in `checks` -/
def serverChain (count : Nat) (path : String) (r : Req) : ChainOutcome :=
  let o := checks count r
  { outcome := o
    inner := if o.rejected then none else some (pretendHTTP2 path (afterTimeout r)) }

/-- a sequence of requests (all for `path`) against one server -/
def serveChain (path : String) : List String → List Req → List ChainOutcome
  | _, [] => []
  | calls, r :: rs =>
    let o := serverChain (countOf calls (testName r)) path r
    o :: serveChain path (if o.outcome.rejected then calls else testName r :: calls) rs

/-! ### how a conformant client presents a tuple of aspects -/

inductive Version | h1 | h2 | h3 deriving DecidableEq, Repr
inductive Method | post | get deriving DecidableEq, Repr
inductive Protocol | connect | grpc | grpcWeb deriving DecidableEq, Repr
inductive Codec | proto | json deriving DecidableEq, Repr
inductive Compression | identity | gzip | br | zstd | deflate | snappy deriving DecidableEq, Repr

structure Aspects where
  version : Version
  method : Method
  protocol : Protocol
  codec : Codec
  compression : Compression
  tls : Bool
  cert : Bool
  deriving DecidableEq, Repr

/-- presentation choices the protocols leave to the client -/
structure Variant where
  /-- Connect POST: a streaming RPC (`application/connect+codec`, `Connect-Content-Encoding`) -/
  stream : Bool
  /-- identity compression announced explicitly instead of by omission -/
  explicitIdentity : Bool
  /-- gRPC / gRPC-Web with the proto codec: content type without the `+proto` suffix -/
  bareGrpc : Bool
  deriving DecidableEq, Repr

def Version.num : Version → Nat | .h1 => 1 | .h2 => 2 | .h3 => 3
def Method.str : Method → String | .post => "POST" | .get => "GET"
def Protocol.num : Protocol → Nat | .connect => 1 | .grpc => 2 | .grpcWeb => 3
def Codec.num : Codec → Nat | .proto => 1 | .json => 2
def Codec.str : Codec → String | .proto => "proto" | .json => "json"
def Compression.num : Compression → Nat
  | .identity => 1 | .gzip => 2 | .br => 3 | .zstd => 4 | .deflate => 5 | .snappy => 6
def Compression.str : Compression → String
  | .identity => "identity" | .gzip => "gzip" | .br => "br" | .zstd => "zstd"
  | .deflate => "deflate" | .snappy => "snappy"

def digit (n : Nat) : String := String.ofList [Char.ofNat (48 + n)]

def clientCertName : String := "Conformance Client"

/-- the headers the runner adds for the reference server (server_runner.go) -/
def expectHeaders (e : Aspects) (name : String) : Hdrs :=
  [("X-Test-Case-Name", name),
   ("X-Expect-Http-Version", digit e.version.num),
   ("X-Expect-Http-Method", e.method.str),
   ("X-Expect-Protocol", digit e.protocol.num),
   ("X-Expect-Codec", digit e.codec.num),
   ("X-Expect-Compression", digit e.compression.num),
   ("X-Expect-Tls", if e.tls then "true" else "false")]
  ++ (if e.cert then [("X-Expect-Client-Cert", clientCertName)] else [])

/-- a GET is only possible with Connect, a client certificate only with TLS -/
def Aspects.realisable (a : Aspects) : Bool :=
  (a.method == .post || a.protocol == .connect) && (!a.cert || a.tls)

def contentTypeF (m : Method) (p : Protocol) (c : Codec) (stream bare : Bool) : Hdrs :=
  match m with
  | .get => []
  | .post =>
    match p with
    | .connect =>
      [("Content-Type", (if stream then "application/connect+" else "application/") ++ c.str)]
    | .grpc =>
      [("Content-Type", if bare && c == .proto then "application/grpc" else "application/grpc+" ++ c.str)]
    | .grpcWeb =>
      [("Content-Type", if bare && c == .proto then "application/grpc-web"
        else "application/grpc-web+" ++ c.str)]

def contentType (a : Aspects) (v : Variant) : Hdrs :=
  contentTypeF a.method a.protocol a.codec v.stream v.bareGrpc

def announcedF (z : Compression) (explicit : Bool) : Bool := z != .identity || explicit

def encodingHeaderF (m : Method) (p : Protocol) (z : Compression) (stream explicit : Bool) : Hdrs :=
  match m with
  | .get => []
  | .post =>
    if !announcedF z explicit then [] else
    match p with
    | .connect => [(if stream then "Connect-Content-Encoding" else "Content-Encoding", z.str)]
    | .grpc | .grpcWeb => [("Grpc-Encoding", z.str)]

def encodingHeader (a : Aspects) (v : Variant) : Hdrs :=
  encodingHeaderF a.method a.protocol a.compression v.stream v.explicitIdentity

def teHeaderF (m : Method) (p : Protocol) : Hdrs :=
  match m, p with
  | .post, .grpc => [("Te", "trailers")]
  | _, _ => []

def teHeader (a : Aspects) : Hdrs := teHeaderF a.method a.protocol

def queryF (m : Method) (c : Codec) (z : Compression) (explicit : Bool) : Hdrs :=
  match m with
  | .post => []
  | .get =>
    [("connect", "v1"), ("encoding", c.str), ("message", "")]
    ++ (if announcedF z explicit then [("compression", z.str)] else [])

def queryOf (a : Aspects) (v : Variant) : Hdrs := queryF a.method a.codec a.compression v.explicitIdentity

def tlsF (tls cert : Bool) : Option (Option String) :=
  if tls then some (if cert then some clientCertName else none) else none

def tlsOf (a : Aspects) : Option (Option String) := tlsF a.tls a.cert

/-- the request a conformant client sends for test `name` when the runner expects `e` and the
client actually uses `a` (presentation choices `v`) -/
def render (e : Aspects) (name : String) (a : Aspects) (v : Variant) : Req :=
  { major := a.version.num
    method := a.method.str
    headers := expectHeaders e name ++ contentType a v ++ encodingHeader a v ++ teHeader a
    query := queryOf a v
    tls := tlsOf a
    trailers := 0
    bodyEmpty := a.method == .get }

/-! ### the request body as the checks see it, and wrappers around it

`checkCodec` probes a GET request for a body with a zero-length read, `req.Body.Read([]byte{})`,
and takes anything but `io.EOF` for "there is a body" (`http.NoBody` answers `io.EOF`).  With a
tracer, `createServer` puts `tracer.TracingHandler` *around* `referenceServerChecks`: the checks
then probe the `tracingReader` that wraps the body.  `Req.bodyEmpty` is "the probe answers
`io.EOF`"; a wrapper is, as far as the checks can tell, how it answers the probe given what the
wrapped body answers. -/

/-- the answers to `Read([]byte{})`: `(0, io.EOF)`, `(0, nil)`, `(0, another error)` -/
inductive Probe | eof | nothing | failed
  deriving DecidableEq, Repr

def Probe.isEOF : Probe → Bool
  | .eof => true
  | _ => false

abbrev BodyWrapper := Probe → Probe

/-- a wrapper that forwards reads verbatim (C14/C15: the tracer is transparent) -/
def BodyWrapper.transparent (w : BodyWrapper) : Prop := ∀ p, w p = p

/-- `tracingReader.Read`: `n, err = t.reader.Read(data)`; trace `data[:n]`; `return n, err` -/
def tracingRead : BodyWrapper := fun p => p

/-- no wrapper (no tracer) -/
def noWrapper : BodyWrapper := fun p => p

/-- the request with a body that answers `p` to the probe -/
def withBody (r : Req) (p : Probe) : Req := { r with bodyEmpty := p.isEOF }

/-- one request through the chain `createServer` builds when the body reaches the checks through
the wrapper `w` (with a tracer: `tracingRead`; without: `noWrapper`); `p` is what the body as
received answers to the probe -/
def serverChainW (w : BodyWrapper) (count : Nat) (path : String) (r : Req) (p : Probe) : ChainOutcome :=
  serverChain count path (withBody r (w p))

/-- a sequence of requests (with their bodies' answers) against one server -/
def serveChainW (w : BodyWrapper) (path : String) (calls : List String) (rs : List (Req × Probe)) : List ChainOutcome :=
  serveChain path calls (rs.map fun rp => withBody rp.1 (w rp.2))

/-- what the body of a conformant request answers: a GET has no body -/
def conformantProbe (a : Aspects) (p : Probe) : Bool := a.method != .get || p == .eof

end ConfModel.ServerChecks
