import ConfModel.Driver.Common
namespace ConfModel.Driver.C12
open Lean ConfModel.Driver

def handle : Handler := fun op _inp _impl => bad ("C12: unknown op " ++ op)

end ConfModel.Driver.C12
