/-
C17 — what two goroutines arbitrating one rawResponseWriter may show: interleavings of atomic
steps, and the two pure outcomes.
-/
import ConfModel.Model.RawRace
import ConfModel.Spec.RawBody
namespace ConfModel.RawRaceSpec
open ConfModel.RawBody ConfModel.RawBodySpec

/-- `l` is an interleaving of the step lists `xs` and `ys` (each keeps its own order) -/
inductive Interleaving {α : Type} : List α → List α → List α → Prop
  | nil : Interleaving [] [] []
  | left {x xs ys l} : Interleaving xs ys l → Interleaving (x :: xs) ys (x :: l)
  | right {y xs ys l} : Interleaving xs ys l → Interleaving xs (y :: ys) (y :: l)

/-- all-normal: the wire is exactly the handler's output; every `setRawResponse` was refused -/
def allNormal (handler : List Ev) (wire : List Ev) (results : List Res) : Prop :=
  wire = handler ∧ ∀ x ∈ results, x = .passed ∨ x = .refused

/-- all-raw: the wire is exactly the raw response; every `setRawResponse` was accepted, every
handler operation swallowed -/
def allRaw (r : Raw) (wire : List Ev) (results : List Res) : Prop :=
  wire = rawEvents r ∧ ∀ x ∈ results, x = .swallowed ∨ x = .accepted

/-- the driver's predicate on what the harness counted -/
def countsHold (rounds allRaw allNormal mixed : Nat) : Bool :=
  mixed == 0 && allRaw + allNormal == rounds

end ConfModel.RawRaceSpec
