package main

// C14 — body events of streams traced at the HTTP/2 CONNECTION level (tracer.TracingHTTP2Conn /
// TracingHTTP2Listener: how the runner traces gRPC peers).  There the request and response
// dataTracers of a stream are fed the payloads of its DATA frames, and emitUnfinished is called by
// whatever ends the stream: once when the request ends, and again — together with the response
// tracer's — when the stream as a whole ends (END_STREAM of the response, RST_STREAM, GOAWAY, loss
// of the connection), in either order.  Op "h2" runs a framer-built exchange (the machinery of the
// C15 ops: real Framer + hpack encoder, scripted net.Conn, Read/Write partitions, caller-reuses-
// one-array discipline) and reports, per test name, the body events in C14's canonical form.

import (
	"bytes"
	"encoding/json"
	"fmt"
	"sort"
	"strings"

	"connectrpc.com/conformance/internal/verifharness/gen"
	"golang.org/x/net/http2"
)

// c14H2Frame is a frame of the exchange as the sender describes it: a c15Frame, and for a DATA
// frame optionally the PADDED flag with the padding octets (RFC 9113 6.1: Pad Length octet in
// front of the data, padding behind it; neither is body).  Padded = true with PadX = "" is the
// PADDED flag with Pad Length 0.  The padding octets are arbitrary (a receiver does not check
// them): zeros, random bytes, bytes that look like envelopes.
type c14H2Frame struct {
	c15Frame
	Padded bool   `json:"padded,omitempty"`
	PadX   string `json:"padx,omitempty"`
}

// c14H2Lower turns the described frames into what c15Build puts on the wire: a padded DATA frame
// becomes the raw bytes the real Framer writes for it (WriteDataPadded, non-nil padding).
func c14H2Lower(frames []c14H2Frame) []c15Frame {
	out := make([]c15Frame, len(frames))
	for i, f := range frames {
		out[i] = f.c15Frame
		if f.T != "D" || !f.Padded {
			continue
		}
		var buf bytes.Buffer
		fr := http2.NewFramer(&buf, nil)
		fr.AllowIllegalWrites = true
		pad := append([]byte{}, c15Unhex(f.PadX)...) // non-nil: the PADDED flag is set also for no padding octets
		if err := fr.WriteDataPadded(f.ID, f.ES, c15Unhex(f.X), pad); err != nil {
			panic("padded DATA frame: " + err.Error())
		}
		out[i] = c15Frame{D: f.D, T: "X", ID: f.ID, X: gen.Hex(buf.Bytes())}
	}
	return out
}

type c14H2In struct {
	Server bool         `json:"server"`
	Frames []c14H2Frame `json:"frames"`
	Calls  [][]any    `json:"calls"`
	Reuse  int        `json:"reuse,omitempty"`
	Note   string     `json:"note,omitempty"`
}

type c14H2Trace struct {
	Name   string   `json:"name"`
	Events []string `json:"events"`
}

type c14H2Out struct {
	Traces      []c14H2Trace `json:"traces"`
	Transparent bool         `json:"transparent"`
	Viol        string       `json:"viol,omitempty"`
	Slow        bool         `json:"slow,omitempty"`
}

func init() {
	gen.RegisterOp("c14", "h2", func(_ *gen.Ctx, raw json.RawMessage) any {
		in := gen.Into[c14H2In](raw)
		return c14H2(&in)
	})
}

func c14H2(in *c14H2In) c14H2Out {
	res := c15Conn(&c15In{Server: in.Server, Legal: true, Frames: c14H2Lower(in.Frames), Calls: in.Calls, Reuse: in.Reuse})
	out := c14H2Out{Traces: []c14H2Trace{}, Transparent: res.Transparent, Viol: res.Viol, Slow: res.Slow}
	errCls := func(v any) string {
		if c15Str(v) == "nil" {
			return "nil"
		}
		return "other"
	}
	data := func(side string, ev []any) string {
		if c15Num(ev[1]) < 0 {
			return fmt.Sprintf("%sd:-:-:%d:%d", side, c15Num(ev[3]), c15Num(ev[4]))
		}
		return fmt.Sprintf("%sd:%d:%d:%d:%d", side, c15Num(ev[1]), c15Num(ev[2]), c15Num(ev[3]), c15Num(ev[4]))
	}
	for _, t := range res.Traces {
		tr := c14H2Trace{Name: t.Name, Events: []string{}}
		for _, ev := range t.Events {
			switch c15Str(ev[0]) {
			case "reqData":
				tr.Events = append(tr.Events, data("q", ev))
			case "reqEnd":
				tr.Events = append(tr.Events, "qe:"+errCls(ev[1]))
			case "respStart":
				tr.Events = append(tr.Events, "P")
			case "respData":
				tr.Events = append(tr.Events, data("p", ev))
			case "respEos":
				tr.Events = append(tr.Events, "ps:"+c15Str(ev[1]))
			case "respEnd":
				tr.Events = append(tr.Events, "pe:"+errCls(ev[1]))
			case "canceled":
				tr.Events = append(tr.Events, "QC")
			}
		}
		out.Traces = append(out.Traces, tr)
	}
	return out
}

// c14H2Cases: one named stream; the request body cut at EVERY position (inside the prefix after
// 1..4 bytes, inside a payload, on a message boundary) at the moment the other direction ends, the
// response body cut at a few; every order of the two ends; a few partitions into Read/Write calls;
// both sides; every other case with a caller that reuses its arrays.
func c14H2Cases(c *gen.Ctx) {
	r, e := c.R, c.E
	reqBody := append(c15Msg(0, []byte("ab")), c15Msg(1, []byte("hello!"))...)
	respBody := append(c15Msg(0, []byte("xyz")), c15Msg(2, []byte("{}"))...)
	reqCTs := []string{"application/grpc", "application/connect+proto", "application/grpc-web+proto", "application/proto"}
	// how the stream ends, seen from the request: its own END_STREAM first, or the other side first
	endings := []string{
		"req-es,resp-trailers", "req-es,resp-data-es", "req-es,resp-rst", "req-es,goaway", "req-es,close", "req-trailers,resp-trailers",
		"resp-trailers-only", "resp-trailers", "resp-data-es", "resp-rst", "goaway", "close", "req-rst", "resp-rst-before-headers",
	}
	n := 0
	sid := uint32(1)
	emit := func(server bool, frames []c15Frame, part func(int, int) []int, note string, scheme int) {
		n++
		for i := range frames {
			if frames[i].T != "G" {
				frames[i].ID = sid
			}
		}
		described := c14H2Pad(r, frames, scheme)
		wire := c14H2Lower(described)
		_, _, lens := c15Build(wire)
		calls := append(c15Calls(server, c15Runs(wire, lens), part), c15Close...)
		in := c14H2In{Server: server, Frames: described, Calls: calls, Note: note}
		if n%2 == 0 {
			in.Reuse = 1 + n%3
		}
		c14Do(c, "h2", in)
		e.Count("h2:" + note)
		e.Count("h2:padding:" + c14H2PadSchemes[scheme])
	}
	parts := []func(int, int) []int{c15Whole, c15Fixed(1), c15Fixed(3), c15RandPart(r), c15Fixed(7)}
	k := 0
	for cut := 0; cut <= len(reqBody); cut++ {
		for _, ending := range endings {
			if c.Thorough() || (cut+len(ending))%2 == 0 || cut <= 5 {
				for _, server := range []bool{false, true} {
					k++
					ct := reqCTs[k%len(reqCTs)]
					body := reqBody[:cut]
					frames := []c15Frame{c15H("q", c15ReqFields("h2", ct, "/svc.S/M"), false)}
					reqES := strings.HasPrefix(ending, "req-es")
					reqTrailers := strings.HasPrefix(ending, "req-trailers")
					pieces := c15Split(r, body, 1+k%3)
					for i, p := range pieces {
						frames = append(frames, c15D("q", p, reqES && i == len(pieces)-1))
					}
					if reqTrailers {
						frames = append(frames, c15H("q", [][2]string{{"x-req-trailer", "t"}}, true))
					}
					rcut := []int{len(respBody), 0, 3, 8, 9, 12}[k%6]
					rct := []string{"application/grpc", "application/connect+proto", "application/json"}[k%3]
					respHdr := c15H("p", c15RespFields("200", rct), false)
					trailers := c15H("p", [][2]string{{"grpc-status", "0"}}, true)
					switch ending {
					case "req-es,resp-trailers", "req-trailers,resp-trailers", "resp-trailers":
						frames = append(frames, respHdr, c15D("p", respBody[:rcut], false), trailers)
					case "req-es,resp-data-es", "resp-data-es":
						frames = append(frames, respHdr, c15D("p", respBody[:rcut], true))
					case "req-es,resp-rst", "resp-rst":
						frames = append(frames, respHdr, c15D("p", respBody[:rcut], false), c15R("p", 8))
					case "req-es,goaway", "goaway":
						frames = append(frames, respHdr, c15D("p", respBody[:rcut], false), c15Frame{D: "p", T: "G", Last: 0, Code: 2})
					case "req-es,close", "close":
						frames = append(frames, respHdr, c15D("p", respBody[:rcut], false))
					case "resp-trailers-only":
						frames = append(frames, c15H("p", c15RespFields("200", rct, [2]string{"grpc-status", "8"}), true))
					case "req-rst":
						frames = append(frames, respHdr, c15R("q", 8))
					case "resp-rst-before-headers":
						frames = append(frames, c15R("p", 2))
					}
					if !reqES && !reqTrailers && k%4 == 0 {
						// the client goes on sending after the stream is gone
						frames = append(frames, c15D("q", reqBody[cut:], true))
					}
					// every third exchange: its DATA frames padded, the scheme changing from case to case
					scheme := 0
					if k%3 == 2 {
						scheme = 1 + (k/3)%(len(c14H2PadSchemes)-1)
					}
					emit(server, frames, parts[k%len(parts)], ending, scheme)
				}
			}
		}
	}
	// ---- GOAWAY with last-stream-id below / EQUAL / above the stream's id (and 2^31-1), from either peer,
	// before, in the middle of and after the bodies, followed by MORE body frames and the regular end:
	// a stream with id <= last-stream-id is still served, its body events are those of ALL bytes
	respMsgs := append(append(c15Msg(0, []byte("xyz")), c15Msg(1, []byte("more"))...), c15Msg(2, []byte("{}"))...)
	for _, id := range []uint32{1, 3} {
		sid = id
		for _, last := range []uint32{0, id - 1, id, id + 2, 1<<31 - 1} {
			if last == id-1 && id == 1 {
				continue // = 0
			}
			for pos := 0; pos < 4; pos++ {
				for gi, gdir := range []string{"p", "q"} {
					for _, server := range []bool{false, true} {
						k++
						if !c.Thorough() && last != id && (k+pos)%2 == 0 {
							continue
						}
						cut := []int{2, 7, 12, len(reqBody)}[(k+gi)%4]
						goaway := c15Frame{D: gdir, T: "G", Last: last, Code: []uint32{0, 0, 2}[k%3]}
						ct := reqCTs[k%3]
						frames := []c15Frame{c15H("q", c15ReqFields("h2", ct, "/svc.S/M"), false)}
						if pos == 0 {
							frames = append(frames, goaway)
						}
						frames = append(frames, c15D("q", reqBody[:cut], false))
						if pos == 1 {
							frames = append(frames, goaway)
						}
						frames = append(frames, c15D("q", reqBody[cut:], true),
							c15H("p", c15RespFields("200", []string{"application/grpc", "application/connect+proto"}[k%2]), false),
							c15D("p", respMsgs[:10], false))
						if pos == 2 {
							frames = append(frames, goaway)
						}
						frames = append(frames, c15D("p", respMsgs[10:], false), c15H("p", [][2]string{{"grpc-status", "0"}}, true))
						if pos == 3 {
							frames = append(frames, goaway)
						}
						rel := "below"
						if last == id {
							rel = "equal"
						} else if last > id {
							rel = "above"
						}
						scheme := 0
						if k%4 == 1 {
							scheme = 1 + (k/4)%(len(c14H2PadSchemes)-1)
						}
						emit(server, frames, parts[k%len(parts)], "goaway-last-"+rel, scheme)
					}
				}
			}
		}
	}
	sid = 1
	// ---- padded DATA frames x how the bodies are cut into DATA frames relative to the envelopes: the whole
	// body in one frame, one frame per message, prefix and payload in frames of their own, cuts in the
	// middle of prefixes and payloads, every byte in a frame of its own, empty frames in between, random
	// cuts; x every padding scheme; x how the directions end (END_STREAM on the last data-bearing frame /
	// on a padded EMPTY frame / by trailers); x both sides
	layouts := []struct {
		name string
		cuts func(body []byte, bounds []int) []int
	}{
		{"whole", func(b []byte, _ []int) []int { return nil }},
		{"per-message", func(_ []byte, bounds []int) []int { return bounds }},
		{"prefix-payload", func(_ []byte, bounds []int) []int {
			out, prev := []int{}, 0
			for _, b := range bounds {
				out = append(out, prev+5, b)
				prev = b
			}
			return out
		}},
		{"mid-prefix-mid-payload", func(_ []byte, bounds []int) []int {
			out, prev := []int{}, 0
			for i, b := range bounds {
				out = append(out, prev+1+i%4, b-1)
				prev = b
			}
			return out
		}},
		{"every-byte", func(b []byte, _ []int) []int {
			out := []int{}
			for i := 1; i < len(b); i++ {
				out = append(out, i)
			}
			return out
		}},
		{"empty-frames", func(_ []byte, bounds []int) []int {
			out := []int{0}
			for _, b := range bounds {
				out = append(out, b, b)
			}
			return out
		}},
		{"random", func(b []byte, _ []int) []int {
			out := []int{}
			for i := 0; i < 3; i++ {
				out = append(out, r.Intn(len(b)+1))
			}
			sort.Ints(out)
			return out
		}},
	}
	cutUp := func(body []byte, cuts []int) [][]byte {
		out, prev := [][]byte{}, 0
		for _, at := range cuts {
			if at < prev {
				at = prev
			}
			if at > len(body) {
				at = len(body)
			}
			out = append(out, body[prev:at])
			prev = at
		}
		return append(out, body[prev:])
	}
	reqBounds := []int{7}      // reqBody: a 2-byte and a 6-byte message
	respBounds := []int{8, 17} // respMsgs: 3, 4 and (end-stream) 2 bytes
	for li, lay := range layouts {
		for scheme := 1; scheme < len(c14H2PadSchemes); scheme++ {
			for end := 0; end < 3; end++ {
				for _, server := range []bool{false, true} {
					k++
					if !c.Thorough() && (li+scheme+end)%2 == 1 && scheme > 4 {
						continue
					}
					qct := reqCTs[k%3]
					pct := []string{"application/grpc", "application/connect+proto", "application/grpc-web+proto"}[(k/3)%3]
					frames := []c15Frame{c15H("q", c15ReqFields("h2", qct, "/svc.S/M"), false)}
					qp := cutUp(reqBody, lay.cuts(reqBody, reqBounds))
					for i, p := range qp {
						frames = append(frames, c15D("q", p, end == 0 && i == len(qp)-1))
					}
					switch end {
					case 1:
						frames = append(frames, c15D("q", nil, true)) // END_STREAM on an empty DATA frame
					case 2:
						frames = append(frames, c15H("q", [][2]string{{"x-req-trailer", "t"}}, true))
					}
					frames = append(frames, c15H("p", c15RespFields("200", pct), false))
					pp := cutUp(respMsgs, lay.cuts(respMsgs, respBounds))
					for i, p := range pp {
						frames = append(frames, c15D("p", p, end == 0 && i == len(pp)-1))
					}
					switch end {
					case 1:
						frames = append(frames, c15D("p", nil, true))
					case 2:
						frames = append(frames, c15H("p", [][2]string{{"grpc-status", "0"}}, true))
					}
					emit(server, frames, parts[k%len(parts)], "padded:"+lay.name, scheme)
				}
			}
		}
	}
	// ---- DATA frames LARGER than the initial SETTINGS_MAX_FRAME_SIZE (16384; a peer may raise the limit up to
	// 2^24-1, net/http's server advertises 1 MiB): a body of a few envelopes cut into DATA frames whose data is
	// exactly 16384 (the last size every peer accepts), 16385, 40000, 65536 bytes (one exchange: 2^20 in both
	// directions) x {the whole body in one frame, one big frame + a small tail, the big frame starting inside a
	// prefix and ending inside the next message's prefix with two envelope boundaries inside it} x the big
	// frame in the request / in the response x unpadded / padded (the padded frame's payload is longer still)
	// x both sides x the way the direction ends.  The body events are those of the data bytes, whatever the framing.
	bigParts := []func(int, int) []int{c15Whole, c15Fixed(16384), c15RandPart(r), c15Fixed(65536), c15Fixed(1000)}
	bigBody := func(size int) []byte { // exactly size bytes: three complete envelopes
		m1 := c15Msg(0, c15Filler(size/3))
		m2 := c15Msg(1, []byte("hello!"))
		m3 := c15Msg(0, c15Filler(size-len(m1)-len(m2)-5))
		return append(append(m1, m2...), m3...)
	}
	bigLayouts := []struct {
		name string
		tail bool
		cuts func(size int) []int
	}{
		{"one-frame", false, func(int) []int { return nil }},
		{"big-frame+tail", true, func(size int) []int { return []int{size} }},
		{"boundaries-inside-big-frame", true, func(size int) []int { return []int{3, size + 3} }},
	}
	bigCase := func(size, li int, bigQ, bigP, server bool, scheme int) {
		k++
		lay := bigLayouts[li]
		qb, pb := reqBody, respMsgs
		var qcuts, pcuts []int
		if bigQ {
			qb, qcuts = bigBody(size), lay.cuts(size)
			if lay.tail {
				qb = append(qb, c15Msg(0, []byte("tail"))...)
			}
		}
		if bigP {
			pb, pcuts = bigBody(size), lay.cuts(size)
			if lay.tail {
				pb = append(pb, c15Msg(2, []byte("{}"))...)
			}
		}
		trailers := k%2 == 0
		frames := []c15Frame{c15H("q", c15ReqFields("h2", reqCTs[k%3], "/svc.S/M"), false)}
		qp := cutUp(qb, qcuts)
		for i, p := range qp {
			frames = append(frames, c15D("q", p, !trailers && i == len(qp)-1))
		}
		if trailers {
			frames = append(frames, c15H("q", [][2]string{{"x-req-trailer", "t"}}, true))
		}
		pct := []string{"application/grpc", "application/connect+proto", "application/grpc-web+proto"}[(k/3)%3]
		frames = append(frames, c15H("p", c15RespFields("200", pct), false))
		pp := cutUp(pb, pcuts)
		for i, p := range pp {
			frames = append(frames, c15D("p", p, !trailers && i == len(pp)-1))
		}
		if trailers {
			frames = append(frames, c15H("p", [][2]string{{"grpc-status", "0"}}, true))
		}
		emit(server, frames, bigParts[k%len(bigParts)], "big-data-frame:"+lay.name, scheme)
		e.Count(fmt.Sprintf("h2:big-data-frame-size:%d", size))
	}
	for _, size := range []int{16384, 16385, 40000, 65536} {
		for li := range bigLayouts {
			for dir := 0; dir < 2; dir++ {
				for pi := 0; pi < 2; pi++ {
					for _, server := range []bool{false, true} {
						scheme := 0
						if pi == 1 {
							scheme = 1 + k%(len(c14H2PadSchemes)-1)
						}
						bigCase(size, li, dir == 0, dir == 1, server, scheme)
					}
				}
			}
		}
	}
	bigCase(1<<20, 2, true, true, false, 2)
}

// c14H2PadSchemes: how the DATA frames of an exchange are padded
var c14H2PadSchemes = []string{
	"none",
	"pad-length-0",     // PADDED flag, Pad Length octet 0, no padding octets
	"pad-length-1",     // one zero octet
	"pad-length-255",   // the maximum
	"random",           // per frame: none, or a random length (0, 1, 2, 5, 17, 255, anything) of random octets
	"envelope-like",    // padding octets that read as envelope prefixes / complete messages / end-stream messages
	"ends-and-empties", // only the frames carrying END_STREAM and the empty frames are padded
	"random-zeros",     // per frame a random number of zero octets
}

// c14H2Pad describes the padding of every DATA frame of the exchange according to the scheme.
func c14H2Pad(r *gen.Rand, frames []c15Frame, scheme int) []c14H2Frame {
	out := make([]c14H2Frame, len(frames))
	envLike := [][]byte{
		{0, 0, 0, 0, 1, 'A'}, {2, 0, 0, 0, 2, '{', '}'}, {0x80, 0, 0, 0, 0}, {1}, {0, 0, 0, 0, 0, 0, 0, 0, 0, 0}, {0, 0, 0, 1},
		{3, 0xff, 0xff, 0xff, 0xff},
	}
	nd := 0
	for i, f := range frames {
		out[i] = c14H2Frame{c15Frame: f}
		if f.T != "D" || scheme == 0 {
			continue
		}
		nd++
		var pad []byte
		switch c14H2PadSchemes[scheme] {
		case "pad-length-0":
			pad = []byte{}
		case "pad-length-1":
			pad = make([]byte, 1)
		case "pad-length-255":
			pad = make([]byte, 255)
		case "random":
			if r.Chance(1, 3) {
				continue
			}
			pad = make([]byte, gen.Pick(r, []int{0, 1, 2, 5, 17, 255, r.Intn(256)}))
			for j := range pad {
				pad[j] = byte(r.Intn(256))
			}
		case "envelope-like":
			pad = envLike[(nd+i)%len(envLike)]
		case "ends-and-empties":
			if !f.ES && f.X != "" {
				continue
			}
			pad = []byte{0xff, 0xff, 0xff}
		case "random-zeros":
			pad = make([]byte, r.Intn(40))
		}
		out[i].Padded = true
		out[i].PadX = gen.Hex(pad)
	}
	return out
}
