package main

// C09 — length-prefixed framing under any chunking. The real readers
// (timeoutDelimitedReader.readDelimitedMessageRaw, ReadDelimitedMessage, protoDecoder and
// jsonDecoder) are driven over a scripted io.Reader: bytes, per-call caps, an ending.

import (
	"bytes"
	"encoding/hex"
	"encoding/json"
	"errors"
	"io"
	"regexp"
	"strconv"
	"strings"
	"sync"
	"time"

	"connectrpc.com/conformance/internal"
	conformancev1 "connectrpc.com/conformance/internal/gen/proto/go/connectrpc/conformance/v1"
	"connectrpc.com/conformance/internal/verifharness/gen"
	"google.golang.org/protobuf/proto"
)

func init() {
	areas["c09"] = runC09
	gen.RegisterOp("c09", "read", func(c *gen.Ctx, raw json.RawMessage) any {
		in := gen.Into[c09ReadIn](raw)
		var out c09ReadOut
		if in.Ending == "stall" {
			// looks at real time (window of 1 s): not while the machine stalls the process
			var frozen int64
			out, frozen = c09Steady(400*time.Millisecond, func() c09ReadOut { return c09Read(in) })
			if frozen > 0 && !out.Timely {
				c.E.Count("read:stall-window-waived-machine-stalled")
				out.Timely = true
			}
		} else {
			out = c09Read(in)
		}
		if len(out.Results) > 0 {
			c.E.Count("read-last:" + in.Via + ":" + out.Results[len(out.Results)-1].class())
		}
		return out
	})
	gen.RegisterOp("c09", "enc", func(_ *gen.Ctx, raw json.RawMessage) any {
		return c09Enc(gen.Into[c09EncIn](raw))
	})
	gen.RegisterOp("c09", "json", func(c *gen.Ctx, raw json.RawMessage) any {
		in := gen.Into[c09JSONIn](raw)
		out := c09JSON(in)
		if len(out.Results) > 0 {
			c.E.Count("json-last:" + out.Results[len(out.Results)-1].class())
		}
		return out
	})
}

var errC09Fail = errors.New("c09: scripted failure")
var errC09Released = errors.New("c09: stalled read released")

// c09Reader is the scripted reader. A zero-length buffer returns (0, nil) without touching
// the script. Call i hands out at most caps[i] bytes (no cap left: as much as fits).
type c09Reader struct {
	mu       sync.Mutex
	data     []byte
	caps     []int
	ending   string // eof | eofWithData | fail | stall
	consumed int
	maxBuf   int
	calls    int
	release  chan struct{}
}

func (r *c09Reader) Read(p []byte) (int, error) {
	r.mu.Lock()
	r.calls++
	if len(p) > r.maxBuf {
		r.maxBuf = len(p)
	}
	if len(p) == 0 {
		r.mu.Unlock()
		return 0, nil
	}
	if len(r.data) == 0 {
		ending := r.ending
		r.mu.Unlock()
		switch ending {
		case "fail":
			return 0, errC09Fail
		case "stall":
			<-r.release
			return 0, errC09Released
		default:
			return 0, io.EOF
		}
	}
	defer r.mu.Unlock()
	n := len(p)
	if len(r.caps) > 0 {
		if r.caps[0] < n {
			n = r.caps[0]
		}
		r.caps = r.caps[1:]
	}
	if n > len(r.data) {
		n = len(r.data)
	}
	copy(p, r.data[:n])
	r.data = r.data[n:]
	r.consumed += n
	if len(r.data) == 0 && r.ending == "eofWithData" {
		return n, io.EOF
	}
	return n, nil
}

type c09ReadIn struct {
	Bytes     string `json:"bytes"`
	Caps      []int  `json:"caps"`
	Ending    string `json:"ending"`
	Max       int    `json:"max"`
	Count     int    `json:"count"`
	TimeoutMs int    `json:"timeoutMs"`
	// raw: readDelimitedMessageRaw; rdm: ReadDelimitedMessage[*Header]; dec: NewCodec(false).NewDecoder
	Via string `json:"via"`
}

type c09Res struct {
	Msg   *string `json:"msg,omitempty"`
	Err   string  `json:"err,omitempty"`
	Read  int     `json:"read,omitempty"`
	Of    int     `json:"of,omitempty"`
	What  string  `json:"what,omitempty"`
	Size  int64   `json:"size,omitempty"`
	Limit int64   `json:"limit,omitempty"`
	// for json results
	Hdr []string `json:"hdr,omitempty"`
}

func (r c09Res) class() string {
	if r.Err == "" {
		return "msg"
	}
	return r.Err
}

type c09ReadOut struct {
	Results  []c09Res `json:"results"`
	Consumed int      `json:"consumed"`
	MaxBuf   int      `json:"maxBuf"`
	// every time-out came within [timeout, timeout+1s]
	Timely bool `json:"timely"`
}

var c09TooLargeRE = regexp.MustCompile(`message size of (\d+) bytes, but should not exceed (\d+)$`)
var c09ProgressRE = regexp.MustCompile(`^timed out waiting for result from src: read (\d+)/(\d+) bytes of (.*)$`)

func c09Classify(err error) c09Res {
	switch {
	case errors.Is(err, io.ErrUnexpectedEOF):
		return c09Res{Err: "unexpectedEOF"}
	case errors.Is(err, io.EOF):
		return c09Res{Err: "eof"}
	case errors.Is(err, errC09Fail):
		return c09Res{Err: "fail"}
	}
	msg := err.Error()
	if m := c09TooLargeRE.FindStringSubmatch(msg); m != nil {
		sz, _ := strconv.ParseInt(m[1], 10, 64)
		lim, _ := strconv.ParseInt(m[2], 10, 64)
		return c09Res{Err: "tooLarge", Size: sz, Limit: lim}
	}
	if msg == "timed out waiting for result from src" {
		return c09Res{Err: "timeout", What: "nothing"}
	}
	if m := c09ProgressRE.FindStringSubmatch(msg); m != nil {
		rd, _ := strconv.Atoi(m[1])
		of, _ := strconv.Atoi(m[2])
		return c09Res{Err: "timeout", What: m[3], Read: rd, Of: of}
	}
	if strings.Contains(msg, "unmarshal") {
		return c09Res{Err: "unmarshal"}
	}
	return c09Res{Err: "other"}
}

func c09Marshal(m proto.Message) []byte {
	b, err := proto.MarshalOptions{Deterministic: true}.Marshal(m)
	if err != nil {
		panic(err)
	}
	return b
}

func c09Read(in c09ReadIn) c09ReadOut {
	data := c09Unhex(in.Bytes)
	rd := &c09Reader{data: data, caps: append([]int{}, in.Caps...), ending: in.Ending, release: make(chan struct{})}
	defer close(rd.release)
	timeout := time.Duration(in.TimeoutMs) * time.Millisecond
	out := c09ReadOut{Results: []c09Res{}, Timely: true}
	if in.Via == "dec" && in.Ending == "stall" {
		out.Results = append(out.Results, c09Res{Err: "unsupported"})
		return out
	}
	var dec internal.StreamDecoder
	if in.Via == "dec" {
		dec = internal.NewCodec(false).NewDecoder(rd)
	}
	for i := 0; i < in.Count; i++ {
		var body []byte
		var err error
		t0 := time.Now()
		switch in.Via {
		case "raw":
			body, err = internal.VerifReadDelimitedRaw(rd, "src", timeout, in.Max)
		case "rdm":
			var h conformancev1.Header
			err = internal.ReadDelimitedMessage(rd, &h, "src", timeout, in.Max)
			if err == nil {
				body = c09Marshal(&h)
			}
		case "dec":
			var h conformancev1.Header
			err = dec.DecodeNext(&h)
			if err == nil {
				body = c09Marshal(&h)
			}
		default:
			panic("via?")
		}
		el := time.Since(t0)
		if err == nil {
			s := gen.Hex(body)
			out.Results = append(out.Results, c09Res{Msg: &s})
			continue
		}
		res := c09Classify(err)
		if res.Err == "timeout" && (el < timeout || el > timeout+time.Second) {
			out.Timely = false
		}
		out.Results = append(out.Results, res)
		break
	}
	rd.mu.Lock()
	out.Consumed, out.MaxBuf = rd.consumed, rd.maxBuf
	rd.mu.Unlock()
	return out
}

type c09EncIn struct {
	// via raw: writeDelimitedMessageRaw(body); codec: NewCodec(false).NewEncoder.Encode(Header);
	// wdm: WriteDelimitedMessage(Header)
	Via    string     `json:"via"`
	Bodies []string   `json:"bodies"`
	Hdrs   [][]string `json:"hdrs"`
	// ReadBack: the written stream is read back with the real reader of the same variant
	// (readDelimitedMessageRaw / StreamDecoder / ReadDelimitedMessage) over a scripted reader
	// with these caps
	ReadBack bool  `json:"readBack,omitempty"`
	Caps     []int `json:"caps,omitempty"`
	// Bad: indices of Hdrs that are turned into messages that CANNOT be encoded (a string field
	// holding invalid UTF-8: in the name for even indices, in the last value for odd ones): their
	// write must fail and leave nothing in the stream
	Bad []int `json:"bad,omitempty"`
}
type c09EncOut struct {
	Stream string   `json:"stream"`
	Bodies []string `json:"bodies"` // of the messages whose write succeeded
	Back   []c09Res `json:"back,omitempty"`
	Failed []int    `json:"failed"` // indices whose write returned an error
}

func c09IsBad(bad []int, i int) bool {
	for _, b := range bad {
		if b == i {
			return true
		}
	}
	return false
}

// c09BadHdr is h with invalid UTF-8 in one of its string fields: sizing it works, marshalling fails.
func c09BadHdr(h []string, i int) *conformancev1.Header {
	m := c09Hdr(h)
	if i%2 == 0 || len(m.Value) == 0 {
		m.Name = "\xff\xfe" + m.Name
	} else {
		m.Value[len(m.Value)-1] += "\xc3\x28"
	}
	return m
}

func c09Hdr(h []string) *conformancev1.Header {
	if len(h) == 0 {
		return &conformancev1.Header{}
	}
	return &conformancev1.Header{Name: h[0], Value: h[1:]}
}

func c09Enc(in c09EncIn) c09EncOut {
	var buf bytes.Buffer
	out := c09EncOut{Bodies: []string{}, Failed: []int{}}
	mk := func(i int, h []string) *conformancev1.Header {
		if c09IsBad(in.Bad, i) {
			return c09BadHdr(h, i)
		}
		return c09Hdr(h)
	}
	switch in.Via {
	case "raw":
		for _, b := range in.Bodies {
			if err := internal.VerifWriteDelimitedRaw(&buf, c09Unhex(b)); err != nil {
				panic(err)
			}
			out.Bodies = append(out.Bodies, b)
		}
	case "codec":
		enc := internal.NewCodec(false).NewEncoder(&buf)
		for i, h := range in.Hdrs {
			m := mk(i, h)
			if err := enc.Encode(m); err != nil {
				out.Failed = append(out.Failed, i)
				continue
			}
			out.Bodies = append(out.Bodies, gen.Hex(c09Marshal(m)))
		}
	case "wdm":
		for i, h := range in.Hdrs {
			m := mk(i, h)
			if err := internal.WriteDelimitedMessage(&buf, m); err != nil {
				out.Failed = append(out.Failed, i)
				continue
			}
			out.Bodies = append(out.Bodies, gen.Hex(c09Marshal(m)))
		}
	}
	out.Stream = gen.Hex(buf.Bytes())
	if in.ReadBack {
		via := map[string]string{"raw": "raw", "codec": "dec", "wdm": "rdm"}[in.Via]
		back := c09Read(c09ReadIn{Bytes: out.Stream, Caps: in.Caps, Ending: "eof", Max: 1 << 30, Count: len(out.Bodies) + 1, TimeoutMs: c09NoTimeout, Via: via})
		out.Back = back.Results
	}
	return out
}

type c09JSONIn struct {
	Hdrs   [][]string `json:"hdrs"`
	Caps   []int      `json:"caps"`
	Ending string     `json:"ending"`
	Cut    int        `json:"cut"` // -1: whole stream
	Count  int        `json:"count"`
	Bad    []int      `json:"bad,omitempty"` // as in c09EncIn
}
type c09JSONOut struct {
	Failed []int `json:"failed"`
	Results   []c09Res `json:"results"`
	ValueEnds []int    `json:"valueEnds"` // offset just after the closing brace of message i
	TextEnds  []int    `json:"textEnds"`  // offset after the white space the encoder wrote after it
	Len       int      `json:"len"`
}

func c09JSON(in c09JSONIn) c09JSONOut {
	var buf bytes.Buffer
	enc := internal.NewCodec(true).NewEncoder(&buf)
	out := c09JSONOut{Results: []c09Res{}, ValueEnds: []int{}, TextEnds: []int{}, Failed: []int{}}
	for i, h := range in.Hdrs {
		m := c09Hdr(h)
		if c09IsBad(in.Bad, i) {
			m = c09BadHdr(h, i)
		}
		if err := enc.Encode(m); err != nil {
			out.Failed = append(out.Failed, i)
			continue
		}
		text := buf.Bytes()
		out.TextEnds = append(out.TextEnds, len(text))
		out.ValueEnds = append(out.ValueEnds, len(bytes.TrimRight(text, " \t\r\n")))
	}
	data := buf.Bytes()
	out.Len = len(data)
	if in.Cut >= 0 && in.Cut < len(data) {
		data = data[:in.Cut]
	}
	if in.Ending == "stall" {
		out.Results = append(out.Results, c09Res{Err: "unsupported"})
		return out
	}
	rd := &c09Reader{data: append([]byte{}, data...), caps: append([]int{}, in.Caps...), ending: in.Ending, release: make(chan struct{})}
	dec := internal.NewCodec(true).NewDecoder(rd)
	for i := 0; i < in.Count; i++ {
		var h conformancev1.Header
		err := dec.DecodeNext(&h)
		if err == nil {
			hdr := append([]string{h.GetName()}, h.GetValue()...)
			out.Results = append(out.Results, c09Res{Hdr: hdr})
			continue
		}
		out.Results = append(out.Results, c09Classify(err))
		break
	}
	return out
}

// ---------------------------------------------------------------- generator

func c09Frame(body []byte) []byte {
	n := len(body)
	return append([]byte{byte(n >> 24), byte(n >> 16), byte(n >> 8), byte(n)}, body...)
}

func c09Prefix(n uint32) []byte {
	return []byte{byte(n >> 24), byte(n >> 16), byte(n >> 8), byte(n)}
}

// c09HdrOfLen returns a header whose encoding has exactly n bytes (n = 0 or n >= 2; 1 is
// bumped to 2): an empty name and values of 2..129 bytes each.
func c09HdrOfLen(r *gen.Rand, n int) []string {
	if n == 0 {
		return []string{}
	}
	if n == 1 {
		n = 2
	}
	h := []string{""}
	left := n
	for left > 129 {
		sz := 102
		if left-sz == 1 {
			sz = 101
		}
		h = append(h, c09Word(r, sz-2))
		left -= sz
	}
	return append(h, c09Word(r, left-2))
}

func c09Unhex(s string) []byte {
	b, err := hex.DecodeString(s)
	if err != nil {
		panic(err)
	}
	return b
}

func c09Word(r *gen.Rand, n int) string {
	const alpha = "abcxyz019-_ {}\"\\[],:"
	b := make([]byte, n)
	for i := range b {
		b[i] = alpha[r.Intn(len(alpha))]
	}
	return string(b)
}

type c09Stream struct {
	bodies [][]byte
	bytes  []byte
	bounds []int // end offset of frame i
}

func c09MkStream(bodies [][]byte) c09Stream {
	s := c09Stream{bodies: bodies}
	for _, b := range bodies {
		s.bytes = append(s.bytes, c09Frame(b)...)
		s.bounds = append(s.bounds, len(s.bytes))
	}
	return s
}

// bodies: valid Header encodings of the given sizes (so that rdm / dec can unmarshal them)
func c09HdrBodies(r *gen.Rand, sizes []int) [][]byte {
	out := make([][]byte, len(sizes))
	for i, n := range sizes {
		if n == 1 {
			n = 2
		}
		out[i] = c09Marshal(c09Hdr(c09HdrOfLen(r, n)))
		if len(out[i]) != n {
			panic("c09HdrOfLen: wrong size " + strconv.Itoa(n) + " got " + strconv.Itoa(len(out[i])))
		}
	}
	return out
}

func c09RawBodies(r *gen.Rand, sizes []int) [][]byte {
	out := make([][]byte, len(sizes))
	for i, n := range sizes {
		out[i] = r.Bytes(n)
	}
	return out
}

var c09Endings = []string{"eof", "eofWithData", "fail"}

// c09Caps draws a cap list for a stream with the given frame boundaries.
func c09Caps(r *gen.Rand, total int, bounds []int, kind int) []int {
	var caps []int
	switch kind {
	case 0: // one byte at a time
		caps = make([]int, total)
		for i := range caps {
			caps[i] = 1
		}
	case 1: // one big read
		caps = []int{}
	case 2: // small random
		for left := total; left > 0; {
			c := r.Range(1, 7)
			caps = append(caps, c)
			left -= c
		}
	case 3: // wide random, some larger than anything left
		for left := total; left > 0; {
			c := r.Range(1, 2*total+1)
			caps = append(caps, c)
			left -= c
		}
	case 4: // reads ending exactly at the prefix boundary and at the frame boundary
		prev := 0
		for _, b := range bounds {
			caps = append(caps, 4)
			if b-prev-4 > 0 {
				caps = append(caps, b-prev-4)
			}
			prev = b
		}
		caps = append(caps, 4, 1, 1, 1)
	case 5: // with empty reads
		for left := total; left > 0; {
			c := r.Range(0, 5)
			caps = append(caps, c)
			left -= c
		}
	case 6: // 3 bytes, then 1 (prefix split 3+1), then the rest in twos
		caps = append(caps, 3, 1)
		for left := total; left > 0; left -= 2 {
			caps = append(caps, 2)
		}
	default: // 5 bytes: prefix plus one byte requested - the buffer, not the cap, bounds the read
		for left := total; left > 0; left -= 5 {
			caps = append(caps, 5)
		}
	}
	if caps == nil {
		caps = []int{}
	}
	return caps
}

const c09NoTimeout = 20000 // ms; never fires in cases without a stall

func runC09(c *gen.Ctx) error {
	// real pipes, real time-outs, child processes: beside everything else (own generator state)
	var bg sync.WaitGroup
	bgCtx := *c
	bgCtx.R = c.R.Fork()
	cliStalls := c09StallScenarios(c)
	c.E.Add("clientstall-scenarios", len(cliStalls))
	bg.Add(3)
	go func() {
		defer bg.Done()
		c09PipeGen(&bgCtx)
		c09SiteGen(&bgCtx)
	}()
	go func() {
		defer bg.Done()
		c09SessionGen(c)
	}()
	go func() {
		defer bg.Done()
		c.DoParallel("clientstall", cliStalls, len(cliStalls))
	}()
	defer bg.Wait()
	r := c.R
	e := c.E
	// ---- (A) every cap list (composition) x every truncation offset x both EOF styles,
	// streams of at most 12 bytes
	type small struct {
		sizes []int
		via   string
	}
	smalls := []small{
		{[]int{}, "raw"}, {[]int{0}, "raw"}, {[]int{0, 0}, "raw"}, {[]int{0, 0, 0}, "raw"},
		{[]int{1}, "raw"}, {[]int{1, 1}, "raw"}, {[]int{2}, "raw"}, {[]int{1, 0}, "raw"}, {[]int{0, 1}, "raw"},
		{[]int{4}, "raw"}, {[]int{8}, "raw"}, {[]int{0, 4}, "raw"}, {[]int{4, 0}, "raw"}, {[]int{2, 1}, "raw"}, {[]int{3, 1}, "raw"},
		{[]int{0}, "dec"}, {[]int{0, 0}, "dec"}, {[]int{3}, "dec"}, {[]int{3, 0}, "dec"}, {[]int{0, 3}, "dec"}, {[]int{8}, "dec"}, {[]int{2, 2}, "dec"},
		{[]int{0, 0, 0}, "rdm"}, {[]int{5}, "rdm"}, {[]int{2, 0}, "rdm"}, {[]int{2, 2}, "rdm"},
	}
	maxLen := 12
	if !c.Thorough() {
		maxLen = 11 // quick: all compositions up to 11 bytes, 12-byte streams in two of three cases
	}
	comps := make([][][]int, 13)
	for n := 0; n <= 12; n++ {
		comps[n] = gen.Compositions(n)
	}
	for si, s := range smalls {
		var st c09Stream
		if s.via == "raw" {
			st = c09MkStream(c09RawBodies(r, s.sizes))
		} else {
			st = c09MkStream(c09HdrBodies(r, s.sizes))
		}
		for cut := 0; cut <= len(st.bytes); cut++ {
			if cut > maxLen && si%3 == 2 {
				continue
			}
			for _, caps := range comps[cut] {
				for _, ending := range []string{"eof", "eofWithData"} {
					c.Do("read", c09ReadIn{Bytes: gen.Hex(st.bytes[:cut]), Caps: caps, Ending: ending, Max: 8, Count: len(s.sizes) + 1, TimeoutMs: c09NoTimeout, Via: s.via})
				}
			}
			e.Add("exhaustive-cap-lists", len(comps[cut]))
		}
	}
	// ---- (B) structured random streams
	nRand := 2500
	if c.Thorough() {
		nRand = 50000
	}
	lens := []int{0, 1, 2, 3, 4, 5, 255, 256}
	for i := 0; i < nRand; i++ {
		via := []string{"raw", "raw", "rdm", "dec"}[r.Intn(4)]
		nm := r.Range(0, 5)
		sizes := make([]int, nm)
		for k := range sizes {
			switch {
			case r.Chance(2, 3):
				sizes[k] = gen.Pick(r, lens)
			case r.Chance(1, 40):
				sizes[k] = r.Range(60000, 70000)
			default:
				sizes[k] = r.Range(0, 600)
			}
		}
		var st c09Stream
		if via == "raw" {
			st = c09MkStream(c09RawBodies(r, sizes))
		} else {
			st = c09MkStream(c09HdrBodies(r, sizes))
		}
		data := st.bytes
		if r.Chance(1, 2) && len(data) > 0 {
			// truncate, preferably near a boundary
			cut := r.Intn(len(data) + 1)
			if r.Chance(2, 3) {
				b := gen.Pick(r, append([]int{0}, st.bounds...))
				cut = b + r.Range(-5, 5)
				if cut < 0 {
					cut = 0
				}
				if cut > len(data) {
					cut = len(data)
				}
			}
			data = data[:cut]
			e.Count("random:truncated")
		}
		kind := r.Intn(8)
		if len(data) > 3000 && (kind == 0 || kind == 2 || kind == 5 || kind >= 6) {
			kind = 3
		}
		caps := c09Caps(r, len(data), st.bounds, kind)
		ending := gen.Pick(r, c09Endings)
		max := 70000
		if r.Chance(1, 4) {
			max = gen.Pick(r, []int{255, 256, 600, 5})
		}
		count := nm + 1
		if r.Chance(1, 10) {
			count = r.Range(0, nm+2)
		}
		c.Do("read", c09ReadIn{Bytes: gen.Hex(data), Caps: caps, Ending: ending, Max: max, Count: count, TimeoutMs: c09NoTimeout, Via: via})
	}
	// ---- (C) every truncation offset of a few streams x cap kinds x endings
	for _, sizes := range [][]int{{3, 0, 7}, {255, 2}, {0, 256, 0}} {
		for _, via := range []string{"raw", "rdm", "dec"} {
			var st c09Stream
			if via == "raw" {
				st = c09MkStream(c09RawBodies(r, sizes))
			} else {
				st = c09MkStream(c09HdrBodies(r, sizes))
			}
			step := 1
			if !c.Thorough() && len(st.bytes) > 100 {
				step = 3
			}
			for cut := 0; cut <= len(st.bytes); cut++ {
				near := false
				for _, b := range append([]int{0}, st.bounds...) {
					if cut-b >= -1 && cut-b <= 5 {
						near = true
					}
				}
				if !near && cut%step != 0 {
					continue
				}
				for kind := 0; kind < 8; kind++ {
					if !c.Thorough() && kind != cut%8 && kind != (cut+3)%8 {
						continue
					}
					for _, ending := range c09Endings {
						c.Do("read", c09ReadIn{Bytes: gen.Hex(st.bytes[:cut]), Caps: c09Caps(r, cut, st.bounds, kind), Ending: ending, Max: 300, Count: len(sizes) + 1, TimeoutMs: c09NoTimeout, Via: via})
					}
				}
				e.Count("every-offset")
			}
		}
	}
	// ---- (D) prefixes max, max+1, 2^32-1, ... after 0-2 good messages
	for _, max := range []int{0, 1, 5, 16, 1000, 1 << 20, 16 << 20} {
		for _, pv := range []uint32{uint32(max), uint32(max) + 1, uint32(max) + 2, 1<<32 - 1, 1 << 31, 1<<31 - 1, 256 * uint32(max+1)} {
			for lead := 0; lead <= 2; lead++ {
				for _, via := range []string{"raw", "rdm"} {
					sizes := make([]int, lead)
					for k := range sizes {
						sizes[k] = gen.Pick(r, []int{0, 2, 3, 5})
						if sizes[k] > max {
							sizes[k] = 0
						}
					}
					st := c09MkStream(c09HdrBodies(r, sizes))
					data := append(append([]byte{}, st.bytes...), c09Prefix(pv)...)
					// what follows the prefix: nothing, a few bytes, or (small limits) a whole body
					readable := int64(pv) <= int64(max) // the body will be read (and, via rdm, unmarshalled)
					switch r.Intn(3) {
					case 1:
						if !(via == "rdm" && readable && pv <= 20) {
							data = append(data, r.Bytes(r.Range(1, 20))...)
						}
					case 2:
						if int64(pv) <= 2000 && !(via == "rdm" && pv == 1) {
							follow := c09RawBodies(r, []int{int(pv)})[0]
							if via == "rdm" {
								follow = c09HdrBodies(r, []int{int(pv)})[0]
							}
							data = append(data, follow...)
							data = append(data, c09Frame(nil)...)
						}
					}
					kind := r.Intn(8)
					c.Do("read", c09ReadIn{Bytes: gen.Hex(data), Caps: c09Caps(r, len(data), st.bounds, kind), Ending: gen.Pick(r, c09Endings), Max: max, Count: lead + 3, TimeoutMs: c09NoTimeout, Via: via})
					e.Count("prefix-vs-limit")
				}
			}
		}
	}
	// ---- (E) stalls (time-out 30 ms), in parallel
	var stalls []any
	{
		sizes := []int{2, 0, 6}
		st := c09MkStream(c09HdrBodies(r, sizes))
		step := 4
		if c.Thorough() {
			step = 1
		}
		for cut := 0; cut <= len(st.bytes); cut++ {
			near := false
			for _, b := range append([]int{0}, st.bounds...) {
				if cut-b >= 0 && cut-b <= 5 {
					near = true
				}
			}
			if !near && cut%step != 0 {
				continue
			}
			kinds := []int{cut % 8}
			if c.Thorough() {
				kinds = []int{0, 1, 2, 3, 4, 5, 6, 7}
			}
			for _, kind := range kinds {
				via := "raw"
				if (cut+kind)%3 == 0 {
					via = "rdm"
				}
				stalls = append(stalls, c09ReadIn{Bytes: gen.Hex(st.bytes[:cut]), Caps: c09Caps(r, cut, st.bounds, kind), Ending: "stall", Max: 64, Count: len(sizes) + 1, TimeoutMs: 30, Via: via})
			}
		}
		// a stall inside a large body and after an oversize prefix (no time-out there)
		big := c09MkStream(c09RawBodies(r, []int{5000}))
		stalls = append(stalls, c09ReadIn{Bytes: gen.Hex(big.bytes[:4000]), Caps: []int{1000, 1000, 1000, 1000}, Ending: "stall", Max: 6000, Count: 2, TimeoutMs: 30, Via: "raw"})
		stalls = append(stalls, c09ReadIn{Bytes: gen.Hex(c09Prefix(65)), Caps: []int{}, Ending: "stall", Max: 64, Count: 2, TimeoutMs: 30, Via: "raw"})
		stalls = append(stalls, c09ReadIn{Bytes: gen.Hex(c09Prefix(64)), Caps: []int{2, 2}, Ending: "stall", Max: 64, Count: 2, TimeoutMs: 30, Via: "raw"})
	}
	e.Add("stall-cases", len(stalls))
	c.DoParallel("read", stalls, 16)
	// ---- (F) the writers: the bytes on the wire against the model's encoder, then read back
	nEnc := 150
	if c.Thorough() {
		nEnc = 3000
	}
	for i := 0; i < nEnc; i++ {
		n := r.Range(0, 4)
		switch i % 3 {
		case 0:
			bodies := make([]string, n)
			for k := range bodies {
				sz := gen.Pick(r, []int{0, 1, 2, 255, 256, 257, 65535, 65536, r.Range(0, 300)})
				bodies[k] = gen.Hex(r.Bytes(sz))
			}
			c.Do("enc", c09EncIn{Via: "raw", Bodies: bodies, Hdrs: [][]string{}})
		default:
			hdrs := make([][]string, n)
			for k := range hdrs {
				hdrs[k] = c09HdrOfLen(r, gen.Pick(r, []int{0, 2, 3, 127, 255, 256, 257, r.Range(2, 400)}))
			}
			c.Do("enc", c09EncIn{Via: []string{"", "codec", "wdm"}[i%3], Bodies: []string{}, Hdrs: hdrs})
		}
	}
	// every message size around every power of two and every buffer-ish constant, through each
	// writer (writeDelimitedMessageRaw, protoEncoder.Encode, WriteDelimitedMessage), alone and in
	// sequences of several messages, read back under a chunking
	var encSizes []int
	for n := 0; n <= 70; n++ {
		encSizes = append(encSizes, n)
	}
	addRange := func(lo, hi int) {
		for n := lo; n <= hi; n++ {
			encSizes = append(encSizes, n)
		}
	}
	addRange(120, 136)
	addRange(250, 260)
	addRange(508, 516)
	addRange(1020, 1028)
	addRange(2044, 2052)
	addRange(4090, 4100)
	addRange(8190, 8195)
	for _, p2 := range []int{16 << 10, 32 << 10, 64 << 10} {
		addRange(p2-4, p2+4)
	}
	bigSizes := []int{1<<20 - 1, 1 << 20, 1<<20 + 1}
	if c.Thorough() {
		bigSizes = []int{1<<20 - 4, 1<<20 - 3, 1<<20 - 2, 1<<20 - 1, 1 << 20, 1<<20 + 1, 1<<20 + 2, 1<<20 + 3, 1<<20 + 4}
	}
	encOne := func(via string, sizes []int, readBack bool) {
		in := c09EncIn{Via: via, Bodies: []string{}, Hdrs: [][]string{}, ReadBack: readBack}
		total := 0
		var bounds []int
		for _, n := range sizes {
			if via == "raw" {
				in.Bodies = append(in.Bodies, gen.Hex(r.Bytes(n)))
			} else {
				if n == 1 {
					n = 2
				}
				in.Hdrs = append(in.Hdrs, c09HdrOfLen(r, n))
			}
			total += 4 + n
			bounds = append(bounds, total)
		}
		if readBack {
			kind := r.Intn(8)
			if total > 3000 && (kind == 0 || kind == 2 || kind == 5 || kind >= 6) {
				kind = gen.Pick(r, []int{1, 3, 4})
			}
			in.Caps = c09Caps(r, total, bounds, kind)
		}
		e.Count("enc-dense:" + via)
		c.Do("enc", in)
	}
	for _, via := range []string{"raw", "codec", "wdm"} {
		for _, n := range encSizes {
			encOne(via, []int{n}, true)
		}
		for _, n := range bigSizes {
			if via == "raw" || c.Thorough() {
				encOne(via, []int{n}, false)
			}
		}
		// sequences: a boundary size followed and preceded by other messages (a frame that loses or
		// gains bytes puts everything after it out of step)
		nSeq := 40
		if c.Thorough() {
			nSeq = 400
		}
		for i := 0; i < nSeq; i++ {
			k := r.Range(2, 4)
			sizes := make([]int, k)
			for j := range sizes {
				if r.Chance(1, 2) {
					sizes[j] = gen.Pick(r, encSizes)
				} else {
					sizes[j] = gen.Pick(r, []int{0, 2, 3, 5, 17})
				}
			}
			encOne(via, sizes, true)
		}
	}
	// messages that cannot be encoded between encodable ones: a failed write must leave nothing behind
	nBad := 60
	if c.Thorough() {
		nBad = 600
	}
	for i := 0; i < nBad; i++ {
		k := r.Range(1, 5)
		hdrs := make([][]string, k)
		var bad []int
		total := 0
		var bounds []int
		for j := range hdrs {
			hdrs[j] = c09HdrOfLen(r, gen.Pick(r, []int{0, 2, 3, 17, 127, 300, r.Range(2, 90)}))
			if len(hdrs[j]) == 0 {
				hdrs[j] = []string{"n"}
			}
			if r.Chance(2, 5) || (j == 0 && i%4 == 0) {
				bad = append(bad, j)
			} else {
				total += 4 + len(c09Marshal(c09Hdr(hdrs[j])))
				bounds = append(bounds, total)
			}
		}
		if len(bad) == 0 {
			bad = []int{k - 1}
		}
		via := []string{"codec", "wdm"}[i%2]
		e.Count("enc-unencodable:" + via)
		c.Do("enc", c09EncIn{Via: via, Bodies: []string{}, Hdrs: hdrs, Bad: bad, ReadBack: true, Caps: c09Caps(r, total, bounds, r.Intn(8))})
		if i%2 == 0 {
			// the JSON writer
			var good [][]string
			for j, h := range hdrs {
				if !c09IsBad(bad, j) {
					good = append(good, h)
				}
			}
			probe := c09JSON(c09JSONIn{Hdrs: good, Caps: []int{}, Ending: "eof", Cut: -1, Count: 0})
			e.Count("json-unencodable")
			c.Do("json", c09JSONIn{Hdrs: hdrs, Bad: bad, Caps: c09Caps(r, probe.Len, probe.TextEnds, r.Intn(8)), Ending: "eof", Cut: -1, Count: k + 1})
		}
	}
	// ---- (G) the JSON variant: same kind of sequences, judged by the property only
	nJSON := 300
	if c.Thorough() {
		nJSON = 6000
	}
	mkHdrs := func() [][]string {
		n := r.Range(0, 4)
		hdrs := make([][]string, n)
		for k := range hdrs {
			h := []string{}
			if r.Chance(5, 6) {
				h = append(h, c09Word(r, r.Range(0, 6)))
				for v := r.Intn(3); v > 0; v-- {
					h = append(h, c09Word(r, r.Range(0, 5)))
				}
			}
			hdrs[k] = h
		}
		return hdrs
	}
	for i := 0; i < nJSON; i++ {
		hdrs := mkHdrs()
		probe := c09JSON(c09JSONIn{Hdrs: hdrs, Caps: []int{}, Ending: "eof", Cut: -1, Count: 0})
		total := probe.Len
		cut := -1
		if r.Chance(1, 2) {
			cut = r.Intn(total + 1)
		}
		eff := total
		if cut >= 0 {
			eff = cut
		}
		caps := c09Caps(r, eff, probe.TextEnds, r.Intn(8))
		c.Do("json", c09JSONIn{Hdrs: hdrs, Caps: caps, Ending: gen.Pick(r, c09Endings), Cut: cut, Count: len(hdrs) + 1})
	}
	{
		// the JSON variant with messages whose text crosses 4 KiB, 8 KiB, 64 KiB (buffer sizes of
		// writers and of the tokenizer), between two small messages, written by the real encoder and
		// read back by the real decoder
		var big []int
		for l := 4060; l <= 4100; l++ {
			big = append(big, l)
		}
		for l := 8150; l <= 8200; l += 2 {
			big = append(big, l)
		}
		for l := 65490; l <= 65540; l += 5 {
			big = append(big, l)
		}
		if c.Thorough() {
			for l := 1<<20 - 40; l <= 1<<20+8; l += 6 {
				big = append(big, l)
			}
		}
		for _, l := range big {
			hdrs := [][]string{{"a", "b"}, {"big", c09Word(r, l)}, {"z"}}
			probe := c09JSON(c09JSONIn{Hdrs: hdrs, Caps: []int{}, Ending: "eof", Cut: -1, Count: 0})
			kind := gen.Pick(r, []int{1, 3, 4})
			e.Count("json-big")
			c.Do("json", c09JSONIn{Hdrs: hdrs, Caps: c09Caps(r, probe.Len, probe.TextEnds, kind), Ending: gen.Pick(r, []string{"eof", "eofWithData"}), Cut: -1, Count: 4})
		}
	}
	{
		// one stream: every cut offset, and every two-part split of the whole
		hdrs := [][]string{{"ab", "c}"}, {}, {"x\"y", "", "z"}}
		probe := c09JSON(c09JSONIn{Hdrs: hdrs, Caps: []int{}, Ending: "eof", Cut: -1, Count: 0})
		for cut := 0; cut <= probe.Len; cut++ {
			for _, ending := range []string{"eof", "eofWithData"} {
				c.Do("json", c09JSONIn{Hdrs: hdrs, Caps: c09Caps(r, cut, probe.TextEnds, cut%8), Ending: ending, Cut: cut, Count: 4})
			}
			c.Do("json", c09JSONIn{Hdrs: hdrs, Caps: []int{cut}, Ending: "eof", Cut: -1, Count: 4})
			if c.Thorough() {
				for cut2 := cut; cut2 <= probe.Len; cut2 += 3 {
					c.Do("json", c09JSONIn{Hdrs: hdrs, Caps: []int{cut, cut2 - cut}, Ending: "eofWithData", Cut: -1, Count: 4})
				}
			}
		}
	}
	c09PeerGen(c)
	c09PeerLoopGen(c)
	return nil
}
