package main

// C13 — Trailers-Only responses that ANNOUNCE trailer names.
//
// net/http pre-seeds Response.Trailer with a nil-valued key for every name announced in a
// `Trailer:` header; a gRPC / gRPC-Web Trailers-Only response (status in the HTTP headers, no
// message in the body, no trailer sent) may carry such a header. isTrailersOnlyResponse decides
// which header set checkGRPCStatus examines.
//
// op tonly : {ct, headers, announced, empty, real, bodyData, traceErr}
// The trace handed to examineWireDetails has Response.Header = headers (+ Content-Type),
// Response.Trailer = announced names without values (nil, or an empty slice when `empty`) plus the
// `real` trailers with their values. Output: feedback classes and the base64/proto oracle for both
// header sets.

import (
	"encoding/json"
	"net/http"

	rc "connectrpc.com/conformance/internal/app/referenceclient"
	"connectrpc.com/conformance/internal/verifharness/gen"
)

func init() {
	gen.RegisterOp("c13", "tonly", func(c *gen.Ctx, raw json.RawMessage) any {
		return c13TOnly(c, gen.Into[c13TOnlyIn](raw))
	})
}

type c13TOnlyIn struct {
	CT        string     `json:"ct"`
	Headers   []c13HdrIn `json:"headers"`
	Announced []string   `json:"announced"` // hex names
	Empty     bool       `json:"empty"`
	Real      []c13HdrIn `json:"real"`
	BodyData  bool       `json:"bodyData"`
	TraceErr  bool       `json:"traceErr"`
}

type c13TOnlyOut struct {
	Fb      []string   `json:"fb"`
	OracleH *c13Oracle `json:"oracleH"`
	OracleT *c13Oracle `json:"oracleT"`
	OK      bool       `json:"ok"`
}

func c13HdrMap(hs []c13HdrIn) http.Header {
	h := http.Header{}
	for _, kv := range hs {
		k := string(c13Un(kv.K))
		for _, v := range kv.V {
			h[k] = append(h[k], string(c13Un(v)))
		}
	}
	return h
}

func c13TOnly(c *gen.Ctx, in c13TOnlyIn) c13TOnlyOut {
	hdr := c13HdrMap(in.Headers)
	statusHdr := hdr.Clone()
	hdr.Set("Content-Type", in.CT)
	var tr http.Header
	if len(in.Announced)+len(in.Real) > 0 {
		tr = http.Header{}
		for _, n := range in.Announced {
			if in.Empty {
				tr[string(c13Un(n))] = []string{}
			} else {
				tr[string(c13Un(n))] = nil
			}
		}
		for k, vs := range c13HdrMap(in.Real) {
			tr[k] = vs
		}
	}
	w := rc.VerifC13Wire{StatusCode: http.StatusOK, Header: hdr, Trailer: tr, BodyData: in.BodyData, TraceErr: in.TraceErr}
	_, ok, msgs := rc.VerifC13ExamineWire(w)
	if len(in.Announced) > 0 {
		c.E.Count("tonly:announcing")
	}
	return c13TOnlyOut{Fb: c13Classes(c, msgs), OracleH: c13OracleFor(statusHdr), OracleT: c13OracleFor(c13HdrMap(in.Real)), OK: ok}
}

// c13TOnlyGen: content types x status trios in the headers (well-formed and malformed) x
// announced names (none / the status names / unrelated / both) x nil or empty values x real
// trailers (none / a status trio / unrelated) x body message x trace error.
func c13TOnlyGen(c *gen.Ctx) {
	h := func(kv ...string) []c13HdrIn {
		out := []c13HdrIn{}
		for i := 0; i+1 < len(kv); i += 2 {
			out = append(out, c13HdrIn{K: c13Hx(kv[i]), V: []string{c13Hx(kv[i+1])}})
		}
		return out
	}
	names := func(ns ...string) []string {
		out := []string{}
		for _, n := range ns {
			out = append(out, c13Hx(n))
		}
		return out
	}
	cts := []string{"application/grpc", "application/grpc+proto", "application/grpc+json", "application/grpc-web", "application/grpc-web+proto", "application/json", "application/connect+proto"}
	statuses := [][]c13HdrIn{
		h("Grpc-Status", "0"),
		h("Grpc-Status", "2", "Grpc-Message", "oops"),
		h("Grpc-Status", "13", "Grpc-Message", "a%20b"),
		h(), // no status at all
		h("Grpc-Status", "17"),
		h("Grpc-Status", "x"),
		h("Grpc-Status", "2", "Grpc-Message", "a b\x7f"),
		h("Grpc-Status", "0", "Grpc-Message", "not ok"),
		{{K: c13Hx("Grpc-Status"), V: []string{c13Hx("1"), c13Hx("2")}}},
		h("Grpc-Status", "3", "Grpc-Status-Details-Bin", "===="),
	}
	announced := [][]string{
		names(),
		names("Grpc-Status", "Grpc-Message"),
		names("Grpc-Status", "Grpc-Message", "Grpc-Status-Details-Bin"),
		names("X-Checksum"),
		names("X-Checksum", "Grpc-Status", "Server-Timing"),
	}
	reals := [][]c13HdrIn{h(), h("Grpc-Status", "0"), h("Grpc-Status", "5", "Grpc-Message", "gone"), h("X-Other", "v"), h("Grpc-Status", "99")}
	for _, ct := range cts {
		for _, st := range statuses {
			for _, an := range announced {
				for _, real := range reals {
					for _, body := range []bool{false, true} {
						for _, terr := range []bool{false, true} {
							if terr && (body || len(real) > 0) && !c.Thorough() {
								continue
							}
							for _, empty := range []bool{false, true} {
								if empty && len(an) == 0 {
									continue
								}
								c.Do("tonly", c13TOnlyIn{CT: ct, Headers: st, Announced: an, Empty: empty, Real: real, BodyData: body, TraceErr: terr})
								c.E.Count("kind:tonly")
							}
						}
					}
				}
			}
		}
	}
}
