package main

import (
	"encoding/json"
	"fmt"
	"strings"
	"sync"

	cc "connectrpc.com/conformance/internal/app/connectconformance"
	"connectrpc.com/conformance/internal/verifharness/gen"
)

// C11 — a server batch.  One op:
//
//	batch  <VerifC11Spec>  ->  <VerifC11Obs>
//
// the real runTestCasesForServer on a scripted server process and a scripted client runner.

func init() {
	areas["c11"] = runC11
	gen.RegisterOp("c11", "batch", func(_ *gen.Ctx, raw json.RawMessage) any {
		return cc.VerifC11Run(gen.Into[cc.VerifC11Spec](raw))
	})
}

var c11Kinds = []string{"pass", "mismatch", "error", "neither", "noresult"}

func c11Names(n int) []string {
	out := make([]string, n)
	for i := range out {
		out[i] = fmt.Sprintf("Suite/case%d", i)
	}
	return out
}

func c11Cases(n int, kind string, async bool) []cc.VerifC11Case {
	out := make([]cc.VerifC11Case, n)
	for i := range out {
		out[i] = cc.VerifC11Case{K: kind, Async: async}
	}
	return out
}

func c11Base(n int) cc.VerifC11Spec {
	return cc.VerifC11Spec{Names: c11Names(n), Cases: c11Cases(n, "pass", false), Start: "ok", Write: "ok", Close: "ok", Resp: "ok", Dies: -1, RespLen: cc.VerifC11RespLen()}
}

// stderr line pool; %s is replaced by a batch name
var c11LinePool = []string{
	"%s: server did not like this\n",
	"  %s: indented feedback  \n",
	"\t%s: tab: nested: colons\r\n",
	"%s:no space after colon\n",
	"%s : space before colon\n",
	"Other/case: not in this batch\n",
	"prefix %s: name not at start\n",
	"just some log output\n",
	"\n",
	"   \t \n",
	"%s: \n",
	"%s:\n",
	": starts with separator\n",
	"%s: second message for the same case\n",
	"panic: runtime error: index out of range\n",
	"goroutine 1 [running]:\n",
}

func c11Stderr(c *gen.Ctx, names []string, lines int, partial bool) string {
	var sb strings.Builder
	for i := 0; i < lines; i++ {
		l := gen.Pick(c.R, c11LinePool)
		if strings.Contains(l, "%s") {
			l = fmt.Sprintf(l, gen.Pick(c.R, names))
		}
		sb.WriteString(l)
	}
	s := sb.String()
	if partial {
		tails := []string{names[0] + ": unterminated feedback", "unterminated log line", names[len(names)-1] + ": x  ", "   "}
		s += gen.Pick(c.R, tails)
	}
	return s
}

func runC11(c *gen.Ctx) error {
	// real OS processes (see oscmd.go) and the in-process scenarios that wait for real time (a batch
	// that outlasts the 5 s grace period) take seconds: they run beside everything else
	inFast, inSlow := c11InProcScenarios(c)
	var bg sync.WaitGroup
	wire := c11WireScenarios(c)
	refhang := c11RefHangScenarios(c)
	c.E.Add("kind:refhang", len(refhang))
	bg.Add(4)
	go func() {
		defer bg.Done()
		c.DoParallel("refhang", refhang, len(refhang))
	}()
	go func() {
		defer bg.Done()
		c.DoParallel("oscmd", oscmdServerScenarios(c), 4)
	}()
	go func() {
		// each in a child process: the death of the runner is an observation
		defer bg.Done()
		c.DoParallel("wire", wire, 6)
	}()
	go func() {
		defer bg.Done()
		c.DoParallel("inproc", inSlow, len(inSlow))
	}()
	defer bg.Wait()

	var ins []any
	var slow []any
	add := func(kind string, s cc.VerifC11Spec) {
		c.E.Count("kind:" + kind)
		ins = append(ins, s)
	}
	maxN := 4
	if c.Thorough() {
		maxN = 5
	}
	respLen := cc.VerifC11RespLen()
	bools := []bool{false, true}

	// A. set-up faults at every position, with and without TLS, reference server or not
	for n := 1; n <= maxN; n++ {
		for _, isRef := range bools {
			for _, tls := range bools {
				mk := func(f func(s *cc.VerifC11Spec)) cc.VerifC11Spec {
					s := c11Base(n)
					s.IsRef, s.UseTLS = isRef, tls
					s.Creds = c.R.Bool()
					if isRef {
						s.Stderr = c11Stderr(c, s.Names, c.R.Range(0, 4), false)
						s.Chunk = c.R.Intn(6)
					}
					f(&s)
					return s
				}
				add("start-err", mk(func(s *cc.VerifC11Spec) { s.Start = "err" }))
				add("write-err", mk(func(s *cc.VerifC11Spec) { s.Write = "prefix" }))
				add("write-err", mk(func(s *cc.VerifC11Spec) { s.Write = "body" }))
				add("close-err", mk(func(s *cc.VerifC11Spec) { s.Close = "err" }))
				for _, r := range []string{"garbage", "oversize", "overshort", "limit", "zero", "ok", "okcert"} {
					if (r == "oversize" || r == "limit") && n > 2 && !c.Thorough() {
						continue
					}
					add("resp-"+r, mk(func(s *cc.VerifC11Spec) { s.Resp = r }))
					if r == "zero" || r == "ok" || r == "okcert" {
						// what the server's answer says about its certificate, with the runner holding / not holding credentials
						add("resp-"+r, mk(func(s *cc.VerifC11Spec) { s.Resp = r; s.Creds = true }))
						add("resp-"+r, mk(func(s *cc.VerifC11Spec) { s.Resp = r; s.Creds = false }))
					}
				}
				if n <= 2 || c.Thorough() {
					for k := 0; k <= respLen; k++ {
						add("resp-cut", mk(func(s *cc.VerifC11Spec) { s.Resp = "cut"; s.Cut = k }))
					}
				}
			}
		}
	}

	// B/C/D. server dies after k requests x client refuses at i, for every (k, i), kinds and timing
	for n := 1; n <= maxN; n++ {
		for dies := -1; dies <= n; dies++ {
			for refuse := -1; refuse < n; refuse++ {
				for _, isRef := range bools {
					for variant := 0; variant < 4; variant++ {
						s := c11Base(n)
						s.IsRef = isRef
						s.Dies = dies
						s.ExitNil = dies >= 0 && variant%2 == 1 // a server that exits cleanly (status 0) is just as dead
						for i := range s.Cases {
							switch variant {
							case 0:
								s.Cases[i] = cc.VerifC11Case{K: "pass"}
							case 1:
								s.Cases[i] = cc.VerifC11Case{K: "pass", Async: true}
							default:
								s.Cases[i] = cc.VerifC11Case{K: gen.Pick(c.R, c11Kinds), Async: c.R.Bool()}
							}
						}
						if refuse >= 0 {
							s.Cases[refuse] = cc.VerifC11Case{K: "refuse"}
						}
						if isRef {
							s.Stderr = c11Stderr(c, s.Names, c.R.Range(0, 5), false)
							s.Chunk = c.R.Intn(8)
						}
						add("dies-refuse", s)
					}
				}
			}
		}
	}

	// E. every pair of case behaviours (kind x timing, or refuse) for n = 2, and every single one for n = 1
	var behaviours []cc.VerifC11Case
	for _, k := range c11Kinds {
		behaviours = append(behaviours, cc.VerifC11Case{K: k}, cc.VerifC11Case{K: k, Async: true})
	}
	behaviours = append(behaviours, cc.VerifC11Case{K: "refuse"})
	for _, b0 := range behaviours {
		s := c11Base(1)
		s.Cases[0] = b0
		add("behaviours", s)
		for _, b1 := range behaviours {
			s := c11Base(2)
			s.Cases[0], s.Cases[1] = b0, b1
			add("behaviours", s)
		}
	}

	// F. reference-server stderr scripts (fault-free batch: the runner waits for the reader)
	nStderr := 1000
	if c.Thorough() {
		nStderr = 5000
	}
	for i := 0; i < nStderr; i++ {
		n := c.R.Range(1, maxN)
		s := c11Base(n)
		s.IsRef = true
		if c.R.Chance(1, 5) {
			s.Names[c.R.Intn(n)] = "case with spaces"
		}
		if c.R.Chance(1, 5) {
			s.Names[c.R.Intn(n)] = "Suite/a:b"
		}
		s.Stderr = c11Stderr(c, s.Names, c.R.Range(0, 8), c.R.Chance(1, 3))
		s.Chunk = c.R.Intn(10)
		for j := range s.Cases {
			s.Cases[j] = cc.VerifC11Case{K: gen.Pick(c.R, c11Kinds), Async: c.R.Bool()}
		}
		add("stderr", s)
	}
	// every pool line alone, complete and unterminated
	for _, l := range c11LinePool {
		for _, cut := range bools {
			s := c11Base(2)
			s.IsRef = true
			if strings.Contains(l, "%s") {
				l = fmt.Sprintf(l, s.Names[1])
			}
			s.Stderr = l
			if cut {
				s.Stderr = strings.TrimRight(l, "\r\n")
			}
			add("stderr-single", s)
		}
	}

	// G. random combinations of everything
	nRandom := 2000
	if c.Thorough() {
		nRandom = 10000
	}
	for i := 0; i < nRandom; i++ {
		n := c.R.Range(1, maxN)
		s := c11Base(n)
		s.IsRef, s.UseTLS = c.R.Bool(), c.R.Chance(1, 3)
		s.Creds = c.R.Bool()
		if c.R.Chance(1, 12) {
			s.Start = "err"
		}
		if c.R.Chance(1, 12) {
			s.Write = gen.Pick(c.R, []string{"prefix", "body"})
		}
		if c.R.Chance(1, 12) {
			s.Close = "err"
		}
		switch r := c.R.Intn(12); {
		case r < 4:
			s.Resp = "okcert"
		case r < 8:
			s.Resp = "ok"
		case r == 8:
			s.Resp = "zero"
		case r == 9:
			s.Resp = "garbage"
		case r == 10:
			s.Resp = gen.Pick(c.R, []string{"overshort", "overshort", "overshort", "oversize", "limit"})
		default:
			s.Resp, s.Cut = "cut", c.R.Range(0, respLen)
		}
		if c.R.Chance(1, 2) {
			s.Dies = c.R.Range(0, n)
		}
		for j := range s.Cases {
			if c.R.Chance(1, 8) {
				s.Cases[j] = cc.VerifC11Case{K: "refuse"}
			} else {
				s.Cases[j] = cc.VerifC11Case{K: gen.Pick(c.R, c11Kinds), Async: c.R.Bool()}
			}
		}
		if s.IsRef {
			s.Stderr = c11Stderr(c, s.Names, c.R.Range(0, 6), false)
			s.Chunk = c.R.Intn(10)
		}
		add("random", s)
	}

	// H. a server that never answers (waits for the 10 s response timeout): thorough only, in parallel
	if c.Thorough() {
		for _, isRef := range bools {
			s := c11Base(3)
			s.IsRef = isRef
			s.Resp = "never"
			c.E.Count("kind:resp-never")
			slow = append(slow, s)
		}
	}

	c.DoParallel("inproc", inFast, 8)
	c.DoParallel("batch", ins, 8)
	if len(slow) > 0 {
		c.DoParallel("batch", slow, len(slow))
	}
	return nil
}
