package main

// C20, second part: the raw-payload encoders (internal.WriteRawMessageContents /
// WriteRawStreamContents) and the wire tracer's end-stream path, both decoded with the real
// decompressors of internal/compression AND with the third-party libraries used directly.

import (
	"bytes"
	"encoding/binary"
	"encoding/hex"
	"encoding/json"
	"fmt"
	"net/http"
	"strings"

	"connectrpc.com/conformance/internal"
	conformancev1 "connectrpc.com/conformance/internal/gen/proto/go/connectrpc/conformance/v1"
	"connectrpc.com/conformance/internal/tracer"
	"connectrpc.com/conformance/internal/verifharness/gen"
	"google.golang.org/protobuf/types/known/anypb"
)

func init() {
	gen.RegisterOp("c20", "raw", func(_ *gen.Ctx, raw json.RawMessage) any { return c20Raw(gen.Into[c20RawIn](raw)) })
	gen.RegisterOp("c20", "tres", func(_ *gen.Ctx, raw json.RawMessage) any { return c20Tres(gen.Into[c20TresIn](raw)) })
}

// ---------------------------------------------------------------- raw-payload encoders

type c20RawItem struct {
	Enc      int32  `json:"enc"`
	Form     string `json:"form"` // binary | text | message | unset (data oneof not set) | nil (no MessageContents)
	Data     string `json:"data"` // hex
	Flags    uint32 `json:"flags"`
	Explicit bool   `json:"explicit,omitempty"` // stream item with an explicit length (= len(data); identity only)
}
type c20RawIn struct {
	Stream bool         `json:"stream"`
	Items  []c20RawItem `json:"items"`
}
type c20RawFrame struct {
	Flags   int     `json:"flags"`
	Len     int     `json:"len"`
	Payload string  `json:"payload"`
	Dec     *string `json:"dec"` // payload through a fresh decompressor of internal/compression (null: error)
	Ref     *string `json:"ref"` // payload through the third-party library used directly (null: error)
}
type c20RawOut struct {
	Err    bool          `json:"err"`
	Out    string        `json:"out"`
	Frames []c20RawFrame `json:"frames"`
	Rest   string        `json:"rest"` // bytes after the last complete frame
	Encs   []*string     `json:"encs"` // per item: what a fresh compressor writes for the data (null: no such compression)
}

// c20AlgOfEnum is the harness's own reading of the enum (the labels of c20RefDecode).
var c20AlgOfEnum = map[int32]string{0: "identity", 1: "identity", 2: "gzip", 3: "brotli", 4: "zstd", 5: "zlib", 6: "snappy"}

func c20Contents(it c20RawItem) *conformancev1.MessageContents {
	data, _ := hex.DecodeString(it.Data)
	mc := &conformancev1.MessageContents{Compression: conformancev1.Compression(it.Enc)}
	switch it.Form {
	case "nil":
		return nil
	case "unset":
	case "binary":
		mc.Data = &conformancev1.MessageContents_Binary{Binary: data}
	case "text":
		mc.Data = &conformancev1.MessageContents_Text{Text: string(data)}
	case "message":
		mc.Data = &conformancev1.MessageContents_BinaryMessage{BinaryMessage: &anypb.Any{TypeUrl: "type.googleapis.com/connectrpc.conformance.v1.UnaryRequest", Value: data}}
	default:
		panic("form " + it.Form)
	}
	return mc
}

// c20DecodeBoth decodes one payload with the repository's decompressor and with the library.
func c20DecodeBoth(enc int32, payload []byte) (dec, ref *string) {
	if _, ok := c20AlgOfEnum[enc]; !ok {
		return nil, nil
	}
	look := c20FreshLook(enc, payload)
	if look.ResetOk {
		dec = look.Read
	}
	gen.Recover(func() {
		if out, err := c20RefDecode(c20AlgOfEnum[enc], payload); err == nil {
			h := gen.Hex(out)
			ref = &h
		}
	})
	return dec, ref
}

func c20Raw(in c20RawIn) c20RawOut {
	out := c20RawOut{Frames: []c20RawFrame{}, Encs: make([]*string, len(in.Items))}
	for i, it := range in.Items {
		if _, ok := c20AlgOfEnum[it.Enc]; ok && it.Form != "nil" && it.Form != "unset" {
			data, _ := hex.DecodeString(it.Data)
			h := gen.Hex(c20Compress(it.Enc, data))
			out.Encs[i] = &h
		}
	}
	var buf bytes.Buffer
	if !in.Stream {
		it := in.Items[0]
		out.Err = internal.WriteRawMessageContents(c20Contents(it), &buf) != nil
		out.Out = gen.Hex(buf.Bytes())
		if !out.Err {
			fr := c20RawFrame{Flags: int(it.Flags), Len: buf.Len(), Payload: out.Out}
			fr.Dec, fr.Ref = c20DecodeBoth(it.Enc, buf.Bytes())
			out.Frames = append(out.Frames, fr)
		}
		return out
	}
	sc := &conformancev1.StreamContents{}
	for _, it := range in.Items {
		item := &conformancev1.StreamContents_StreamItem{Flags: it.Flags, Payload: c20Contents(it)}
		if it.Explicit {
			n := uint32(len(it.Data) / 2)
			item.Length = &n
		}
		sc.Items = append(sc.Items, item)
	}
	out.Err = internal.WriteRawStreamContents(sc, &buf) != nil
	out.Out = gen.Hex(buf.Bytes())
	rest := buf.Bytes()
	for i := 0; len(rest) >= 5; i++ {
		n := int(binary.BigEndian.Uint32(rest[1:5]))
		if len(rest)-5 < n {
			break
		}
		payload := rest[5 : 5+n]
		fr := c20RawFrame{Flags: int(rest[0]), Len: n, Payload: gen.Hex(payload)}
		if i < len(in.Items) {
			fr.Dec, fr.Ref = c20DecodeBoth(in.Items[i].Enc, payload)
		}
		out.Frames = append(out.Frames, fr)
		rest = rest[5+n:]
	}
	out.Rest = gen.Hex(rest)
	return out
}

// ---------------------------------------------------------------- wire tracer, end-stream path

type c20TresMsg struct {
	K     string `json:"k"`    // valid | corrupt | trunc (the last two only with the compressed flag)
	Data  string `json:"data"` // hex
	Bit   int    `json:"bit"`
	Cut   int    `json:"cut"`            // trunc: bytes kept (mod stream length) ...
	Back  int    `json:"back,omitempty"` // ... or, when > 0, bytes cut off the tail
	Flags int    `json:"flags"`          // envelope flags: bit 0 compressed, 0x02 Connect end-stream, 0x80 gRPC-Web trailers
}
type c20TresIn struct {
	Name  string       `json:"name"`  // the encoding name announced in the response headers
	Enc   int32        `json:"enc"`   // the compression the payloads are built with
	Proto string       `json:"proto"` // connect | grpcweb | grpc
	Msgs  []c20TresMsg `json:"msgs"`
	Chunk int          `json:"chunk"` // the body arrives in pieces of this size (0: in one piece)
}
type c20TresMsgOut struct {
	Src   string   `json:"src"`             // the payload inside the envelope
	Fresh *c20Look `json:"fresh,omitempty"` // what a fresh decompressor does with it (compressed messages)
}
type c20TresOut struct {
	Empty  c20Look         `json:"empty"`
	Msgs   []c20TresMsgOut `json:"msgs"`
	Events []string        `json:"events"`
}

func c20Tres(in c20TresIn) c20TresOut {
	out := c20TresOut{Empty: c20FreshLook(in.Enc, nil), Msgs: []c20TresMsgOut{}}
	var body []byte
	for _, m := range in.Msgs {
		data, _ := hex.DecodeString(m.Data)
		src := data
		var mo c20TresMsgOut
		if m.Flags&1 != 0 {
			src = append([]byte{}, c20Compress(in.Enc, data)...)
			switch m.K {
			case "corrupt":
				if len(src) > 0 {
					bit := m.Bit % (8 * len(src))
					src[bit/8] ^= 1 << uint(bit%8)
				}
			case "trunc":
				if m.Back > 0 {
					if m.Back < len(src) {
						src = src[:len(src)-m.Back]
					}
				} else if len(src) > 0 {
					src = src[:m.Cut%len(src)]
				}
			}
			look := c20FreshLook(in.Enc, src)
			mo.Fresh = &look
		}
		mo.Src = gen.Hex(src)
		out.Msgs = append(out.Msgs, mo)
		var prefix [5]byte
		prefix[0] = byte(m.Flags)
		binary.BigEndian.PutUint32(prefix[1:], uint32(len(src)))
		body = append(append(body, prefix[:]...), src...)
	}
	h := http.Header{}
	hdr := "Grpc-Encoding"
	switch in.Proto {
	case "connect":
		h.Set("Content-Type", "application/connect+proto")
		hdr = "Connect-Content-Encoding"
	case "grpcweb":
		h.Set("Content-Type", "application/grpc-web+proto")
	default:
		h.Set("Content-Type", "application/grpc")
	}
	if in.Name != "" {
		h.Set(hdr, in.Name)
	}
	var chunks [][]byte
	size := in.Chunk
	if size <= 0 || size > len(body) {
		size = len(body)
	}
	for pos := 0; pos < len(body); pos += size {
		end := pos + size
		if end > len(body) {
			end = len(body)
		}
		chunks = append(chunks, body[pos:end])
	}
	errs := make([]string, len(chunks))
	actions := make([]string, len(chunks)+1) // one Read per piece, one more for the EOF
	for i := range actions {
		actions[i] = "r"
	}
	res := tracer.VerifTraceReader(false, true, h, tracer.VerifNewScriptReader(chunks, errs, ""), actions, size+7)
	out.Events = []string{}
	for _, ev := range res.Events {
		if strings.HasPrefix(ev, "pd:") || strings.HasPrefix(ev, "ps:") || strings.HasPrefix(ev, "pe:") {
			out.Events = append(out.Events, ev)
		}
	}
	return out
}

// ---------------------------------------------------------------- generators

func c20RawGen(c *gen.Ctx) {
	r := c.R
	th := c.Thorough()
	forms := []string{"binary", "text", "message"}
	var jobs []any
	// (e) every enum value 0..8 x form x boundary payloads, alone and as the single item of a stream
	fixed := [][]byte{{}, {0}, {0x7f}, []byte("a"), []byte("{}"), []byte(c20ProbeText), bytes.Repeat([]byte{0}, 300), r.Bytes(257)}
	for enc := int32(0); enc <= 8; enc++ {
		for _, f := range append(append([]string{}, forms...), "unset", "nil") {
			for pi, p := range fixed {
				if (f == "unset" || f == "nil") && pi > 0 {
					continue
				}
				it := c20RawItem{Enc: enc, Form: f, Data: gen.Hex(p)}
				jobs = append(jobs, c20RawIn{Items: []c20RawItem{it}})
				it.Flags = uint32(pi % 4)
				jobs = append(jobs, c20RawIn{Stream: true, Items: []c20RawItem{it}})
			}
		}
	}
	// (f) random payloads (0 .. 64 KiB, incompressible / text / runs) and random streams
	n := 250
	if th {
		n = 4000
	}
	textPayload := func(max int) []byte {
		words := []string{"connect", "grpc", " ", "\n", "é", "{\"a\":1}", "0123456789"}
		var sb strings.Builder
		for k := r.Intn(max + 1); sb.Len() < k; {
			sb.WriteString(gen.Pick(r, words))
		}
		return []byte(sb.String())
	}
	item := func(max int) c20RawItem {
		it := c20RawItem{Enc: int32(r.Range(0, 6)), Form: gen.Pick(r, forms), Flags: uint32(gen.Pick(r, []int{0, 1, 2, 3, 128, 129, 255}))}
		if it.Form == "text" {
			it.Data = gen.Hex(textPayload(max / 8))
		} else {
			it.Data = gen.Hex(c20Payload(r, max))
		}
		if r.Chance(1, 8) {
			it.Data = ""
		}
		if it.Enc <= 1 && r.Chance(1, 3) {
			it.Explicit = true
		}
		switch r.Intn(40) {
		case 0:
			it.Form, it.Data, it.Explicit = "unset", "", false
		case 1:
			it.Form, it.Data, it.Explicit = "nil", "", false
		case 2:
			it.Enc, it.Explicit = int32(r.Range(7, 9)), false
		case 3:
			it.Flags = uint32(r.Range(256, 70000))
		}
		return it
	}
	for i := 0; i < n; i++ {
		max := 2048
		if i%5 == 0 {
			max = 65536
		}
		one := item(max)
		one.Explicit, one.Flags = false, 0
		jobs = append(jobs, c20RawIn{Items: []c20RawItem{one}})
		items := make([]c20RawItem, r.Range(1, 5))
		for k := range items {
			items[k] = item(max / len(items))
		}
		jobs = append(jobs, c20RawIn{Stream: true, Items: items})
	}
	// (g) large payloads
	for enc := int32(1); enc <= 6; enc++ {
		big := r.Bytes(r.Range(150000, 300000))
		jobs = append(jobs, c20RawIn{Items: []c20RawItem{{Enc: enc, Form: "binary", Data: gen.Hex(big)}}})
		if th {
			runs := make([]byte, 1<<20)
			for i := range runs {
				runs[i] = byte((i / 97) % 251)
			}
			jobs = append(jobs, c20RawIn{Stream: true, Items: []c20RawItem{{Enc: enc, Form: "binary", Data: gen.Hex(runs), Flags: 1}, {Enc: enc, Form: "binary", Data: "", Flags: 1}, {Enc: enc, Form: "text", Data: gen.Hex([]byte("{}")), Flags: 3}}})
		}
	}
	c.E.Add("raw-encoder-inputs", len(jobs))
	c.DoParallel("raw", jobs, 8)
}

var c20WireNames = map[int32][]string{1: {"identity", "", "Identity"}, 2: {"gzip", "GZIP"}, 3: {"br", "Br"}, 4: {"zstd", "ZSTD"}, 5: {"deflate", "Deflate"}, 6: {"snappy", "SNAPPY"}}

func c20TresGen(c *gen.Ctx) {
	r := c.R
	th := c.Thorough()
	var jobs []any
	first := []byte(`{"error":{"code":"internal","message":"` + strings.Repeat("first attempt; ", 40) + `"}}`)
	second := []byte(`{"metadata":{"x-trailer":["second"]}}`)
	// (h) a truncated / bit-flipped compressed end-stream message, then valid ones (non-empty and
	//     empty), in the same response body: every cut of the tail and a spread of bit positions
	for enc := int32(1); enc <= 6; enc++ {
		n := len(c20Compress(enc, first))
		for pi, proto := range []string{"connect", "grpcweb"} {
			es := 0x03
			if proto == "grpcweb" {
				es = 0x81
			}
			name := c20WireNames[enc][0]
			good := c20TresMsg{K: "valid", Data: gen.Hex(second), Flags: es}
			empty := c20TresMsg{K: "valid", Data: "", Flags: es}
			rawGood := c20TresMsg{K: "valid", Data: gen.Hex(second), Flags: es &^ 1}
			var bads []c20TresMsg
			step := 1
			if !th && n > 48 {
				step = n / 24
			}
			for cut := pi; cut < n; cut += step {
				bads = append(bads, c20TresMsg{K: "trunc", Data: gen.Hex(first), Cut: cut, Flags: es})
			}
			for _, back := range []int{1, 2, 4, 8} { // the tail (checksums, final blocks)
				if back < n {
					bads = append(bads, c20TresMsg{K: "trunc", Data: gen.Hex(first), Back: back, Flags: es})
				}
			}
			bstep := 8 * n / 40
			if th {
				bstep = 3
			}
			if bstep < 1 {
				bstep = 1
			}
			for bit := pi; bit < 8*n; bit += bstep {
				bads = append(bads, c20TresMsg{K: "corrupt", Data: gen.Hex(first), Bit: bit, Flags: es})
			}
			for bi, bad := range bads {
				msgs := []c20TresMsg{bad, good, empty}
				switch bi % 4 {
				case 1:
					msgs = []c20TresMsg{bad, empty, good}
				case 2:
					msgs = []c20TresMsg{{K: "valid", Data: gen.Hex(first), Flags: es}, bad, rawGood, good}
				case 3:
					msgs = []c20TresMsg{{K: "valid", Data: gen.Hex(second), Flags: 1}, bad, bad, good}
				}
				jobs = append(jobs, c20TresIn{Name: name, Enc: enc, Proto: proto, Msgs: msgs, Chunk: []int{0, 1, 7, 64}[bi%4]})
			}
		}
	}
	c.E.Add("tracer-bad-then-valid", len(jobs))
	// (i) random bodies: data and end-stream messages, valid and damaged, random piece sizes, names
	//     in another letter case
	n := 300
	if th {
		n = 5000
	}
	for i := 0; i < n; i++ {
		enc := int32(r.Range(1, 6))
		proto := gen.Pick(r, []string{"connect", "grpcweb", "grpc"})
		es := 0x02
		if proto != "connect" {
			es = 0x80
		}
		max := 600
		if i%10 == 0 {
			max = 40000
		}
		msgs := make([]c20TresMsg, r.Range(1, 5))
		for k := range msgs {
			m := c20TresMsg{K: "valid", Data: gen.Hex(c20Payload(r, max))}
			if r.Chance(3, 4) {
				m.Flags = es
			}
			if r.Chance(3, 4) {
				m.Flags |= 1
				switch r.Intn(5) {
				case 0:
					m.K, m.Bit = "corrupt", r.Intn(1<<20)
				case 1:
					m.K, m.Cut = "trunc", r.Intn(1<<16)
				case 2:
					m.K, m.Back = "trunc", r.Range(1, 9) // the tail: checksums, final blocks
				}
			}
			msgs[k] = m
		}
		jobs = append(jobs, c20TresIn{Name: gen.Pick(r, c20WireNames[enc]), Enc: enc, Proto: proto, Msgs: msgs, Chunk: gen.Pick(r, []int{0, 0, 1, 3, 5, 16, 100, 4096})})
	}
	c.DoParallel("tres", jobs, 8)
}

// ---------------------------------------------------------------- facts

// c20LabelEncoded: which algorithm's reference decoder (the library, used directly) returns the probe text.
func c20LabelEncoded(stream []byte) string {
	var hits []string
	for _, alg := range c20Algs {
		var out []byte
		var err error
		if p := gen.Recover(func() { out, err = c20RefDecode(alg, stream) }); p == "" && err == nil && string(out) == c20ProbeText {
			hits = append(hits, alg)
		}
	}
	if len(hits) == 0 {
		return "broken"
	}
	return strings.Join(hits, "+")
}

// c20RawFacts: the raw-payload encoders' enum -> algorithm table, by behaviour.
func c20RawFacts(sb *strings.Builder) {
	var enc, empty []string
	for e := int32(0); e <= 8; e++ {
		lm, ls := "none", "none"
		mc := &conformancev1.MessageContents{Compression: conformancev1.Compression(e), Data: &conformancev1.MessageContents_Binary{Binary: []byte(c20ProbeText)}}
		var buf bytes.Buffer
		if err := internal.WriteRawMessageContents(mc, &buf); err == nil {
			lm = c20LabelEncoded(buf.Bytes())
		}
		buf.Reset()
		sc := &conformancev1.StreamContents{Items: []*conformancev1.StreamContents_StreamItem{{Flags: 1, Payload: mc}}}
		if err := internal.WriteRawStreamContents(sc, &buf); err == nil && buf.Len() >= 5 {
			ls = c20LabelEncoded(buf.Bytes()[5:])
		}
		enc = append(enc, fmt.Sprintf("(%d, %s, %s)", e, c20Str(lm), c20Str(ls)))
		// a present-but-empty payload: written, and both decoders return the empty string
		ok := false
		buf.Reset()
		mc = &conformancev1.MessageContents{Compression: conformancev1.Compression(e), Data: &conformancev1.MessageContents_Binary{Binary: []byte{}}}
		if err := internal.WriteRawMessageContents(mc, &buf); err == nil {
			dec, ref := c20DecodeBoth(e, buf.Bytes())
			ok = dec != nil && *dec == "" && ref != nil && *ref == ""
		}
		empty = append(empty, fmt.Sprintf("(%d, %v)", e, ok))
	}
	fmt.Fprintf(sb, "/-- internal.WriteRawMessageContents / WriteRawStreamContents (raw-payload encoders): enum value ↦ algorithm whose reference decoder returns the payload, for a message and for a stream item -/\ndef rawEncoderOf : List (Nat × String × String) := [%s]\n\n", strings.Join(enc, ", "))
	fmt.Fprintf(sb, "/-- raw-payload encoder on a present-but-empty payload: written and decoded to the empty string by the matching decompressor and by the library -/\ndef rawEmptyOf : List (Nat × Bool) := [%s]\n\n", strings.Join(empty, ", "))
}
