/-
Model of `runTestCasesForServer` (internal/app/connectconformance/server_runner.go) with the parts of
results.go it uses (`failedToStart`, `setOutcome`, `failRemaining`, `recordSideband`), as a function
of a fault script.  Branch by branch, in the order of the Go code.

Case i of the batch is identified by its index (test names of a batch are distinct).  The client
runner is a parameter: for the i-th `sendRequest` it either refuses (returns an error) or accepts
and later invokes the callback exactly once (this is C10's guarantee) — synchronously, or from
another goroutine (`async`), in which case the invocation is only known to have happened when
`wg.Wait()` returns, or — on the path that returns without waiting — some time after the return.

The server's response can also be given as the BYTES the server process puts on its stdout
(`Resp.stream`): what the runner makes of them is then decided by the model of the length-prefixed
reader (`Delimited.readAt .server`, with the 32-bit prefix arithmetic and the limit of that call
site) — the same for the client's stdout behind the real client runner (`casesOfClientStream`).

Core Lean only.
-/
import ConfModel.Model.Delimited
namespace ConfModel.ServerRunner

/-- class of a recorded outcome: passed · failed (the RPC ran) · set-up error · could not be run
(`couldNotRunError`, a set-up error) · no result from the client (`failedToGetResultError`, a
set-up error) -/
inductive Class | pass | fail | setup | norun | noresult
  deriving DecidableEq, Repr

/-- what the client's callback carries -/
inductive Kind | pass | mismatch | error | neither | noresult
  deriving DecidableEq, Repr

inductive Case
  | refuse
  | answer (k : Kind) (async : Bool)
  deriving DecidableEq, Repr

/-- what the server process writes on stdout -/
inductive Resp
  | ok | okcert          -- well-formed response without / with a certificate
  | zero                 -- zero-length message (decodes to an empty response)
  | limit                -- well-formed response of exactly the maximal size
  | garbage | oversize   -- undecodable body / length prefix above the limit
  | cut (k len : Nat)    -- the first k bytes of a well-formed response of len bytes, then EOF
  | never                -- nothing until the 10 s time-out
  /-- the bytes of the server's stdout (then end of file), whatever they are.  `body` is what
  decoding says about the message behind the first length prefix *if the reader frames one*
  (`none`: cannot be decoded; `some cert`: a response, with / without certificate) — protobuf
  decoding is outside the model, framing is not. -/
  | stream (d : List UInt8) (body : Option Bool)
  deriving DecidableEq, Repr

structure Script where
  cases : List Case
  isRef : Bool
  useTLS : Bool
  startErr : Bool
  writeErr : Bool
  closeErr : Bool
  resp : Resp
  /-- `some k`: the server process is dead once k requests have been handed to the client -/
  dies : Option Nat
  names : List (List Char)
  stderr : List Char

/-- the callback's `switch`: err → setOutcome(name, true, err); error result → failed;
response → assert; neither → setOutcome(name, false, …) -/
def verdict : Kind → Class
  | .pass => .pass
  | .mismatch => .fail
  | .error => .fail
  | .neither => .fail
  | .noresult => .noresult

/-- `ReadDelimitedMessage` + unmarshal: `none` = error, `some cert` = decoded, certificate present? -/
def respCert : Resp → Option Bool
  | .ok => some false
  | .okcert => some true
  | .zero => some false
  | .limit => some false
  | .garbage => none
  | .oversize => none
  | .cut k len => if k < len then none else some false
  | .never => none
  | .stream d body =>
    match (Delimited.readAt .server ⟨d, [], .eofSeparate⟩).res with
    | .msg _ => body
    | _ => none

/-- `for j := i; j < len(testCases); j++ { setOutcome(name_j, true, …) }` over `cnt` cases -/
def marks (i cnt : Nat) (c : Class) : List (Nat × Class) := (List.range' i cnt).map (fun j => (j, c))

def dead (dies : Option Nat) (i : Nat) : Bool := match dies with | some k => k ≤ i | none => false

inductive LoopEnd
  | crashed (log async : List (Nat × Class))   -- `return` out of the loop (server terminated)
  | finished (log async : List (Nat × Class))  -- fell out of / broke out of the loop → wg.Wait()

/-- the send loop from case i on; `log` = setOutcome calls made so far by this goroutine (marks and
synchronous callbacks), `asy` = callbacks handed to other goroutines -/
def sendLoop (dies : Option Nat) : Nat → List Case → List (Nat × Class) → List (Nat × Class) → LoopEnd
  | _, [], log, asy => .finished log asy
  | i, c :: rest, log, asy =>
    if dead dies i then .crashed (log ++ marks i (rest.length + 1) .setup) asy
    else match c with
      | .refuse => .finished (log ++ marks i (rest.length + 1) .norun) asy
      | .answer k false => sendLoop dies (i + 1) rest (log ++ [(i, verdict k)]) asy
      | .answer k true => sendLoop dies (i + 1) rest log (asy ++ [(i, verdict k)])

/-- `failRemaining`: cases without an outcome get `failedToGetResultError{errNoOutcome}` -/
def failRemaining (n : Nat) (log : List (Nat × Class)) : List (Nat × Class) :=
  ((List.range n).filter (fun i => !(log.map (·.1)).contains i)).map (fun i => (i, Class.noresult))

/-! ### the reference server's stderr -/

/-- ASCII white space (Go's `strings.TrimSpace` on ASCII input) -/
def isSpace (c : Char) : Bool := c == ' ' || c == '\t' || c == '\n' || c == '\r' || c.toNat == 11 || c.toNat == 12

def trim (s : List Char) : List Char := ((s.dropWhile isSpace).reverse.dropWhile isSpace).reverse

/-- `strings.SplitN(s, ": ", 2)`: split at the first occurrence -/
def splitSep : List Char → Option (List Char × List Char)
  | [] => none
  | ':' :: ' ' :: rest => some ([], rest)
  | c :: rest => match splitSep rest with
    | some (a, b) => some (c :: a, b)
    | none => none

/-- the sequence of `ReadString('\n')` results: every line keeps its '\n'; an unterminated rest
is the last line -/
def splitLines : List Char → List Char → List (List Char)
  | [], acc => if acc.isEmpty then [] else [acc.reverse]
  | c :: rest, acc => if c == '\n' then (c :: acc).reverse :: splitLines rest [] else splitLines rest (c :: acc)

inductive LineAct
  | skip
  | record (name msg : List Char)
  | forward (orig : List Char)
  deriving DecidableEq, Repr

def lineAct (names : List (List Char)) (orig : List Char) : LineAct :=
  let str := trim orig
  if str.isEmpty then .skip
  else match splitSep str with
    | some (a, b) => if names.contains a then .record a b else .forward orig
    | none => .forward orig

/-- the stderr goroutine over a list of lines: (forwarded lines, recordSideband calls), in order -/
def processLines (names : List (List Char)) : List (List Char) → List (List Char) × List (List Char × List Char)
  | [] => ([], [])
  | l :: ls =>
    let (f, r) := processLines names ls
    match lineAct names l with
    | .skip => (f, r)
    | .record a b => (f, (a, b) :: r)
    | .forward o => (o :: f, r)

/-! ### what the reference server prints: `internal.NewPrinter` (printer.go, `safePrinter`) -/

/-- `fmt.Sprintf` for the verbs used by the feedback of this check: `%s` takes the next argument as
it is, `%%` is a per-cent sign; everything else is copied. -/
def sprintf : List Char → List (List Char) → List Char
  | '%' :: '%' :: t, args => '%' :: sprintf t args
  | '%' :: 's' :: t, a :: args => a ++ sprintf t args
  | c :: t, args => c :: sprintf t args
  | [], _ => []

def endLine (l : List Char) : List Char := if l.getLast? == some '\n' then l else l ++ ['\n']

/-- `safePrinter.PrefixPrintf(prefix, msg, args…)`: `Fprintf(w, "%s: ", prefix)` — the prefix is an
ARGUMENT, never part of a format —, then `Fprintf(w, msg, args…)`, then a newline unless the last
byte written is one.  The reference server prints its per-case feedback this way, with the test-case
name as prefix (`feedbackPrinter.Printf`). -/
def prefixPrintf (pre fmt : List Char) (args : List (List Char)) : List Char :=
  endLine (pre ++ ':' :: ' ' :: sprintf fmt args)

/-- `safePrinter.Printf(msg, args…)` (for a non-empty output) -/
def printf (fmt : List Char) (args : List (List Char)) : List Char := endLine (sprintf fmt args)

structure Out where
  /-- every `setOutcome` call: (case, class) -/
  log : List (Nat × Class)
  aborts : Nat
  started : Bool
  forwarded : List (List Char)
  sideband : List (List Char × List Char)
  deriving Repr

def runBatch (s : Script) : Out :=
  let n := s.cases.length
  if s.startErr then
    { log := marks 0 n .setup, aborts := 0, started := false, forwarded := [], sideband := [] }
  else
    let (fw, sb) := if s.isRef then processLines s.names (splitLines s.stderr []) else ([], [])
    -- `defer serverProcess.abort()`
    let early : Out := { log := marks 0 n .setup, aborts := 1, started := true, forwarded := fw, sideband := sb }
    if s.writeErr then early
    else if s.closeErr then early
    else match respCert s.resp with
      | none => early
      | some cert =>
        if s.useTLS && !cert then early
        else match sendLoop s.dies 0 s.cases [] [] with
          | .crashed log asy => { early with log := log ++ asy }
          | .finished log asy =>
            let log' := log ++ asy
            { early with log := log' ++ failRemaining n log', aborts := 2 }

/-! ### the process controller of an in-process peer (`localProcess`, process.go `runInProcess`)

Both reference servers are run this way.  Times are abstract ticks. -/

/-- `exit = some t`: the function started by `runInProcess` returned at time t (`close(proc.done)`);
`none`: it does not return before it is told to (a healthy server). -/
structure LocalProc where
  exit : Option Nat
  deriving DecidableEq, Repr

/-- `whenDone(action)` is `go func() { <-l.done; action(l.err) }()`: the time at which `action`
runs — when the process has ended, never before, never if it does not end. -/
def LocalProc.hookAt (p : LocalProc) : Option Nat := p.exit

/-- `result()` called at time `now`: waits for `done` but gives up after the grace period:
(time of the return, the process had ended). -/
def LocalProc.result (p : LocalProc) (grace now : Nat) : Nat × Bool :=
  match p.exit with
  | some t => if t ≤ now + grace then (max t now, true) else (now + grace, false)
  | none => (now + grace, false)

/-- The `dies` of a fault script, from times: `runTestCasesForServer` registers
`whenDone(func(error) { procCancel() })`, so `procCtx` is cancelled at `hook`; the send loop tests
`procCtx.Err()` at time `checks[i]` before it hands out case i.  `some k`: k tests came before the
cancellation (k ≥ number of cases: the loop never saw it). -/
def diesOf (hook : Option Nat) (checks : List Nat) : Option Nat :=
  hook.map fun h => (checks.takeWhile (· < h)).length

/-! ### composition with the real client runner (C10)

What the send loop sees of request i when the `clientRunner` is the real `clientProcessRunner`:
`accepted` = `sendRequest` returned nil, `answer` = the response kind its callback carried (`none`:
the callback carried an error, `failedToGetResultError`).  The callback comes from the reader
goroutine. -/
def caseOf (accepted : Bool) (answer : Option Kind) : Case :=
  if accepted then .answer (answer.getD .noresult) true else .refuse

/-- the messages at the head of a list of read results -/
def leadingMsgs : List Delimited.Res → Nat
  | .msg _ :: t => leadingMsgs t + 1
  | _ => 0

/-- What the send loop sees of a batch of `n` cases when the real client runner reads the bytes `d`
(then end of file) from the client's stdout after every request has been written: `consumeOutput`
calls `ReadDelimitedMessage` (site `.client`) until it fails; the first `valid` frames are
well-formed responses for cases 0, 1, … in turn (decoding is outside the model).  Every case whose
response was framed and decoded keeps its answer; every other case gets its callback with
`failedToGetResultError` when the reader gives up — whatever made it give up. -/
def casesOfClientStream (n valid : Nat) (d : List UInt8) : List Case :=
  let res := (Delimited.readAllWith (Delimited.readAt .client) (n + 1) ⟨d, [], .eofSeparate⟩).results
  let k := min valid (leadingMsgs res)
  (List.range n).map fun i => if i < k then .answer .pass true else .answer .noresult true

/-- the `sync.WaitGroup` of the send loop for one attempted case: `Add(1)`, then `Done()` once per
callback invocation and once more if `sendRequest` returned an error.  0 = balanced; a negative
value is the panic "negative WaitGroup counter", a positive one a batch that never returns. -/
def wgBalance (accepted : Bool) (callbacks : Nat) : Int :=
  1 - (callbacks : Int) - (if accepted then 0 else 1)

end ConfModel.ServerRunner
