/-
Declarative side of C19: which sizes a request can be padded to at all, and the property's
predicate on one observed expansion.
-/
import ConfModel.Model.Expand
namespace ConfModel.Padding
open ConfModel.Expand

/-- Is there a padding length `L` with `size R L = T`?  Closed form: `T = R` (no padding), or
`L = T - R - 1 - w` for one of the ten possible varint widths `w`. -/
def reachable (R T : Nat) : Bool :=
  T == R || (List.range 10).any (fun k => R + 2 + k < T && size R (T - R - 2 - k) == T)

/-- The property on one expansion directive, conservative reading: either the request now
has exactly `limit + off` bytes and nothing but the padding field changed, or an error was
returned (a panic is neither). -/
def holdsExpand (limit : Nat) (off : Int) (ok errored : Bool) (sizeAfter : Nat) (othersEqual : Bool) : Bool :=
  if ok then ((sizeAfter : Int) == (limit : Int) + off) && othersEqual else errored

/-- The receive limit as the property states it: a message of uncompressed size `size` is
accepted iff it does not exceed the limit (so `limit` passes and `limit + 1` does not). -/
def accepts (limit size : Nat) : Bool := size ≤ limit

end ConfModel.Padding
