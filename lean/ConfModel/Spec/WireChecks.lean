/-
Declarative side of C13, byte level: what a well-formed gRPC-Web trailer block / gRPC status
trailer set is, and which malformations must be reported.  Independent of the loop structure
of the examiners (grammar-style recursive definitions over the bytes).
-/
import ConfModel.Model.WireChecks
namespace ConfModel.WireChecksSpec
open ConfModel.WireChecks
open ConfModel.ServerTimeout (Bytes parseInt isDigit)

/-! ### grpc-message grammar:  *( %x20-24 / %x26-7E / "%" HEXDIG HEXDIG ) -/

def encodingOK : Bytes → Bool
  | [] => true
  | c :: rest =>
    if c.toNat == 37 then
      match rest with
      | h1 :: h2 :: rest' => isHex h1 && isHex h2 && encodingOK rest'
      | _ => false
    else !shouldEscape c && encodingOK rest

/-! ### gRPC-Web trailer block grammar:  *( field-name ":" OWS field-value OWS CRLF ) -/

/-- a non-empty token without upper-case letters -/
def lowerToken (k : Bytes) : Bool := !k.isEmpty && k.all (fun b => isTchar b && !isUpper b)

def fieldLineOK (l : Bytes) : Bool :=
  match splitColon l with
  | (k, some v) => lowerToken k && validFieldValue (trimWS v)
  | _ => false

/-- the CRLF-terminated lines of a block; `none` if the block does not end in CRLF
(`acc`: the current line reversed, `cr`: the previous byte was a CR not yet accounted for) -/
def crlfLines : Bytes → Bytes → Bool → Option (List Bytes)
  | [], acc, cr => if acc.isEmpty && !cr then some [] else none
  | c :: t, acc, cr =>
    if cr then
      if c.toNat == 10 then (crlfLines t [] false).map (acc.reverse :: ·)
      else if c.toNat == 13 then crlfLines t (13 :: acc) true
      else crlfLines t (c :: 13 :: acc) false
    else if c.toNat == 13 then crlfLines t acc true
    else crlfLines t (c :: acc) false

/-- the block is a sequence of well-formed, CRLF-terminated field lines -/
def blockOK (s : Bytes) : Bool :=
  match crlfLines s [] false with
  | some ls => ls.all fieldLineOK
  | none => false

/-- the LF-terminated lines of the block with one trailing CR removed (the unterminated rest,
if any, is judged by `wrongLineEnding` only) -/
def terminatedLines (s : Bytes) : List Bytes :=
  (splitLF s).dropLast.map (fun l => if l.getLast? == some 13 then l.dropLast else l)

/-- some LF is not preceded by CR, or the non-empty block does not end in LF -/
def wrongLineEnding (s : Bytes) : Bool :=
  (splitLF s).dropLast.any (fun l => l.getLast? != some 13) || ((splitLF s).getLast?.map (!·.isEmpty)).getD false

/-- The malformation classes the end-stream checks name, as demands on the feedback: each entry
is a list of alternatives of which at least one must be reported. -/
def mustFlagLine (l : Bytes) : List (List EsFb) :=
  if l.isEmpty then [[.blankLines, .extraBlankAtEnd]]
  else if (l.head?.map isWS).getD false then [[.obsFold, .invalidName, .missingColon]]
  else match splitColon l with
    | (_, none) => [[.missingColon]]
    | (k, some v) =>
      (if !(!k.isEmpty && k.all isTchar) then [[EsFb.invalidName]] else [])
      ++ (if isASCII k && k.any isUpper then [[.nonLowerKey]] else [])
      ++ (if !validFieldValue (trimWS v) then [[.invalidValue]] else [])

def mustFlag (s : Bytes) : List (List EsFb) :=
  (if wrongLineEnding s then [[EsFb.lfOnly, .noFinalCRLF]] else [])
  ++ (terminatedLines s).flatMap mustFlagLine

/-- the property on the end-stream examiner's output -/
def blockHolds (s : Bytes) (fb : List EsFb) : Bool :=
  (!blockOK s || fb.isEmpty) && (mustFlag s).all (fun alts => alts.any fb.contains)

/-! ### status trio -/

def decimalOK (s : Bytes) : Bool := !s.isEmpty && s.all isDigit

/-- well-formed: exactly one `grpc-status` in 0..16, at most one correctly encoded
`grpc-message` (empty when the status is 0), at most one unpadded, parseable
`grpc-status-details-bin` agreeing with both -/
def statusOKCore (dec : Bytes → DetailsDec) (st ms ds : List Bytes) : Bool :=
  match st with
  | [s] =>
    match parseInt 64 s with
    | some code =>
      decide (0 ≤ code) && decide (code ≤ 16) &&
      (match ms with
        | [] => true
        | [m] => encodingOK m && (code != 0 || m.isEmpty)
        | _ => false) &&
      (match ds with
        | [] => true
        | [d] =>
          (match dec d with
            | .decoded false (some (c, msg, hasDetails)) =>
              c == code && !(c == 0 && hasDetails) &&
              (match ms with
                | [m] => percentDecode m == some msg
                | _ => true)
            | _ => false)
        | _ => false)
    | none => false
  | _ => false

def statusOK (dec : Bytes → DetailsDec) (h : Hdrs) : Bool :=
  statusOKCore dec (hget h kStatus) (hget h kMessage) (hget h kDetails)

def mustStatus (st : List Bytes) : List (List StFb) :=
  (if st.length > 1 then [[StFb.multiStatus]] else [])
  ++ (if st.isEmpty then [[.noStatus]] else [])
  ++ (match st with
      | [s] => match parseInt 64 s with
        | none => [[.badStatus]]
        | some c => if c < 0 || c > 16 then [[.statusRange]] else []
      | _ => [])

def mustMessage (ms : List Bytes) : List (List StFb) :=
  (if ms.length > 1 then [[StFb.multiMessage]] else [])
  ++ (match ms.head? with
      | some m => if !encodingOK m then [[.msg .hexExpected, .msg .unescaped, .msg .incomplete]] else []
      | none => [])

def mustDetails (dec : Bytes → DetailsDec) (code : Option Int) (msg : Option Bytes) (ds : List Bytes) :
    List (List StFb) :=
  (if ds.length > 1 then [[StFb.multiDetails]] else [])
  ++ (match ds.head? with
      | none => []
      | some d =>
        match dec d with
        | .invalid => [[.detailsBadBase64]]
        | .decoded padded stp =>
          (if padded then [[StFb.detailsPadded]] else []) ++
          match stp with
          | none => [[.detailsUnparseable]]
          | some (c, m, _) =>
            (match code with
              | some sc => if c != wrap32 sc then [[StFb.detailsCodeMismatch]] else []
              | none => [])
            ++ (match msg with
              | some m' => if m != m' then [[.detailsMsgMismatch]] else []
              | none => []))

/-- The malformation classes the status checks name (multiple / missing / invalid
`grpc-status`, bad percent-encoding, bad or padded base64, status/details disagreement), as
demands on the feedback: of each entry at least one alternative must be reported. -/
def mustFlagStatusCore (dec : Bytes → DetailsDec) (st ms ds : List Bytes) : List (List StFb) :=
  mustStatus st ++ mustMessage ms
  ++ mustDetails dec (match st with | [s] => parseInt 64 s | _ => none) (ms.head?.bind percentDecode) ds

def mustFlagStatus (dec : Bytes → DetailsDec) (h : Hdrs) : List (List StFb) :=
  mustFlagStatusCore dec (hget h kStatus) (hget h kMessage) (hget h kDetails)

def statusHolds (dec : Bytes → DetailsDec) (h : Hdrs) (fb : List StFb) : Bool :=
  (!statusOK dec h || fb.isEmpty) && (mustFlagStatus dec h).all (fun alts => alts.any fb.contains)

/-! ### the reference server's own gRPC-Web end-stream message -/

def reservedNames : List Bytes := [bs "grpc-status", bs "grpc-message", bs "grpc-status-details-bin"]

/-- user trailers that can be rendered into a well-formed block: valid names (no clash with the
status trio), valid values -/
def trailersOK (trailers : Hdrs) : Bool :=
  trailers.all (fun (n, vs) => validFieldName n && isASCII n && !reservedNames.contains (lowerASCII n)
    && vs.all validFieldValue)

/-- no leading or trailing space (a tab is percent-encoded, a space is not) -/
def noEdgeSpace (msg : Bytes) : Bool := msg.head? != some 32 && msg.getLast? != some 32

end ConfModel.WireChecksSpec
