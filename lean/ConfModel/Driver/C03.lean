import ConfModel.Driver.Common
import ConfModel.Model.Assert
import ConfModel.Model.AssertPath
import ConfModel.Model.AssertSeq
import ConfModel.Model.AssertLib
import ConfModel.Spec.Agree
import ConfModel.Generated.C03Facts
namespace ConfModel.Driver.C03
open Lean ConfModel.Driver ConfModel.Assert ConfModel.Agree ConfModel.AssertPath

def grace : Int := ConfModel.Generated.C03Facts.grace

def optInt (j : Json) : Option Int := if isNull j then none else some (int j)
def optStr (j : Json) : Option String := if isNull j then none else some (str j)

def pHeaders (j : Json) : List Header :=
  (arr j).map fun h => { name := str (field h "n"), values := (strList (field h "v")).map String.toList }

def pMsg (j : Json) : Msg := { tag := str (field j "t"), data := unhex (str (field j "d")) }

def pReqInfo (j : Json) : ReqInfo :=
  { headers := pHeaders (field j "h"), timeoutMs := optInt (field j "to"),
    requests := (arr (field j "rq")).map pMsg, queryParams := pHeaders (field j "q") }

def pPayload (j : Json) : Payload :=
  { data := unhex (str (field j "d")),
    reqInfo := if isNull (field j "ri") then none else some (pReqInfo (field j "ri")) }

def pDetail (j : Json) : Detail :=
  if isNull (field j "ri") then .other (pMsg (field j "o")) else .reqInfo (pReqInfo (field j "ri"))

def pErr (j : Json) : Option Err :=
  if isNull j then none else
  some { code := nat (field j "c"), message := optStr (field j "m"), details := (arr (field j "d")).map pDetail }

def pResult (j : Json) : Result :=
  { headers := pHeaders (field j "h"), payloads := (arr (field j "p")).map pPayload, error := pErr (field j "e"),
    trailers := pHeaders (field j "t"), numUnsent := nat (field j "u"), httpStatus := optInt (field j "s") }

def pStream : Nat → StreamType
  | 1 => .unary | 2 => .clientStream | 3 => .serverStream | 4 => .halfDuplexBidi | 5 => .fullDuplexBidi
  | _ => .unspecified

def whatStr : What → String
  | .responseHeaders => "response headers" | .responseTrailers => "response trailers"
  | .responseMetadata => "response metadata" | .requestHeaders => "request headers"
  | .queryParams => "request query params"

def render : Discrepancy → String
  | .unexpectedError => "unexpectedError" | .missingError => "missingError" | .code => "code"
  | .message => "message" | .detailCount => "detailCount" | .detail i => "detail:" ++ toString i
  | .payloadCount => "payloadCount" | .payloadData i => "payloadData:" ++ toString i
  | .headerMissing w n => "headerMissing:" ++ whatStr w ++ ":" ++ n
  | .headerValues w n => "headerValues:" ++ whatStr w ++ ":" ++ n
  | .timeoutMissing => "timeoutMissing" | .timeoutRange => "timeoutRange"
  | .timeoutUnexpected => "timeoutUnexpected" | .requestCount => "requestCount"
  | .request k => "request:" ++ toString k | .status => "status"

/-- a value the leniency "joined or split on commas" speaks of: no comma, no space at either end -/
def cleanVal (v : Val) : Bool := !v.contains ',' && v.head? != some ' ' && v.getLast? != some ' '

/-- the rendering of a model verdict as the harness names it -/
def verdictStr : AssertPath.Verdict → String
  | .setup => "setup" | .clientFailed _ => "clientError" | .asserted _ => "asserted" | .neither => "neither"

def verdictErrs : AssertPath.Verdict → List String
  | .asserted ds => ds.map render
  | _ => []

def pFlags (j : Json) : Flags :=
  { logEach := bool (field j "v"), tracing := bool (field j "t"), refClient := bool (field j "rc"), refServer := bool (field j "rs") }

def flagsStr (f : Flags) : String :=
  (if f.logEach then "v" else "-") ++ (if f.tracing then "t" else "-") ++
  (if f.refClient then "c" else "-") ++ (if f.refServer then "s" else "-")

def countLog (l : LogLine) (ls : List LogLine) : Nat := (ls.filter (· == l)).length

/-- one run of op "path": (agrees with `deliver`, why-not-holds) -/
def judgeRun (st : StreamType) (other : List Nat) (e : Result) (reply : Reply) (direct : Option (List String))
    (wf agrees : Bool) (expect mutn : String) (f : Flags) (run : Json) : Bool × String :=
  let d := deliver f grace st other e reply
  let iv := str (field run "verdict")
  let ie := strList (field run "errs")
  let isb : Option String := if bool (field run "hasSideband") then some (str (field run "sideband")) else none
  let agree := iv == verdictStr d.verdict && ie == verdictErrs d.verdict &&
    nat (field run "sending") == countLog .sending d.log && nat (field run "received") == countLog .received d.log &&
    nat (field run "otherLog") == 0 && isb == d.sideband
  let at_ := " [flags " ++ flagsStr f ++ "]"
  let passed := iv == "asserted" && ie.isEmpty
  let why :=
    if bool (field run "hang") then "hang: runTestCasesForServer did not return" ++ at_
    else if !bool (field run "recorded") then "unrecorded: no outcome was recorded for the case" ++ at_
    else if bool (field run "mutated") then "mutated: the client's reply object was changed on the way to assert (" ++ mutn ++ ")" ++ at_
    else if bool (field run "spareTouched") then "mutated: the spare capacity of a repeated field of the client's reply was written (" ++ mutn ++ ")" ++ at_
    else if bool (field run "defMutated") then "mutated: the test case definition was changed (" ++ mutn ++ ")" ++ at_
    else match reply, direct with
    | .response _ _, some dErrs =>
      if iv != "asserted" then "not-asserted: a reported result was recorded as " ++ iv ++ at_
      else if ie != dErrs then "path: the discrepancies recorded through runTestCasesForServer " ++ toString ie ++
        " are not those assert gives on the reported result " ++ toString dErrs ++ " (" ++ mutn ++ ")" ++ at_
      else if wf && passed && !agrees then "missed: the results do not agree (" ++ mutn ++ ") but the case passed" ++ at_
      else if wf && !passed && agrees then "spurious: the results agree up to the documented leniencies (" ++ mutn ++ ") but " ++ toString ie ++ " was recorded" ++ at_
      else if !(expect.isEmpty || ie.contains expect) then "unnamed: deviation " ++ mutn ++ " must be named as " ++ expect ++ " but the record is " ++ toString ie ++ at_
      else ""
    | _, _ => if passed then "passed-without-result: a reply without a reported result was recorded as passed" ++ at_ else ""
  (agree, why)

/-! #### op "seqassert" -/

structure SeqPair where
  st : StreamType
  other : List Nat
  e : Result
  a : Result
  expect : String
  mutn : String
  deriving Inhabited

def pSeqPair (j : Json) : SeqPair :=
  { st := pStream (nat (field j "st")), other := natList (field j "other"), e := pResult (field j "exp"),
    a := pResult (field j "act"), expect := str (field j "expect"), mutn := str (field j "mut") }

def pSeqCall (pairs : Array SeqPair) (j : Json) : AssertSeq.Call :=
  let ns := strList (field j "ns")
  let n := ns.headD ""
  match str (field j "k") with
  | "assert" => let p := pairs[nat (field j "pair")]!; .assert n p.st p.other p.e p.a
  | "failed" => .failed n
  | "neither" => .neither n
  | "setup" => .setup n
  | "start" => .start ns
  | "remaining" => .remaining ns
  | _ => .sideband n (str (field j "msg"))

def failKind : Option AssertSeq.Fail → String × List String
  | none => ("none", [])
  | some (.discrepancies ds) => ("discrepancies", ds.map render)
  | some .client => ("client", []) | some .neither => ("neither", []) | some .setup => ("setup", [])
  | some .start => ("start", []) | some .noResult => ("noResult", []) | some (.sideband _) => ("sideband", [])

/-- the index (in `pairs`) of the pair of the last call that stores an outcome for `n`, when that
call is an `assert` -/
def lastAssertPair (n : String) (calls : List (AssertSeq.Call × Json)) : Option Nat :=
  match (calls.reverse.find? fun (c, _) => c.writes n) with
  | some (.assert _ _ _ _ _, j) => some (nat (field j "pair"))
  | _ => none

def handle : Handler := fun op inp impl =>
  if !(isNull (field impl "panic")) then
    { agree := false, holds := false, why := "panic: " ++ str (field impl "panic") } else
  match op with
  | "assert" =>
    let st := pStream (nat (field inp "st"))
    let other := natList (field inp "other")
    let e := pResult (field inp "exp")
    let a := pResult (field inp "act")
    let expect := str (field inp "expect")
    let mutn := str (field inp "mut")
    let iErrs := strList (field impl "errs")
    let recorded := bool (field impl "recorded")
    let m := (assert grace st other e a).map render
    let agree := recorded && iErrs == m
    let model := toJson m
    let kind := ((mutn.splitOn ":").getLast?.getD mutn).takeWhile (fun c => c != '@' && c != '=') |>.toString
    if !decide (WellFormed e a) then
      { agree := agree, holds := true, nontrivial := false, model := model, cls := "not-well-formed" }
    else
    let agrees := decide (Agree grace st other e a)
    let passed := iErrs.isEmpty
    let named := expect.isEmpty || iErrs.contains expect
    let why :=
      if !recorded then "unrecorded: assert recorded no outcome for the case"
      else if passed && !agrees then "missed: the results do not agree (" ++ mutn ++ ") but no discrepancy was reported"
      else if !passed && agrees then "spurious: the results agree up to the documented leniencies (" ++ mutn ++ ") but " ++ toString iErrs ++ " was reported"
      else if !named then "unnamed: deviation " ++ mutn ++ " must be named as " ++ expect ++ " but the report is " ++ toString iErrs
      else ""
    { agree := agree, holds := why.isEmpty, nontrivial := mutn != "identical", model := model, why := why,
      cls := (if agrees then "agree:" else "deviate:") ++ kind }
  | "path" =>
    let st := pStream (nat (field inp "st"))
    let other := natList (field inp "other")
    let e := pResult (field inp "exp")
    let a := pResult (field inp "act")
    let expect := str (field inp "expect")
    let mutn := str (field inp "mut")
    let kindR := str (field inp "reply")
    let reply : Reply := match kindR with
      | "response" => .response a (strList (field inp "fb"))
      | "error" => .clientError "client says no"
      | "neither" => .neither
      | "noresult" => .noResult
      | _ => .transport
    let isResp := kindR == "response"
    let direct : Option (List String) :=
      if isNull (field impl "direct") then none else some (strList (field (field impl "direct") "errs"))
    let mDirect := (assert grace st other e a).map render
    let wf := isResp && decide (WellFormed e a)
    let agrees := isResp && wf && decide (Agree grace st other e a)
    let flags := (arr (field inp "runs")).map pFlags
    let runs := arr (field impl "runs")
    let judged := (flags.zip runs).map fun (f, run) => judgeRun st other e reply direct wf agrees expect mutn f run
    let agree := runs.length == flags.length && judged.all (·.1) &&
      (if isResp then direct == some mDirect else direct.isNone)
    let whys := judged.filterMap fun (_, w) => if w.isEmpty then none else some w
    let why :=
      if runs.length != flags.length then "runs: " ++ toString runs.length ++ " runs reported for " ++ toString flags.length ++ " settings"
      else if isResp && direct.isNone then "direct: assert recorded nothing for the reported result"
      else whys.headD ""
    let kind := ((mutn.splitOn ":").getLast?.getD mutn).takeWhile (fun c => c != '@' && c != '=') |>.toString
    { agree := agree, holds := why.isEmpty, nontrivial := flags.any (·.logEach) && mutn != "identical",
      model := Json.mkObj [("direct", toJson mDirect), ("verdict", toJson (verdictStr (deliver default grace st other e reply).verdict))],
      why := why,
      cls := "path:" ++ (if !isResp then kindR else if !wf then "not-well-formed" else if agrees then "agree:" ++ kind else "deviate:" ++ kind) }
  | "seqassert" =>
    let pool := strList (field inp "pool")
    let pairs := ((arr (field inp "pairs")).map pSeqPair).toArray
    let callsJ := arr (field inp "calls")
    let calls := callsJ.map (pSeqCall pairs)
    let total := nat (field inp "total")
    let s := AssertSeq.run grace calls
    -- the implementation's observations
    let iOut := (arr (field impl "outcomes")).map fun o =>
      (str (field o "n"), bool (field o "setup"), str (field o "kind"), strList (field o "errs"))
    let iListed := strList (field impl "listed")
    let iGet (n : String) := iOut.find? (·.1 == n)
    -- the model's
    let mOut := pool.filterMap fun n => (AssertSeq.get s.outcomes n).map fun o =>
      let (k, es) := failKind o.failure; (n, o.setupError, k, es)
    let mListed := pool.filter (AssertSeq.listedFailed s)
    let mCount := (pool.filter (AssertSeq.hasOutcome s)).length
    let mNotRun := total - mCount
    let agree := iOut == mOut && iListed == mListed && nat (field impl "total") == mCount &&
      nat (field impl "failed") == mListed.length && nat (field impl "passed") == mCount - mListed.length &&
      nat (field impl "notRun") == mNotRun && bool (field impl "ok") == (mListed.isEmpty && mNotRun == 0) &&
      nat (field impl "otherLines") == 0
    -- the property on the implementation's output: a name whose last stored outcome is a comparison
    -- shows the verdict of THAT comparison
    let whys := pool.filterMap fun n =>
      match lastAssertPair n (calls.zip callsJ) with
      | none => none
      | some k =>
        let p := pairs[k]!
        let sb := calls.any (·.isSidebandFor n)
        let at_ := " [name " ++ n ++ ", pair " ++ toString k ++ " " ++ p.mutn ++ "]"
        match iGet n with
        | none => some ("unpublished: no outcome is stored for a name that was compared" ++ at_)
        | some (_, setup, kind, errs) =>
          let passed := kind == "none"
          let listed := iListed.contains n
          if setup then some ("stale: the outcome of the name is a setup error although its last call was a comparison" ++ at_)
          else if !(kind == "none" || kind == "discrepancies") then some ("stale: the outcome of the name is " ++ kind ++ " although its last call was a comparison" ++ at_)
          else if !sb && listed != !passed then some ("report: FAILED listing (" ++ toString listed ++ ") does not show the stored verdict" ++ at_)
          else if !decide (WellFormed p.e p.a) then none
          else
            let agrees := decide (Agree grace p.st p.other p.e p.a)
            if passed && !agrees then some ("missed: the last reported result does not agree but the name passed" ++ at_)
            else if !passed && agrees then some ("spurious: the last reported result agrees up to the documented leniencies but " ++ toString errs ++ " is published" ++ at_)
            else if !(p.expect.isEmpty || errs.contains p.expect) then some ("unnamed: the deviation of the last comparison must be named as " ++ p.expect ++ " but " ++ toString errs ++ " is published" ++ at_)
            else none
    let why := whys.headD ""
    let repeated := pool.any fun n => (calls.filter (·.writes n)).length > 1
    { agree := agree, holds := why.isEmpty, nontrivial := repeated,
      model := Json.mkObj [("listed", toJson mListed), ("outcomes", toJson (mOut.map fun (n, su, k, es) => Json.mkObj [("n", toJson n), ("setup", toJson su), ("kind", toJson k), ("errs", toJson es)]))],
      why := why, cls := if repeated then "seq:repeated-name" else "seq:unique-names" }
  | "libassert" =>
    let casesJ := arr (field inp "cases")
    -- distinct config cases as (v, p, c, z, tls)
    let cfgs := (arr (field inp "cfgs")).map fun c =>
      (nat (field c "v"), nat (field c "p"), nat (field c "c"), nat (field c "z"), bool (field c "tls"))
    let cfgs := cfgs.eraseDups
    let common (c : Nat × Nat × Nat × Nat × Bool) := c.2.2.1 == 1 && (c.2.2.2.1 == 1 || c.2.2.2.1 == 2) && !c.2.2.2.2
    let eligC (c : Nat × Nat × Nat × Nat × Bool) := common c && c.2.1 == 2 && c.1 == 2
    let eligS (c : Nat × Nat × Nat × Nat × Bool) := common c && ((c.2.1 == 2 && c.1 == 2) || (c.2.1 == 3 && (c.1 == 1 || c.1 == 2)))
    -- the library's originals in the model: one Def per (case, config case)
    let defsOf (j : Json) : List AssertLib.Def := cfgs.map fun c =>
      { name := str (field j "name"), st := pStream (nat (field j "st")), other := natList (field j "other"),
        expected := pResult (field j "exp"), eligibleClient := eligC c, eligibleServer := eligS c }
    let perms := arr (field impl "perms")
    let ierr := str (field impl "err")
    let judged := casesJ.map fun j =>
      let nm := str (field j "name")
      let a := pResult (field j "act")
      let expect := str (field j "expect")
      let mutn := str (field j "mut")
      let mperms := AssertLib.allPermutations (defsOf j) true true
      let mine := perms.filter fun p => str (field p "case") == nm
      let kindCount (k : String) := (mine.filter fun p => str (field p "kind") == k).length
      let mCount (m : Option AssertLib.Marker) := match m with
        | none => cfgs.length
        | some m => (AssertLib.copies m (defsOf j)).length
      let d0 : AssertLib.Def := (defsOf j).headD default
      let m := (AssertLib.verdictOf grace d0 a).map render
      -- every model permutation gives the verdict of the original (the theorem, evaluated)
      let agree := mine.length == mperms.length && kindCount "" == mCount none && kindCount "client" == mCount (some .client) &&
        kindCount "server" == mCount (some .server) && kindCount "both" == mCount (some .both) &&
        mperms.all (fun p => (AssertLib.verdictOf grace p a).map render == m) &&
        mine.all fun p => bool (field p "recorded") && strList (field p "errs") == m
      let wf := decide (WellFormed d0.expected a)
      let agrees := wf && decide (Agree grace d0.st d0.other d0.expected a)
      let whys := mine.filterMap fun p =>
        let at_ := " [" ++ str (field p "name") ++ ", " ++ mutn ++ "]"
        let diff := strList (field p "diff")
        let od := strList (field p "origDiff")
        let errs := strList (field p "errs")
        let passed := errs.isEmpty
        if !diff.isEmpty then some ("definition: the permutation differs from its suite entry in " ++ toString diff ++ at_)
        else if !od.isEmpty then some ("definition: the gRPC-impl copy differs from its original in " ++ toString od ++ at_)
        else if !bool (field p "recorded") then some ("unrecorded: assert recorded no outcome" ++ at_)
        else if !wf then none
        else if passed && !agrees then some ("missed: the results do not agree but the permutation passed" ++ at_)
        else if !passed && agrees then some ("spurious: the result agrees with the suite's definition up to the documented leniencies but " ++ toString errs ++ " was reported" ++ at_)
        else if !(expect.isEmpty || errs.contains expect) then some ("unnamed: the deviation must be named as " ++ expect ++ " but the report is " ++ toString errs ++ at_)
        else none
      -- a copy is judged as its original: all permutations of one case show one verdict
      let verdicts := (mine.map fun p => strList (field p "errs")).eraseDups
      let whys := if verdicts.length > 1 then whys ++ ["copies: permutations of case " ++ nm ++ " (" ++ mutn ++ ") are judged differently: " ++ toString verdicts] else whys
      (agree, whys, m, (mine.filter fun p => str (field p "kind") != "").length, agrees, mutn)
    let orphan := perms.filter fun p => !(casesJ.any fun j => str (field j "name") == str (field p "case"))
    let whys := judged.flatMap (·.2.1)
    let why := if !ierr.isEmpty then ierr
      else if !orphan.isEmpty then "definition: a permutation belongs to no suite entry"
      else whys.headD ""
    let nCopies := (judged.map (·.2.2.2.1)).foldl (· + ·) 0
    let altUsed := judged.any fun (_, _, _, k, ag, mutn) => k > 0 && ag && mutn.startsWith "other-allowed-code"
    { agree := ierr.isEmpty && orphan.isEmpty && judged.all (·.1), holds := why.isEmpty, nontrivial := nCopies > 0,
      model := toJson (judged.map (·.2.2.1)), why := why,
      cls := if altUsed then "lib:copy-alternative-code" else if nCopies > 0 then "lib:copies" else "lib:no-copies" }
  | "canon" =>
    let vals := (strList (field inp "vals")).map String.toList
    let ic := (strList (field impl "canon")).map String.toList
    let ij := (strList (field impl "joinedComma")).map String.toList
    let is := (strList (field impl "joinedSpace")).map String.toList
    let comma : Val := [',']
    let commaSp : Val := [',', ' ']
    let mc := canon vals
    let mj := canon [comma.intercalate vals]
    let ms := canon [commaSp.intercalate vals]
    let agree := ic == mc && ij == mj && is == ms
    -- the leniency: clean values, joined with "," or ", ", canonicalise to the values themselves
    let clean := !vals.isEmpty && vals.all cleanVal
    let holds := !clean || (ic == vals && ij == vals && is == vals)
    { agree := agree, holds := holds, nontrivial := vals.any (fun v => v.contains ',' || v.contains ' '),
      model := Json.mkObj [("canon", toJson (mc.map String.ofList)), ("joinedComma", toJson (mj.map String.ofList)),
        ("joinedSpace", toJson (ms.map String.ofList))],
      why := if holds then "" else "join: clean values joined on commas do not canonicalise to themselves",
      cls := if clean then "clean" else "other" }
  | _ => bad ("C03: unknown op " ++ op)

end ConfModel.Driver.C03
