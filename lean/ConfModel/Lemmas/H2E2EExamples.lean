/-
End-to-end (C15): concrete traffic for the non-vacuity examples of `Props/C15.lean`
(header lookups on string literals do not reduce in the kernel, so they are proved here once).
-/
import ConfModel.Lemmas.H2E2EConn
namespace ConfModel.H2.Ex

theorem lower_name : "x-test-case-name".toLower = "x-test-case-name" := by
  apply String.ext_iff.mpr
  simp [String.toLower, String.toList_map]

/-- request HEADERS of a stream that carries test name `a` -/
def fieldsA : Fields := [(":method", "POST"), (":path", "/s/m"), ("x-test-case-name", "a")]

theorem name_a : getHeader fieldsA testNameHeader = "a" := by
  simp [getHeader, fieldsA, regular, isPseudo, testNameHeader, lower_name]

/-- stream 1 of test `a` is refused (RST_STREAM REFUSED_STREAM), the retry runs on stream 3 -/
def wsRetry : List WEv :=
  [.frame true (.headers 1 fieldsA true), .frame false (.rst 1 7),
   .frame true (.headers 3 fieldsA true), .frame false (.headers 3 [(":status", "200")] true)]

/-- decoders that ignore the bytes: every request unit is the HEADERS of stream 1 (test `a`,
END_STREAM), every response unit its response HEADERS with END_STREAM -/
def decQ : Bytes → Nat → Option (Frame × Nat) := fun _ n => some (.headers 1 fieldsA true, n + 1)
def decP : Bytes → Nat → Option (Frame × Nat) := fun _ n => some (.headers 1 [(":status", "200")] true, n + 1)

/-- client side: preface and a 9-byte frame written in two calls, a 9-byte frame read in two
calls in between, then `Close` -/
def callsX : List Call :=
  [.write (clientPreface ++ [0, 0, 0, 1]) 28 .ok, .read [0, 0, 0] .ok, .write [5, 0, 0, 0, 1] 5 .ok, .read [1, 5, 0, 0, 0, 1] .ok,
   .close .ok]

def wsX : List WEv :=
  [.frame true (.headers 1 fieldsA true), .frame false (.headers 1 [(":status", "200")] true), .lost (.closed "")]

/-- client side: the request written in one call with a short count and no error, the response
HEADERS (END_STREAM) read in two calls, the second one returning the last bytes together with
`io.EOF` -/
def callsEOF : List Call :=
  [.write (clientPreface ++ [0, 0, 0, 1, 5, 0, 0, 0, 1]) 7 .ok, .read [0, 0, 0] (.timeout "T"), .read [1, 5, 0, 0, 0, 1] .eof]

def wsEOF : List WEv :=
  [.frame true (.headers 1 fieldsA true), .frame false (.headers 1 [(":status", "200")] true), .lost (.io "EOF")]

end ConfModel.H2.Ex
