package main

import (
	"encoding/json"
	"fmt"
	"regexp"
	"strings"

	cc "connectrpc.com/conformance/internal/app/connectconformance"
	"connectrpc.com/conformance/internal/verifharness/gen"
)

// Op "feedback": feedback of the reference server as it really arrives — as stderr lines
// "<case>: <message>" read by the batch runner — must turn an otherwise matching result into a
// failure, whatever the message looks like (real messages contain ": " themselves, e.g.
// `invalid value for "x" header: "y": ...`, `'te: trailers' header`).
func init() {
	gen.RegisterOp("c04", "feedback", func(_ *gen.Ctx, raw json.RawMessage) any {
		in := gen.Into[c04FbIn](raw)
		names := make([]string, in.N)
		cases := make([]cc.VerifC11Case, in.N)
		for i := range names {
			names[i] = fmt.Sprintf("Suite/case%d", i)
			cases[i] = cc.VerifC11Case{K: "pass", Async: in.Async}
		}
		var stderr strings.Builder
		for _, l := range in.Noise {
			stderr.WriteString(l + "\n")
		}
		stderr.WriteString(names[in.Target] + ": " + in.Msg + "\n")
		spec := cc.VerifC11Spec{Names: names, Cases: cases, Start: "ok", Write: "ok", Close: "ok", Resp: "ok", Dies: -1,
			RespLen: cc.VerifC11RespLen(), IsRef: true, Stderr: stderr.String(), Chunk: in.Chunk}
		ok, lines, hang := cc.VerifC04BatchReport(spec)
		var failed []string
		re := regexp.MustCompile(`^FAILED: (.*?):`)
		for _, l := range lines {
			if m := re.FindStringSubmatch(l); m != nil {
				failed = append(failed, m[1])
			}
		}
		if failed == nil {
			failed = []string{}
		}
		return map[string]any{"ok": ok, "failed": failed, "hang": hang}
	})
}

type c04FbIn struct {
	N      int      `json:"n"`
	Target int      `json:"target"`
	Msg    string   `json:"msg"`
	Noise  []string `json:"noise"`
	Chunk  int      `json:"chunk"`
	Async  bool     `json:"async"`
}

func c04Feedback(c *gen.Ctx) {
	r := c.R
	msgs := []string{
		"expected compression gzip; instead got identity",
		`invalid value for "x-expect-codec" header: "9": unknown`,
		"gRPC protocol client should use 'te: trailers' header",
		"a: b: c",
		"trailing colon: ",
		": leading",
		"plain",
		"tab\there: and there",
	}
	n := 40
	if c.Thorough() {
		n = 600
	}
	for i := 0; i < n; i++ {
		in := c04FbIn{N: r.Range(1, 4), Msg: gen.Pick(r, msgs), Chunk: r.Intn(9), Async: r.Bool(), Noise: []string{}}
		if i < len(msgs) {
			in.Msg = msgs[i]
		}
		in.Target = r.Intn(in.N)
		for k := r.Intn(3); k > 0; k-- {
			in.Noise = append(in.Noise, gen.Pick(r, []string{"some log line", "note: unrelated: text", "", "Other/case: not in this batch"}))
		}
		c.Do("feedback", in)
	}
}
