/-
The length-prefixed reader of `internal/delimited.go` over a **pipe with write boundaries**.

`makeProcess` (process.go) puts an `io.Pipe` between the runner and every peer — an OS process
(exec's copier writes the peer's output into it) or an in-process function.  An `io.Pipe` is
synchronous: a `Read` meets a `Write`; a `Read` that finds no `Write` in progress waits for the
peer's next one.  That also holds for a `Read` into an EMPTY buffer (`emptyBlocks = true`): it
returns `(0, nil)` only once it has met a write.  An `os.Pipe` (poll.FD.Read), a `bytes.Reader`, a
`bufio.Reader` answer an empty `Read` at once (`emptyBlocks = false`).

The pipe is seen from the reader: `cur` is what is left of the write the reader is in the middle of
(the writer is still inside that `Write`), `next` the writes still to come (a peer may well write
nothing: an empty chunk), `met` the number of writes the reader has met so far — the measure of
*when* something is returned: a message returned at `met = k` needed the peer's first k writes and
no later one.

`guard = true` is the code as repaired in 715ef44 (`read(0)` returns without a `Read`),
`guard = false` the code before (finding F29).  Core Lean only.
-/
import ConfModel.Model.Delimited
namespace ConfModel.SyncPipe
open ConfModel.Delimited

/-- what happens after the last write: the peer closes its end, or it just stays silent -/
inductive End
  | closed
  | stall
deriving DecidableEq, Repr

structure Pipe where
  cur : Bytes
  next : List Bytes
  met : Nat
  ending : End
  emptyBlocks : Bool
deriving DecidableEq, Repr

def Pipe.fresh (writes : List Bytes) (e : End) (emptyBlocks : Bool) : Pipe := ⟨[], writes, 0, e, emptyBlocks⟩

/-- the bytes still to come -/
def Pipe.data (p : Pipe) : Bytes := p.cur ++ p.next.flatten

inductive Step
  | data (bs : Bytes)
  | eof
  | stall
deriving DecidableEq, Repr

/-- one `Read(buf)`, `len(buf) = k` -/
def Pipe.read (p : Pipe) (k : Nat) : Step × Pipe :=
  if k = 0 ∧ p.emptyBlocks = false then (.data [], p)
  else match p.cur with
    | _ :: _ => (.data (p.cur.take k), { p with cur := p.cur.drop k })
    | [] =>
      match p.next with
      | w :: ws => (.data (w.take k), { p with cur := w.drop k, next := ws, met := p.met + 1 })
      | [] =>
        match p.ending with
        | .closed => (.eof, p)
        | .stall => (.stall, p)

inductive RN
  | ok (b : Bytes) (rest : Pipe)
  | err (e : RErr) (offs : Nat) (rest : Pipe)
  | stall (offs : Nat) (rest : Pipe)
deriving DecidableEq, Repr

/-- the loop of `timeoutDelimitedReader.read(n)` (same as `Delimited.readLoop`) -/
def loop (n : Nat) : Nat → Bytes → Pipe → RN
  | 0, acc, p => .stall acc.length p
  | fuel+1, acc, p =>
    match p.read (n - acc.length) with
    | (.data bs, p') =>
      if acc.length + bs.length = n then .ok (acc ++ bs) p'
      else loop n fuel (acc ++ bs) p'
    | (.eof, p') => .err (if acc.length > 0 then .unexpectedEOF else .eof) acc.length p'
    | (.stall, p') => .stall acc.length p'

/-- `read(n)`; enough fuel: every round but the first empties a write -/
def readN (guard : Bool) (n : Nat) (p : Pipe) : RN :=
  if guard = true ∧ n = 0 then .ok [] p else loop n (p.next.length + 2) [] p

structure MsgOut where
  res : Res
  rest : Pipe
deriving DecidableEq, Repr

/-- `readDelimitedMessageRaw` (as `Delimited.readMessage`).  `timeout true 0 0` is the progress
triple with which the time-out branch concludes "the read is actually complete" and waits for the
reading goroutine without limit (`timeoutReport true 0 0 = .complete`): the call never returns. -/
def readMessage (guard : Bool) (max : Nat) (p : Pipe) : MsgOut :=
  match readN guard 4 p with
  | .err e _ p' => ⟨Res.ofErr e, p'⟩
  | .stall offs p' => ⟨.timeout false offs 4, p'⟩
  | .ok pre p' =>
    let sz := msgSize pre
    if sz > Int.ofNat max then ⟨.tooLarge sz.toNat, p'⟩ else
    match readN guard sz.toNat p' with
    | .ok b p'' => ⟨.msg b, p''⟩
    | .err e _ p'' => ⟨(match e with | .eof => .unexpectedEOF | e => Res.ofErr e), p''⟩
    | .stall offs p'' => ⟨.timeout true offs sz.toNat, p''⟩

structure AllOut where
  results : List Res
  /-- for every result: the number of the peer's writes the reader had met when it was returned -/
  mets : List Nat
  rest : Pipe
deriving DecidableEq, Repr

def readAll (guard : Bool) (max : Nat) : Nat → Pipe → AllOut
  | 0, p => ⟨[], [], p⟩
  | k+1, p =>
    let o := readMessage guard max p
    if o.res.isMsg then
      let t := readAll guard max k o.rest
      ⟨o.res :: t.results, o.rest.met :: t.mets, t.rest⟩
    else ⟨[o.res], [o.rest.met], o.rest⟩

/-! ### declarative side -/

/-- how many of the writes it takes to have the first `k` bytes of the stream -/
def needed : List Bytes → Nat → Nat
  | _, 0 => 0
  | [], _+1 => 0
  | w :: ws, k+1 => if k + 1 ≤ w.length then 1 else 1 + needed ws (k + 1 - w.length)

/-- the offsets at which the frames of `msgs` end in the stream, the first one starting at `off` -/
def frameEnds : Nat → List Bytes → List Nat
  | _, [] => []
  | off, m :: ms => (off + 4 + m.length) :: frameEnds (off + 4 + m.length) ms

end ConfModel.SyncPipe
