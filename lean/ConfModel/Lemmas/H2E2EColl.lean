/-
End-to-end (C15): the retry collector observed at one test name over a batch of operations;
passes over the whole stream table (`setMaxStreamIDLocked`, `cancelAll`) seen from one name.
-/
import ConfModel.Lemmas.H2E2ESee
import ConfModel.Lemmas.H2Retry
set_option linter.unusedSimpArgs false
set_option linter.unusedVariables false
namespace ConfModel.H2

/-- what is held back for `n` after the operations -/
def heldAfter (n : String) (w : Option Trace) (ops : List COp) : Option Trace :=
  ops.foldl (fun w op => (stepFor n w op).1) w

theorem heldAfter_filter (n : String) : ∀ (ops : List COp) (w : Option Trace),
    heldAfter n w ops = heldAfter n w (ops.filter (concerns n))
  | [], _ => rfl
  | op :: ops, w => by
    by_cases hc : concerns n op = true
    · simp only [List.filter, hc, heldAfter, List.foldl]
      exact heldAfter_filter n ops _
    · have hc' : concerns n op = false := by simpa using hc
      simp only [List.filter, hc', heldAfter, List.foldl, stepFor_unconcerned n w op hc']
      exact heldAfter_filter n ops w

/-- the collector at name `n` after a batch of operations: only those that concern `n` matter -/
theorem coll_name (c : Coll) (hw : WOK c.waiting) (n : String) (ops : List COp) :
    findName n (c.run ops).waiting = heldAfter n (findName n c.waiting) (ops.filter (concerns n)) ∧
    (c.run ops).outFor n = c.outFor n ++ deliveriesFor n (findName n c.waiting) (ops.filter (concerns n)) := by
  refine ⟨?_, ?_⟩
  · rw [held_run ops c hw n, ← heldAfter_filter]; rfl
  · rw [run_for ops c hw n, ← deliveriesFor_filter]

theorem dropName_absent (n : String) : ∀ (w : List (String × Trace)), findName n w = none → dropName n w = w
  | [], _ => rfl
  | p :: w, h => by
    by_cases hp : p.1 = n
    · simp [findName, hp] at h
    · have hb : (p.1 != n) = true := by simp [hp]
      have h' : findName n w = none := by simpa [findName, hp] using h
      simp only [dropName, List.filter, hb]
      have := dropName_absent n w h'
      simp only [dropName] at this
      rw [this]

/-- `retryWait` elapsing for every pending name delivers what `cancel` delivers, in the same order -/
theorem timers_eq_cancel : ∀ (w : List (String × Trace)) (out : List Trace), WOK w →
    ({ waiting := w, out := out } : Coll).run (w.map (fun p => COp.timesUp p.1)) = ({ waiting := w, out := out } : Coll).cancel
  | [], out, _ => by simp [Coll.run, Coll.cancel]
  | p :: w, out, ⟨h1, h2, h3⟩ => by
    have hstep : ({ waiting := p :: w, out := out } : Coll).step (.timesUp p.1) = { waiting := w, out := out ++ [p.2] } := by
      simp only [Coll.step, Coll.timesUp, findName, beq_self_eq_true, if_true]
      have : dropName p.1 (p :: w) = w := by
        simp only [dropName, List.filter, bne_self_eq_false]
        have := dropName_absent p.1 w h2
        simpa [dropName] using this
      rw [this]
    simp only [List.map_cons, Coll.run, List.foldl_cons]
    rw [hstep]
    have ih := timers_eq_cancel w (out ++ [p.2]) h3
    simp only [Coll.run] at ih
    rw [ih]
    simp [Coll.cancel, List.append_assoc]

theorem wstep_timers (s : L2 × Coll) (hw : WOK s.2.waiting) : wstep s .timers = (s.1, s.2.cancel) := by
  obtain ⟨l2, c⟩ := s
  obtain ⟨w, out⟩ := c
  simp only [wstep]
  rw [timers_eq_cancel w out hw]

/-! ### operation lists -/

theorem map_snd_tag (id : Nat) (ops : List COp) : (tag id ops).map (·.2) = ops := by
  simp [tag, List.map_map, Function.comp_def]

theorem map_snd_flatMap_tag (F : Nat × Stream → List COp) : ∀ (t : Tbl),
    (t.flatMap (fun p => tag p.1 (F p))).map (·.2) = t.flatMap F
  | [] => rfl
  | p :: t => by
    simp only [List.flatMap_cons, List.map_append, map_snd_tag]
    rw [map_snd_flatMap_tag F t]

theorem filter_completes (n : String) (ts : List Trace) :
    (completes ts).filter (concerns n) = completes (ts.filter (fun t => t.name == n)) := by
  induction ts with
  | nil => rfl
  | cons t ts ih =>
    simp only [completes, List.map_cons, List.filter_cons, concerns] at ih ⊢
    split <;> simp_all

/-- a pass over the table, seen from name `n`: only the stream with that name contributes -/
theorem flatMap_only (G : Nat × Stream → List COp) : ∀ (t : Tbl), TOK t → ∀ (i : Nat) (st : Stream), tGet i t = some st →
    (∀ p ∈ t, p.1 ≠ i → G p = []) → t.flatMap G = G (i, st)
  | [], _, _, _, h, _ => by simp [tGet] at h
  | p :: t, hk, i, st, h, hz => by
    simp only [TOK, List.map_cons, List.nodup_cons] at hk
    simp only [List.flatMap_cons]
    by_cases hp : p.1 = i
    · have hst : p.2 = st := by simpa [tGet, hp] using h
      have hrest : t.flatMap G = [] := by
        apply List.flatMap_eq_nil_iff.mpr
        intro q hq
        apply hz q (List.mem_cons_of_mem _ hq)
        intro hqi
        apply hk.1
        rw [hp, ← hqi]
        exact List.mem_map_of_mem hq
      rw [hrest, List.append_nil]
      have : p = (i, st) := by rw [← hp, ← hst]
      rw [this]
    · have h' : tGet i t = some st := by simpa [tGet, hp] using h
      rw [hz p (by simp) hp, List.nil_append]
      exact flatMap_only G t hk.2 i st h' (fun q hq => hz q (List.mem_cons_of_mem _ hq))

theorem flatMap_none (G : Nat × Stream → List COp) (t : Tbl) (hz : ∀ p ∈ t, G p = []) : t.flatMap G = [] :=
  List.flatMap_eq_nil_iff.mpr hz

theorem mem_of_tGet : ∀ (t : Tbl) (i : Nat) (st : Stream), tGet i t = some st → (i, st) ∈ t
  | [], _, _, h => by simp [tGet] at h
  | p :: t, i, st, h => by
    by_cases hp : p.1 = i
    · have hst : p.2 = st := by simpa [tGet, hp] using h
      have : p = (i, st) := by rw [← hp, ← hst]
      rw [this]; simp
    · have h' : tGet i t = some st := by simpa [tGet, hp] using h
      exact List.mem_cons_of_mem _ (mem_of_tGet t i st h')

theorem tGet_of_mem : ∀ (t : Tbl), TOK t → ∀ p ∈ t, tGet p.1 t = some p.2
  | [], _, _, h => by simp at h
  | q :: t, hk, p, hp => by
    simp only [TOK, List.map_cons, List.nodup_cons] at hk
    rcases List.mem_cons.mp hp with h | h
    · subst h; simp [tGet]
    · have hne : q.1 ≠ p.1 := by
        intro he; apply hk.1; rw [he]; exact List.mem_map_of_mem h
      simp only [tGet, hne, if_false]
      exact tGet_of_mem t hk.2 p h

end ConfModel.H2
