/-
Declarative reading of a body as a sequence of enveloped messages, and the events property
C14 asks for.  Independent of any chunking: it looks at the whole byte string at once.
-/
import ConfModel.Model.DataTracer
namespace ConfModel.Envelopes
open ConfModel.DataTracer

/-- one complete enveloped message -/
structure Item where
  env : Env
  payload : Bytes
deriving DecidableEq, Repr

/-- what is left after the last complete message -/
inductive Tail
  | clean
  | partialPrefix (seen : Nat)              -- 1..4 bytes of a prefix
  | partialPayload (env : Env) (seen : Nat) -- complete prefix, `seen < env.len` payload bytes
deriving DecidableEq, Repr

/-- envelope of five prefix bytes -/
def envOf (p : Bytes) : Env := ⟨p.headD 0, be32 (p.drop 1)⟩

/-- parse `b` into complete messages and a tail (fuel: `b.length + 1` suffices) -/
def parseF : Nat → Bytes → List Item × Tail
  | 0, _ => ([], .clean)
  | fuel+1, b =>
    if b.isEmpty then ([], .clean)
    else if b.length < 5 then ([], .partialPrefix b.length)
    else
      let e := envOf (b.take 5)
      let rest := b.drop 5
      if rest.length < e.len then ([], .partialPayload e rest.length)
      else
        let r := parseF fuel (rest.drop e.len)
        (⟨e, rest.take e.len⟩ :: r.1, r.2)

def parse (b : Bytes) : List Item × Tail := parseF (b.length + 1) b

/-! ### the envelope encoding (what a sender writes): `parse` inverts it (`Props.C14.parse_encode`) -/

/-- big-endian bytes of a `uint32` -/
def be32enc (n : Nat) : Bytes :=
  [UInt8.ofNat (n / 16777216 % 256), UInt8.ofNat (n / 65536 % 256), UInt8.ofNat (n / 256 % 256), UInt8.ofNat (n % 256)]

/-- the five prefix bytes of an envelope -/
def prefixOf (e : Env) : Bytes := e.flags :: be32enc e.len

def encodeItem (it : Item) : Bytes := prefixOf it.env ++ it.payload

/-- a sequence of enveloped messages on the wire -/
def encode (items : List Item) : Bytes := items.flatMap encodeItem

/-- the declared length is the payload's length and fits the four length bytes -/
def Item.wf (it : Item) : Prop := it.payload.length = it.env.len ∧ it.env.len < 2 ^ 32

/-- events of one complete message: a data event with the exact flags and declared length;
on the response side an end-stream message (flags ∩ 0x82 ≠ 0) with a non-empty payload is
followed by its content — decompressed iff the compressed flag (bit 0) is set, raw otherwise;
nothing is reported for empty (or undecodable) content. -/
def itemEvents (c : Cfg) (it : Item) : List Ev :=
  Ev.data (some it.env) it.env.len ::
    (if !c.isRequest && isEndFlag it.env.flags && it.env.len != 0 then
      match (if isCompressed it.env.flags then c.dec it.payload else some it.payload) with
      | some x => if x.isEmpty then [] else [Ev.endStream x]
      | none => []
     else [])

/-- the final partial event: byte count actually seen (none when nothing of it was seen) -/
def tailEvents : Tail → List Ev
  | .clean => []
  | .partialPrefix k => [Ev.data none k]
  | .partialPayload e k => if k > 0 then [Ev.data (some e) k] else []

def eventsOf (c : Cfg) (p : List Item × Tail) : List Ev :=
  p.1.flatMap (itemEvents c) ++ tailEvents p.2

/-- non-envelope protocols: a single byte count -/
def countEvents (n : Nat) : List Ev := if n > 0 then [Ev.data none n] else []

/-- the specified events of a body whose bytes are `b` -/
def specEvents (c : Cfg) (b : Bytes) : List Ev :=
  if c.isStream then eventsOf c (parse b) else countEvents b.length

/-- numbering 0,1,2,… of the data events, then one body-end -/
def numberEvs : Nat → List Ev → List NEv
  | _, [] => []
  | k, Ev.data e n :: t => NEv.data e n k :: numberEvs (k+1) t
  | k, Ev.endStream x :: t => NEv.endStream x :: numberEvs k t

def specTrace (c : Cfg) (b : Bytes) (err : EndErr) : List NEv :=
  numberEvs 0 (specEvents c b) ++ [NEv.bodyEnd err]

/-- A second admissible reading of "a body cut part-way through a payload": when the prefix is
complete but no payload byte was seen, a partial event with count 0 may be reported as well.
(The code under test reports nothing there; `holds` accepts both.) -/
def tailEventsAlt : Tail → List Ev
  | .partialPayload e 0 => [Ev.data (some e) 0]
  | t => tailEvents t

def specTraceAlt (c : Cfg) (b : Bytes) (err : EndErr) : List NEv :=
  numberEvs 0 (if c.isStream then (parse b).1.flatMap (itemEvents c) ++ tailEventsAlt (parse b).2
               else countEvents b.length) ++ [NEv.bodyEnd err]

/-- the property's predicate on an observed trace of one side -/
def traceOk (c : Cfg) (b : Bytes) (err : EndErr) (observed : List NEv) : Bool :=
  observed == specTrace c b err || observed == specTraceAlt c b err

/-- indices of the data events of a trace, in order -/
def indices : List NEv → List Nat
  | [] => []
  | NEv.data _ _ i :: t => i :: indices t
  | _ :: t => indices t

def isBodyEnd : NEv → Bool
  | NEv.bodyEnd _ => true
  | _ => false

end ConfModel.Envelopes
