/-
C13 — Reference client wire checks accept well-formed responses, flag malformed ones.
Property theorems only.
-/
import ConfModel.Lemmas.WireChecks
import ConfModel.Lemmas.ConnectJson
import ConfModel.Lemmas.BinMeta
import ConfModel.Model.Capture
import ConfModel.Model.Session
import ConfModel.Generated.C13Facts
import ConfModel.Spec.ContentCoding
namespace ConfModel.Props.C13
open ConfModel.WireChecks ConfModel.WireChecksSpec
open ConfModel.ServerTimeout (Bytes parseInt)

/-! ## The byte tables of the code, regenerated on every run, are the model's -/

set_option maxRecDepth 100000 in
theorem shouldEscape_table :
    Generated.C13.shouldEscapeTable = (List.range 256).map (fun n => shouldEscape (UInt8.ofNat n)) := by decide

set_option maxRecDepth 100000 in
theorem fieldName_table :
    Generated.C13.fieldNameTable = (List.range 256).map (fun n => isTchar (UInt8.ofNat n)) := by decide

set_option maxRecDepth 100000 in
theorem fieldValue_table :
    Generated.C13.fieldValueTable = (List.range 256).map (fun n => isValueByte (UInt8.ofNat n)) := by decide

set_option maxRecDepth 100000 in
theorem hexDigit_table :
    Generated.C13.hexDigitTable = (List.range 256).map (fun n => isHex (UInt8.ofNat n)) := by decide

set_option maxRecDepth 100000 in
theorem plainByte_table :
    Generated.C13.plainByteTable =
      (List.range 256).map (fun n => !shouldEscape (UInt8.ofNat n)) := by decide

set_option maxRecDepth 100000 in
theorem canonToken_table :
    Generated.C13.canonTokenTable = (List.range 256).map (fun n => isTchar (UInt8.ofNat n)) := by decide

/-- the empty string is not a valid field name (F15), it is a valid field value -/
theorem empty_name_value :
    Generated.C13.emptyNameValid = validFieldName [] ∧ Generated.C13.emptyValueValid = validFieldValue [] := by
  decide

/-! ## grpc-message percent-encoding (every byte string) -/

/-- Decoding the repository's encoding gives the message back. -/
theorem percent_roundtrip (m : Bytes) : percentDecode (percentEncode m) = some m := by
  rw [percentEncode_eq]; exact percent_roundtrip_flat m

/-- The encoding consists of printable ASCII only. -/
theorem percent_printable (m : Bytes) : ∀ b ∈ percentEncode m, 0x20 ≤ b.toNat ∧ b.toNat ≤ 0x7E := by
  intro b hb
  rw [percentEncode_eq, List.mem_flatMap] at hb
  obtain ⟨c, _, hbc⟩ := hb
  exact printable_encodeByte c b hbc

/-- The validator of `checkGRPCStatus` reports nothing on the repository's own encoding. -/
theorem percent_validator_accepts (m : Bytes) : validateMessage (percentEncode m) 0 = [] := by
  rw [percentEncode_eq]; exact validate_flat m

/-! ## the reference server's own gRPC-Web end-stream message is clean -/

/-- For every error code 1..16, every message without a leading or trailing space (F16: the
block format cannot carry one), any details (base64 and the Status proto enter as the oracle
`dec` with its round-trip hypothesis `hd`) and any user trailers with valid names and values:
`examineGRPCEndStream` on `grpcWebStatusEndStream …` reports nothing and `checkGRPCStatus` on
the trailers it parsed reports nothing. -/
theorem own_trailers_clean (dec : Bytes → DetailsDec) (code : Nat) (msg : Bytes)
    (detailsBin : Option Bytes) (hasDetails : Bool) (trailers : Hdrs)
    (hc : 1 ≤ code ∧ code ≤ 16) (hm : noEdgeSpace msg = true) (ht : trailersOK trailers = true)
    (hd : ∀ d, detailsBin = some d →
      cleanValue d = true ∧ dec d = .decoded false (some ((code : Int), msg, hasDetails))) :
    (examineGRPCEndStream (grpcWebStatusEndStream code msg detailsBin trailers)).1 = [] ∧
    checkGRPCStatus dec (examineGRPCEndStream (grpcWebStatusEndStream code msg detailsBin trailers)).2.1 = [] := by
  have hdf := decimal_facts ⟨code, by omega⟩
  simp only at hdf
  obtain ⟨hparse, hdval, hdtrim⟩ := hdf
  -- the status trio as rendered (name, value) pairs
  have hl1 : lowerASCII (bs "grpc-status") = bs "grpc-status" := by decide
  have hl2 : lowerASCII (bs "grpc-message") = bs "grpc-message" := by decide
  have hl3 : lowerASCII (bs "grpc-status-details-bin") = bs "grpc-status-details-bin" := by decide
  have hblock : grpcWebStatusEndStream code msg detailsBin trailers =
      renderPairs (((bs "grpc-status", 32 :: decimal code) :: (bs "grpc-message", 32 :: percentEncode msg) ::
        detPairs detailsBin)
        ++ pairsOf trailers) := by
    rw [grpcWebStatusEndStream, render_eq]
    congr 1
    cases detailsBin <;> simp [grpcStatusTrailers, pairsOf, hl1, hl2, hl3, detPairs]
  -- every pair is a clean line
  have sp : isValueByte 32 = true := by decide
  have c1 : CleanPair (bs "grpc-status", 32 :: decimal code) :=
    ⟨reserved_clean.1.1, reserved_clean.1.2, by
      intro b hb
      simp only [List.mem_cons] at hb
      rcases hb with rfl | hb
      · exact sp
      · exact (List.all_eq_true.1 hdval) b hb⟩
  have c2 : CleanPair (bs "grpc-message", 32 :: percentEncode msg) :=
    ⟨reserved_clean.2.1.1, reserved_clean.2.1.2, by
      intro b hb
      simp only [List.mem_cons] at hb
      rcases hb with rfl | hb
      · exact sp
      · exact printable_value msg b hb⟩
  have c3 : ∀ d, detailsBin = some d → CleanPair (bs "grpc-status-details-bin", 32 :: d) := by
    intro d hdd
    have := (hd d hdd).1
    simp only [cleanValue, Bool.and_eq_true, validFieldValue, List.all_eq_true] at this
    refine ⟨reserved_clean.2.2.1, reserved_clean.2.2.2, ?_⟩
    intro b hb
    simp only [List.mem_cons] at hb
    rcases hb with rfl | hb
    · exact sp
    · exact this.1 b hb
  have hu := clean_user trailers ht
  have hclean : ∀ p ∈ ((bs "grpc-status", 32 :: decimal code) :: (bs "grpc-message", 32 :: percentEncode msg) ::
      detPairs detailsBin)
      ++ pairsOf trailers, CleanPair p := by
    intro p hp
    simp only [List.cons_append, List.mem_cons, List.mem_append] at hp
    rcases hp with rfl | rfl | hp | hp
    · exact c1
    · exact c2
    · cases hdb : detailsBin with
      | none => simp [hdb, detPairs] at hp
      | some d => simp [hdb, detPairs] at hp; subst hp; exact c3 d hdb
    · exact (hu p hp).1
  rw [hblock, examine_renderPairs _ hclean]
  refine ⟨rfl, ?_⟩
  -- user trailers never collide with the status trio
  have huser : ∀ K : Bytes, reservedNames.contains (lowerASCII K) = true →
      (pairsOf trailers).filter (fun p => canonKey p.1 = K) = [] := by
    intro K hK
    rw [List.filter_eq_nil_iff]
    intro p hp hck
    have hck' : canonKey p.1 = K := by simpa using hck
    have : lowerASCII p.1 = lowerASCII K := by rw [← hck', lower_canonKey]
    rw [(hu p hp).2.2] at this
    exact (hu p hp).2.1 (this ▸ hK)
  have k11 : canonKey (bs "grpc-status") = kStatus := by decide
  have k12 : ¬ canonKey (bs "grpc-message") = kStatus := by decide
  have k13 : ¬ canonKey (bs "grpc-status-details-bin") = kStatus := by decide
  have k21 : ¬ canonKey (bs "grpc-status") = kMessage := by decide
  have k22 : canonKey (bs "grpc-message") = kMessage := by decide
  have k23 : ¬ canonKey (bs "grpc-status-details-bin") = kMessage := by decide
  have k31 : ¬ canonKey (bs "grpc-status") = kDetails := by decide
  have k32 : ¬ canonKey (bs "grpc-message") = kDetails := by decide
  have k33 : canonKey (bs "grpc-status-details-bin") = kDetails := by decide
  have r1 : reservedNames.contains (lowerASCII kStatus) = true := by decide
  have r2 : reservedNames.contains (lowerASCII kMessage) = true := by decide
  have r3 : reservedNames.contains (lowerASCII kDetails) = true := by decide
  have hmsgtrim : trimWS (percentEncode msg) = percentEncode msg := by
    simp only [noEdgeSpace, Bool.and_eq_true, bne_iff_ne, ne_eq] at hm
    exact trimWS_id _ (encode_head msg hm.1) (encode_last msg hm.2)
  have hS : hget (foldTr [] (((bs "grpc-status", 32 :: decimal code) :: (bs "grpc-message", 32 :: percentEncode msg) ::
        detPairs detailsBin)
        ++ pairsOf trailers)) kStatus = [decimal code] := by
    rw [hget_foldTr, List.filter_append, huser kStatus r1]
    cases detailsBin <;> simp [hget, List.filter_cons, k11, k12, k13, hdtrim, detPairs, trimWS_cons_space]
  have hM : hget (foldTr [] (((bs "grpc-status", 32 :: decimal code) :: (bs "grpc-message", 32 :: percentEncode msg) ::
        detPairs detailsBin)
        ++ pairsOf trailers)) kMessage = [percentEncode msg] := by
    rw [hget_foldTr, List.filter_append, huser kMessage r2]
    cases detailsBin <;> simp [hget, List.filter_cons, k21, k22, k23, hmsgtrim, detPairs, trimWS_cons_space]
  have hD : hget (foldTr [] (((bs "grpc-status", 32 :: decimal code) :: (bs "grpc-message", 32 :: percentEncode msg) ::
        detPairs detailsBin)
        ++ pairsOf trailers)) kDetails = detVals detailsBin := by
    rw [hget_foldTr, List.filter_append, huser kDetails r3]
    cases hdb : detailsBin with
    | none => simp [hget, List.filter_cons, k31, k32, detPairs, detVals]
    | some d =>
      have := (hd d hdb).1
      simp only [cleanValue, Bool.and_eq_true, beq_iff_eq] at this
      simp [hget, List.filter_cons, k31, k32, k33, this.2, detPairs, detVals, trimWS_cons_space]
  have hv := percent_validator_accepts msg
  have hr := percent_roundtrip msg
  have hcode0 : ¬ ((code : Int) < 0 ∨ (code : Int) > 16) := by omega
  have hw : wrap32 (code : Int) = (code : Int) := by simp only [wrap32]; omega
  simp only [checkGRPCStatus, checkStatusCore, statusPart, messagePart, detailsPart, hS, hM, hD]
  cases hdb : detailsBin with
  | none =>
    have hne : ¬ ((code : Int) = 0) := by omega
    have hne' : ¬ (code = 0) := by omega
    simp [hparse, hv, hr, hcode0, hne, hne', detVals]
  | some d =>
    have hne : ¬ ((code : Int) = 0) := by omega
    have hne' : ¬ (code = 0) := by omega
    simp [hparse, hv, hr, hcode0, hne, hne', (hd d hdb).2, hw, detVals]

/-! ## gRPC-Web trailer block: silent on every well-formed block, vocal on each malformation -/

/-- Any block that follows the grammar `*( lower-case-token ":" OWS field-value OWS CRLF )`
— not only the reference server's own — yields no feedback (all byte strings). -/
theorem block_wellformed_clean (s : Bytes) (h : blockOK s = true) : (examineGRPCEndStream s).1 = [] :=
  block_clean s h

/-- Each malformation class the end-stream checks name is reported: a line ending that is not
CRLF / a missing final CRLF, blank lines, a line without colon, an invalid (or empty) field
name, an upper-case key, an invalid value byte, obsolete line folding. -/
theorem block_malformation_flagged (s : Bytes) :
    ∀ alts ∈ mustFlag s, ∃ f ∈ alts, f ∈ (examineGRPCEndStream s).1 :=
  block_flags s

/-- …in the form the correspondence check evaluates on the implementation's output. -/
theorem block_spec (s : Bytes) : blockHolds s (examineGRPCEndStream s).1 = true := by
  simp only [blockHolds, Bool.and_eq_true, Bool.or_eq_true, Bool.not_eq_true', List.all_eq_true,
    List.any_eq_true, List.contains_iff_mem, List.isEmpty_iff]
  refine ⟨?_, fun alts ha => ?_⟩
  · cases hok : blockOK s with
    | false => exact Or.inl rfl
    | true => exact Or.inr (block_wellformed_clean s hok)
  · obtain ⟨f, hf, hm⟩ := block_malformation_flagged s alts ha
    exact ⟨f, hf, by simpa using hm⟩

/-- the classes by name, for a line that is not the last one of the block -/
theorem lf_line_ending_flagged (s : Bytes) (l : Bytes) (hl : l ∈ (splitLF s).dropLast)
    (hcr : l.getLast? ≠ some 13) : EsFb.lfOnly ∈ (examineGRPCEndStream s).1 := by
  have hn : 0 + (splitLF s).length = (splitLF s).length := by simp
  have := loop_lf _ (splitLF s) {} 0 hn ⟨l, hl, by simpa [bne] using hcr⟩
  simp [examineGRPCEndStream, esFinish, this]

theorem missing_final_crlf_flagged (s : Bytes) (h : (splitLF s).getLast? ≠ some []) :
    EsFb.noFinalCRLF ∈ (examineGRPCEndStream s).1 := by
  have hn : 0 + (splitLF s).length = (splitLF s).length := by simp
  have hne : (esLoop (splitLF s).length {} 0 (splitLF s)).endsInCRLF = false := by
    cases he : (esLoop (splitLF s).length {} 0 (splitLF s)).endsInCRLF with
    | false => rfl
    | true => exact absurd (loop_ends _ (splitLF s) {} 0 hn rfl he) h
  simp [examineGRPCEndStream, esFinish, hne]

theorem line_malformations_flagged (s : Bytes) (l : Bytes) (hl : l ∈ terminatedLines s) :
    (l = [] → EsFb.blankLines ∈ (examineGRPCEndStream s).1 ∨ EsFb.extraBlankAtEnd ∈ (examineGRPCEndStream s).1) ∧
    (∀ k v, l ≠ [] → (l.head?.map isWS).getD false = false → splitColon l = (k, some v) →
      (validFieldName k = false → EsFb.invalidName ∈ (examineGRPCEndStream s).1) ∧
      (isASCII k = true → k.any isUpper = true → EsFb.nonLowerKey ∈ (examineGRPCEndStream s).1) ∧
      (validFieldValue (trimWS v) = false → EsFb.invalidValue ∈ (examineGRPCEndStream s).1)) ∧
    (∀ k, l ≠ [] → (l.head?.map isWS).getD false = false → splitColon l = (k, none) →
      EsFb.missingColon ∈ (examineGRPCEndStream s).1) := by
  have key : ∀ alts, alts ∈ mustFlagLine l → ∃ f ∈ alts, f ∈ (examineGRPCEndStream s).1 := fun alts ha =>
    block_malformation_flagged s alts (by
      simp only [mustFlag, List.mem_append, List.mem_flatMap]
      exact Or.inr ⟨l, hl, ha⟩)
  refine ⟨?_, ?_, ?_⟩
  · intro he
    obtain ⟨f, hf, hm⟩ := key [.blankLines, .extraBlankAtEnd] (by simp [mustFlagLine, he])
    simp at hf
    rcases hf with rfl | rfl
    · exact Or.inl hm
    · exact Or.inr hm
  · intro k v hne hws hs
    have he : l.isEmpty = false := by simpa using hne
    refine ⟨?_, ?_, ?_⟩
    · intro hv
      have hv' : (!k.isEmpty && k.all isTchar) = false := by simpa [validFieldName] using hv
      obtain ⟨f, hf, hm⟩ := key [.invalidName] (by simp [mustFlagLine, he, hws, hs, hv'])
      simp at hf; subst hf; exact hm
    · intro ha hu
      obtain ⟨f, hf, hm⟩ := key [.nonLowerKey] (by simp [mustFlagLine, he, hws, hs, ha, hu])
      simp at hf; subst hf; exact hm
    · intro hv
      obtain ⟨f, hf, hm⟩ := key [.invalidValue] (by simp [mustFlagLine, he, hws, hs, hv])
      simp at hf; subst hf; exact hm
  · intro k hne hws hs
    have he : l.isEmpty = false := by simpa using hne
    obtain ⟨f, hf, hm⟩ := key [.missingColon] (by simp [mustFlagLine, he, hws, hs])
    simp at hf; subst hf; exact hm

/-! ## gRPC status trailers: silent on well-formed, vocal on each malformation class -/

/-- The validator of `checkGRPCStatus` accepts exactly the grammar of `grpc-message`
(`*( %x20-24 / %x26-7E / "%" HEXDIG HEXDIG )`): bad percent-encoding is always reported. -/
theorem message_validator_iff_grammar (m : Bytes) : validateMessage m 0 = [] ↔ encodingOK m = true :=
  validate_iff_grammar m

/-- A well-formed status trailer set yields no feedback (any header map, any oracle). -/
theorem status_wellformed_clean (dec : Bytes → DetailsDec) (h : Hdrs) (hok : statusOK dec h = true) :
    checkGRPCStatus dec h = [] :=
  status_clean_core dec _ _ _ hok

/-- Each malformation class the status checks name — multiple / missing / unparseable /
out-of-range `grpc-status`, multiple `grpc-message`, bad percent-encoding, multiple, non-base64,
padded or unparseable `grpc-status-details-bin`, code or message disagreement — is reported. -/
theorem status_malformation_flagged (dec : Bytes → DetailsDec) (h : Hdrs) :
    ∀ alts ∈ mustFlagStatus dec h, ∃ f ∈ alts, f ∈ checkGRPCStatus dec h :=
  status_flags_core dec _ _ _

/-- …in the form the correspondence check evaluates on the implementation's output. -/
theorem status_spec (dec : Bytes → DetailsDec) (h : Hdrs) :
    statusHolds dec h (checkGRPCStatus dec h) = true := by
  simp only [statusHolds, Bool.and_eq_true, Bool.or_eq_true, Bool.not_eq_true', List.all_eq_true,
    List.any_eq_true, List.contains_iff_mem, List.isEmpty_iff]
  refine ⟨?_, fun alts ha => ?_⟩
  · cases hok : statusOK dec h with
    | false => exact Or.inl rfl
    | true => exact Or.inr (status_wellformed_clean dec h hok)
  · obtain ⟨f, hf, hm⟩ := status_malformation_flagged dec h alts ha
    exact ⟨f, hf, by simpa using hm⟩

/-- the classes by name -/
theorem missing_status_flagged (dec : Bytes → DetailsDec) (h : Hdrs) (hs : hget h kStatus = []) :
    StFb.noStatus ∈ checkGRPCStatus dec h := by
  obtain ⟨f, hf, hm⟩ := status_malformation_flagged dec h [.noStatus]
    (by simp [mustFlagStatus, mustFlagStatusCore, mustStatus, hs])
  simp at hf; subst hf; exact hm

theorem multiple_status_flagged (dec : Bytes → DetailsDec) (h : Hdrs) (hs : (hget h kStatus).length > 1) :
    StFb.multiStatus ∈ checkGRPCStatus dec h := by
  obtain ⟨f, hf, hm⟩ := status_malformation_flagged dec h [.multiStatus]
    (by simp [mustFlagStatus, mustFlagStatusCore, mustStatus, hs])
  simp at hf; subst hf; exact hm

theorem bad_percent_encoding_flagged (dec : Bytes → DetailsDec) (h : Hdrs) (m : Bytes) (rest : List Bytes)
    (hm : hget h kMessage = m :: rest) (he : encodingOK m = false) :
    ∃ f, StFb.msg f ∈ checkGRPCStatus dec h := by
  obtain ⟨f, hf, hmem⟩ := status_malformation_flagged dec h [.msg .hexExpected, .msg .unescaped, .msg .incomplete]
    (by simp [mustFlagStatus, mustFlagStatusCore, mustMessage, hm, he])
  simp at hf
  rcases hf with rfl | rfl | rfl <;> exact ⟨_, hmem⟩

theorem bad_base64_flagged (dec : Bytes → DetailsDec) (h : Hdrs) (d : Bytes) (rest : List Bytes)
    (hd : hget h kDetails = d :: rest) :
    (dec d = .invalid → StFb.detailsBadBase64 ∈ checkGRPCStatus dec h) ∧
    (∀ st, dec d = .decoded true st → StFb.detailsPadded ∈ checkGRPCStatus dec h) := by
  constructor
  · intro hi
    obtain ⟨f, hf, hm⟩ := status_malformation_flagged dec h [.detailsBadBase64]
      (by simp [mustFlagStatus, mustFlagStatusCore, mustDetails, hd, hi])
    simp at hf; subst hf; exact hm
  · intro st hp
    obtain ⟨f, hf, hm⟩ := status_malformation_flagged dec h [.detailsPadded]
      (by simp [mustFlagStatus, mustFlagStatusCore, mustDetails, hd, hp])
    simp at hf; subst hf; exact hm

theorem status_details_disagreement_flagged (dec : Bytes → DetailsDec) (h : Hdrs) (s d m : Bytes)
    (rest : List Bytes) (padded : Bool) (c sc : Int) (msg : Bytes) (hasDetails : Bool)
    (hs : hget h kStatus = [s]) (hp : parseInt 64 s = some sc)
    (hd : hget h kDetails = d :: rest) (hdec : dec d = .decoded padded (some (c, msg, hasDetails))) :
    (c ≠ wrap32 sc → StFb.detailsCodeMismatch ∈ checkGRPCStatus dec h) ∧
    (∀ ms dm, hget h kMessage = m :: ms → percentDecode m = some dm → msg ≠ dm →
      StFb.detailsMsgMismatch ∈ checkGRPCStatus dec h) := by
  constructor
  · intro hne
    obtain ⟨f, hf, hm⟩ := status_malformation_flagged dec h [.detailsCodeMismatch]
      (by simp [mustFlagStatus, mustFlagStatusCore, mustDetails, hd, hdec, hs, hp, hne])
    simp at hf; subst hf; exact hm
  · intro ms dm hmv hdm hne
    obtain ⟨f, hf, hm⟩ := status_malformation_flagged dec h [.detailsMsgMismatch]
      (by simp [mustFlagStatus, mustFlagStatusCore, mustDetails, hd, hdec, hmv, hdm, hne])
    simp at hf; subst hf; exact hm

/-- non-vacuity: a concrete error with details and user trailers satisfying every hypothesis -/
example :
    let dec : Bytes → DetailsDec := fun _ => .decoded false (some (13, bs "oops: 50%", true))
    (1 ≤ 13 ∧ 13 ≤ 16) ∧ noEdgeSpace (bs "oops: 50%") = true ∧
    trailersOK [(bs "X-Custom", [bs "a b", bs ""])] = true ∧ cleanValue (bs "CA0SBG9vcHM") = true ∧
    (examineGRPCEndStream (grpcWebStatusEndStream 13 (bs "oops: 50%") (some (bs "CA0SBG9vcHM"))
      [(bs "X-Custom", [bs "a b", bs ""])])).1 = [] ∧
    checkGRPCStatus dec (examineGRPCEndStream (grpcWebStatusEndStream 13 (bs "oops: 50%")
      (some (bs "CA0SBG9vcHM")) [(bs "X-Custom", [bs "a b", bs ""])])).2.1 = [] := by
  decide

/-- F16 (known finding): the hypothesis `noEdgeSpace` is needed.  For the message `" "` the
server's own block is examined without complaint, but the trimmed `grpc-message` is then
reported to disagree with `grpc-status-details-bin`. -/
theorem edge_space_witness :
    let dec : Bytes → DetailsDec := fun _ => .decoded false (some (1, [32], true))
    noEdgeSpace [32] = false ∧
    (examineGRPCEndStream (grpcWebStatusEndStream 1 [32] (some (bs "QUJD")) [])).1 = [] ∧
    checkGRPCStatus dec (examineGRPCEndStream (grpcWebStatusEndStream 1 [32] (some (bs "QUJD")) [])).2.1
      = [.detailsMsgMismatch] := by
  decide

/-- F15 (fixed): an empty field name is reported; before the repair it was accepted. -/
theorem empty_name_flagged :
    (examineGRPCEndStream (bs ": v\r\n")).1 = [.invalidName] ∧
    validFieldName [] = false ∧ validFieldNameOld [] = true := by
  decide

/-! ## HTTP trailers outside the gRPC protocol -/

/-- Any HTTP trailer on a response that is not of the gRPC protocol (Connect, gRPC-Web, or
anything else) is reported; none is reported for gRPC or without trailers. -/
theorem http_trailers_outside_grpc (ct : String) (n : Nat) :
    httpTrailersFeedback ct n = true ↔ (isGrpcContentType ct = false ∧ n > 0) := by
  simp [httpTrailersFeedback]

example : httpTrailersFeedback "application/grpc-web+proto" 1 = true ∧
    httpTrailersFeedback "application/json" 2 = true ∧ httpTrailersFeedback "application/grpc+proto" 2 = false ∧
    httpTrailersFeedback "application/grpc" 1 = false ∧ httpTrailersFeedback "application/connect+json" 0 = false := by
  decide

/-! ### non-vacuity of the hypotheses used above -/

example : blockOK (bs "grpc-status: 0\r\nx-custom:\tv \r\n") = true ∧ blockOK [] = true ∧
    blockOK (bs "grpc-status: 0\n") = false ∧ blockOK (bs "Grpc-Status: 0\r\n") = false := by decide

example : mustFlag (bs "Grpc-Status 0\n\r\n x\r\n: v") =
    [[.lfOnly, .noFinalCRLF], [.missingColon], [.blankLines, .extraBlankAtEnd],
     [.obsFold, .invalidName, .missingColon]] := by decide

example :
    let h : Hdrs := [(kStatus, [bs "13"]), (kMessage, [bs "a%20b"]), (kDetails, [bs "QQ"])]
    let dec : Bytes → DetailsDec := fun _ => .decoded false (some (13, bs "a b", true))
    statusOK dec h = true ∧ checkGRPCStatus dec h = [] := by decide

example :
    let h : Hdrs := [(kStatus, [bs "+5", bs "x"]), (kMessage, [bs "50%"]), (kDetails, [bs "!"])]
    mustFlagStatus (fun _ => .invalid) h =
      [[.multiStatus], [.msg .hexExpected, .msg .unescaped, .msg .incomplete], [.detailsBadBase64]] ∧
    checkGRPCStatus (fun _ => .invalid) h = [.multiStatus, .msg .incomplete, .detailsBadBase64] := by decide

/-! ## Connect JSON: `examineConnectError`, `examineConnectErrorDetail`, `examineConnectEndStream`

At the level of a parsed document in which duplicate keys are representable
(`Model/ConnectJson.lean`); `encoding/json` syntax errors are outside (opaque class), the
protojson comparison of a detail's `debug` member is an oracle `dbg`. -/

section ConnectJSON
open ConfModel.ConnectJson ConfModel.ConnectJsonSpec

/-! ### tables of the code, regenerated on every run -/

/-- `connect.Code(1..16).String()` are the model's code names; `Code(0)` and `Code(17)` are not among them -/
theorem connectCodeNames_table :
    Generated.C13.connectCodeNames.map bs = codeNames ∧
    ∀ s ∈ Generated.C13.connectCodeOutside, codeNames.contains (bs s) = false := by decide

set_option maxRecDepth 100000 in
/-- `protoreflect.FullName.IsValid` on every one-byte name and on `"a"` followed by every byte -/
theorem fullName_tables :
    Generated.C13.fullNameFirstTable = (List.range 256).map (fun n => validFullName [UInt8.ofNat n]) ∧
    Generated.C13.fullNameRestTable = (List.range 256).map (fun n => validFullName [97, UInt8.ofNat n]) := by
  decide

set_option maxRecDepth 100000 in
/-- `base64.RawStdEncoding.DecodeString` on every doubled byte and on `"QQ"` followed by every byte
(alphabet, CR / LF skipping, `=` rejected) -/
theorem rawStd_tables :
    Generated.C13.rawStdPairTable =
      (List.range 256).map (fun n => (rawStdDecode [UInt8.ofNat n, UInt8.ofNat n]).isSome) ∧
    Generated.C13.rawStdThirdTable =
      (List.range 256).map (fun n => (rawStdDecode [81, 81, UInt8.ofNat n]).isSome) := by
  decide

/-! ### well-formed documents yield no feedback -/

/-- The JSON value connect-go's error writer produces for any code 1..16, any message and any
details (valid type names; a `debug` rendering, where there is one, that has no duplicate keys
and agrees with the value) yields no feedback. -/
theorem own_connect_error_clean (dbg : DebugOracle) (code : Nat) (msg : Bytes) (details : List Detail)
    (hc : 1 ≤ code ∧ code ≤ 16) (hd : detailsFine dbg 0 details = true) :
    examineConnectError dbg (encodeError code msg details) = [] :=
  (error_silent_iff dbg _).mpr (encodeError_ok dbg code msg details hc.1 hc.2 hd)

/-- non-vacuity: an error with message and two details, one with a debug rendering -/
example :
    let dbg : DebugOracle := fun _ _ _ => none
    let details : List Detail := [⟨bs "google.protobuf.Empty", [], none⟩,
      ⟨bs "a.B", [10, 1, 97], some (.obj [(bs "value", .str (bs "a"))])⟩]
    (1 ≤ 13 ∧ 13 ≤ 16) ∧ detailsFine dbg 0 details = true ∧
    examineConnectError dbg (encodeError 13 (bs "oops") details) = [] ∧
    examineConnectError (fun _ _ _ => some .mismatch) (encodeError 13 (bs "oops") details)
      = [.dDebug .mismatch] := by decide

/-- The end-of-stream message connect-go writes - with or without an error as above, with any
metadata map of valid field names and values - yields no feedback. -/
theorem own_connect_end_stream_clean (dbg : DebugOracle) (err : Option (Nat × Bytes × List Detail))
    (md : List (Bytes × List Bytes))
    (herr : ∀ code msg details, err = some (code, msg, details) →
      1 ≤ code ∧ code ≤ 16 ∧ detailsFine dbg 0 details = true)
    (hmd : metadataFine md = true) :
    examineConnectEndStream dbg (encodeEndStream err md) = [] :=
  (end_silent_iff dbg _).mpr (encodeEndStream_ok dbg err md herr hmd)

example :
    let dbg : DebugOracle := fun _ _ _ => none
    let md : List (Bytes × List Bytes) := [(bs "X-Custom", [bs "a b", bs ""]), (bs "x-other", [])]
    metadataFine md = true ∧
    examineConnectEndStream dbg (encodeEndStream (some (5, [], [⟨bs "a.B", [1], none⟩])) md) = [] ∧
    examineConnectEndStream dbg (encodeEndStream none md) = [] ∧
    examineConnectEndStream dbg (encodeEndStream none [(bs "bad name", [[0]])]) = [.sMetaName, .sMetaValue] := by
  decide

/-- `examineConnectError` is silent on exactly the well-formed Connect errors: an object without
duplicate keys at any depth whose members are `code` (a code name), optionally `message` (a
string) and `details` (an array of objects with `type`, unpadded-base64 `value` and optionally an
agreeing `debug`) and nothing else. -/
theorem connect_error_silent_iff_wellformed (dbg : DebugOracle) (doc : Json) :
    examineConnectError dbg doc = [] ↔ errorOK dbg doc = true := error_silent_iff dbg doc

/-- `examineConnectEndStream` is silent on exactly the well-formed end-of-stream messages. -/
theorem connect_end_stream_silent_iff_wellformed (dbg : DebugOracle) (doc : Json) :
    examineConnectEndStream dbg doc = [] ↔ endStreamOK dbg doc = true := end_silent_iff dbg doc

/-! ### every malformation the checks name is reported -/

/-- Each demand of `mustFlagError` - bad or missing `code`, unknown key, duplicate key at any
depth, wrongly typed member, and for every detail: unknown key, missing / non-string / invalid
`type`, missing / non-string / not-unpadded-base64 `value` - is met by the feedback (the
alternatives are the three messages of the generic layer at which `examineJSON` stops). -/
theorem connect_error_malformation_flagged (dbg : DebugOracle) (doc : Json) :
    ∀ alts ∈ mustFlagError doc, ∃ f ∈ alts, f ∈ examineConnectError dbg doc := error_demands dbg doc

/-- Each demand of `mustFlagEndStream` - unknown key, duplicate key at any depth, `error` or
`metadata` that is not an object, invalid metadata name, metadata entry that is not an array,
non-string or invalid metadata value, and every malformation of the enclosed error - is met. -/
theorem connect_end_stream_malformation_flagged (dbg : DebugOracle) (doc : Json) :
    ∀ alts ∈ mustFlagEndStream doc, ∃ f ∈ alts, f ∈ examineConnectEndStream dbg doc := end_demands dbg doc

/-- …in the form the correspondence check evaluates on the implementation's output. -/
theorem connect_error_spec (dbg : DebugOracle) (doc : Json) :
    errorHolds dbg doc (examineConnectError dbg doc) = true := by
  unfold errorHolds demandsMet
  simp only [Bool.and_eq_true, beq_iff_eq, List.all_eq_true, List.any_eq_true, List.contains_iff_mem]
  refine ⟨?_, connect_error_malformation_flagged dbg doc⟩
  cases h : errorOK dbg doc with
  | true => simp [(error_silent_iff dbg doc).mpr h]
  | false =>
    have : examineConnectError dbg doc ≠ [] := fun he => by
      rw [(error_silent_iff dbg doc).mp he] at h; cases h
    cases hx : examineConnectError dbg doc with
    | nil => exact absurd hx this
    | cons a t => rfl

/-- The property's predicate holds of `examineConnectEndStream`'s output on every document. -/
theorem connect_end_stream_spec (dbg : DebugOracle) (doc : Json) :
    endStreamHolds dbg doc (examineConnectEndStream dbg doc) = true := by
  unfold endStreamHolds demandsMet
  simp only [Bool.and_eq_true, beq_iff_eq, List.all_eq_true, List.any_eq_true, List.contains_iff_mem]
  refine ⟨?_, connect_end_stream_malformation_flagged dbg doc⟩
  cases h : endStreamOK dbg doc with
  | true => simp [(end_silent_iff dbg doc).mpr h]
  | false =>
    have : examineConnectEndStream dbg doc ≠ [] := fun he => by
      rw [(end_silent_iff dbg doc).mp he] at h; cases h
    cases hx : examineConnectEndStream dbg doc with
    | nil => exact absurd hx this
    | cons a t => rfl

/-! ### the classes by name

For an object that passes the generic layer (`passesJSON`: it decodes into the struct and has no
duplicate key) the class itself is reported, not an alternative. -/

/-- duplicate key at any depth: a document that decodes into the struct but has two equal keys
in some object, however deeply nested, gets exactly that message from each examiner -/
theorem json_duplicate_key_flagged (dbg : DebugOracle) (fs : Fields) (hd : dupFree (.obj fs) = false) :
    (fs.all (fun kv => errorFieldOK kv.1 kv.2) = true → examineConnectError dbg (.obj fs) = [.dupKey]) ∧
    (fs.all (fun kv => endFieldOK kv.1 kv.2) = true → examineConnectEndStream dbg (.obj fs) = [.dupKey]) ∧
    (fs.all (fun kv => detailFieldOK kv.1 kv.2) = true → ∀ i, examineDetail dbg i (.obj fs) = [.dupKey]) := by
  refine ⟨fun ht => ?_, fun ht => ?_, fun ht i => ?_⟩
  · unfold examineConnectError; rw [dup_flagged ht hd]
  · unfold examineConnectEndStream; rw [dup_flagged ht hd]
  · unfold examineDetail; rw [dup_flagged ht hd]

/-- non-vacuity: a duplicate three levels down, inside a detail's `debug` member -/
example :
    let doc : Fields := [(bs "code", .str (bs "internal")), (bs "details", .arr [.obj [(bs "type", .str (bs "a.B")),
      (bs "value", .str (bs "QQ")), (bs "debug", .obj [(bs "x", .arr [.obj [(bs "k", .num), (bs "k", .null)]])])]])]
    dupFree (.obj doc) = false ∧ doc.all (fun kv => errorFieldOK kv.1 kv.2) = true ∧
    examineConnectError (fun _ _ _ => none) (.obj doc) = [.dupKey] ∧
    examineConnectEndStream (fun _ _ _ => none) (.obj [(bs "error", .obj doc)]) = [.dupKey] := by decide

/-- duplicate detection is PER OBJECT: the examiner model flags a document for a duplicate key
iff it is an object that decodes into the struct and SOME object in it, at whatever depth, has one
key twice (`HasRepeatedKey`: no path, no comparison of keys of different objects) -/
theorem dup_keys_per_object (fieldOK : Bytes → ConnectJson.Json → Bool) (doc : ConnectJson.Json) :
    (dupFree doc = false ↔ HasRepeatedKey doc) ∧
    (examineJSON fieldOK doc = .error .dupKey ↔
      ∃ fs, doc = .obj fs ∧ fs.all (fun kv => fieldOK kv.1 kv.2) = true ∧ HasRepeatedKey doc) := by
  refine ⟨dupFree_false_iff_hasRepeatedKey doc, ?_⟩
  constructor
  · intro h
    cases doc with
    | obj fs =>
      by_cases ha : fs.all (fun kv => fieldOK kv.1 kv.2) = true
      · by_cases hd : dupFree (.obj fs) = true
        · simp [examineJSON, typedObject, ha, hd] at h
        · exact ⟨fs, rfl, ha, (dupFree_false_iff_hasRepeatedKey _).mp (by simpa using hd)⟩
      · simp [examineJSON, typedObject, ha] at h
    | null => simp [examineJSON, typedObject] at h
    | bool _ => simp [examineJSON, typedObject] at h
    | num => simp [examineJSON, typedObject] at h
    | str _ => simp [examineJSON, typedObject] at h
    | arr _ => simp [examineJSON, typedObject] at h
  · rintro ⟨fs, rfl, ha, hr⟩
    have hd := (dupFree_false_iff_hasRepeatedKey _).mpr hr
    simp [examineJSON, typedObject, ha, hd]

/-- in particular a document whose objects all have distinct keys is never flagged for a
duplicate key, WHATEVER the key strings are, and one with a repeated key in some object is,
by each examiner, with exactly that message -/
theorem distinct_keys_never_flagged (fieldOK : Bytes → ConnectJson.Json → Bool) (doc : ConnectJson.Json)
    (h : ¬ HasRepeatedKey doc) : dupFree doc = true ∧ examineJSON fieldOK doc ≠ .error .dupKey := by
  refine ⟨?_, fun he => ?_⟩
  · cases hd : dupFree doc with
    | true => rfl
    | false => exact absurd ((dup_keys_per_object fieldOK doc).1.mp hd) h
  · obtain ⟨_, _, _, hr⟩ := (dup_keys_per_object fieldOK doc).2.mp he
    exact h hr

theorem repeated_key_flagged (dbg : DebugOracle) (fs : Fields) (h : HasRepeatedKey (.obj fs)) :
    (fs.all (fun kv => errorFieldOK kv.1 kv.2) = true → examineConnectError dbg (.obj fs) = [.dupKey]) ∧
    (fs.all (fun kv => endFieldOK kv.1 kv.2) = true → examineConnectEndStream dbg (.obj fs) = [.dupKey]) :=
  let r := json_duplicate_key_flagged dbg fs ((dup_keys_per_object errorFieldOK _).1.mpr h)
  ⟨r.1, r.2.1⟩

/-- non-vacuity, both ways: the free-form debug value `[{"a.b":"flat","a":{"b":"nested"}}]` (two
DIFFERENT members whose rendered path is the same) has no repeated key and the error document
holding it is examined without a duplicate-key message; the document-wide path set (counter-model,
not the code) flags it; a real repetition of `a` in the same place is flagged by both -/
example :
    let dbgv : ConnectJson.Json := .arr [.obj [(bs "a.b", .str (bs "flat")), (bs "a", .obj [(bs "b", .str (bs "nested"))])]]
    let dup : ConnectJson.Json := .arr [.obj [(bs "a.b", .str (bs "flat")), (bs "a", .obj [(bs "b", .str (bs "nested"))]), (bs "a", .num)]]
    let doc (d : ConnectJson.Json) : Fields := [(bs "code", .str (bs "internal")), (bs "details", .arr [.obj [(bs "type", .str (bs "google.protobuf.ListValue")),
      (bs "value", .str (bs "QQ")), (bs "debug", d)]])]
    dupFree (.obj (doc dbgv)) = true ∧ examineConnectError (fun _ _ _ => none) (.obj (doc dbgv)) = [] ∧
    pathSetFlags [] (.obj (doc dbgv)) = true ∧
    keyPaths [] (.obj (doc dbgv)) = [bs "code", bs "details", bs "details[0].type", bs "details[0].value",
      bs "details[0].debug", bs "details[0].debug[0].a.b", bs "details[0].debug[0].a", bs "details[0].debug[0].a.b"] ∧
    dupFree (.obj (doc dup)) = false ∧ examineConnectError (fun _ _ _ => none) (.obj (doc dup)) = [.dupKey] ∧
    pathSetFlags [] (.obj (doc dup)) = true := by decide

/-- the rendered path cannot stand for the member: a set keyed by it, shared by the whole document,
flags a document in which no object has a repeated key (so it is not `checkNoDuplicateKeys`) -/
theorem path_set_witness : ∃ doc : ConnectJson.Json, ¬ HasRepeatedKey doc ∧ pathSetFlags [] doc = true :=
  ⟨.obj [(bs "a.b", .num), (bs "a", .obj [(bs "b", .num)])],
   fun h => by
     have := (dup_keys_per_object (fun _ _ => true) _).1.mpr h
     revert this; decide,
   by decide⟩

/-- missing `code` -/
theorem json_missing_code_flagged (dbg : DebugOracle) (fs : Fields) (hp : passesJSON errorFieldOK fs = true)
    (h : hasKey fs jkCode = false) : CFb.missingCode ∈ examineConnectError dbg (.obj fs) :=
  error_missing_code hp h

/-- bad `code`: not a string (only `null` decodes into the struct), or not one of the sixteen
code names -/
theorem json_bad_code_flagged (dbg : DebugOracle) (fs : Fields) (hp : passesJSON errorFieldOK fs = true)
    (v : Json) (hm : (jkCode, v) ∈ fs) :
    (∀ c, v = .str c → codeNames.contains c = false → CFb.codeUnknown ∈ examineConnectError dbg (.obj fs)) ∧
    ((∀ c, v ≠ .str c) → CFb.codeType ∈ examineConnectError dbg (.obj fs)) := by
  constructor
  · rintro c rfl hc
    have hc' : c ∉ codeNames := by simpa using hc
    exact error_cb_mem hp hm (by simp [errorKeyFb, hc'])
  · intro hns
    refine error_cb_mem hp hm ?_
    cases v with
    | str c => exact absurd rfl (hns c)
    | null => simp [errorKeyFb]
    | bool b => simp [errorKeyFb]
    | num => simp [errorKeyFb]
    | arr xs => simp [errorKeyFb]
    | obj gs => simp [errorKeyFb]

/-- unknown keys, at each of the three levels -/
theorem json_unknown_key_flagged (dbg : DebugOracle) (fs : Fields) (k : Bytes) (v : Json) (hm : (k, v) ∈ fs) :
    (passesJSON errorFieldOK fs = true → k ∉ allowedError → CFb.invalidKey ∈ examineConnectError dbg (.obj fs)) ∧
    (passesJSON endFieldOK fs = true → k ∉ allowedEnd → CFb.sInvalidKey ∈ examineConnectEndStream dbg (.obj fs)) ∧
    (passesJSON detailFieldOK fs = true → k ∉ allowedDetail → ∀ i, CFb.dInvalidKey ∈ examineDetail dbg i (.obj fs)) := by
  refine ⟨fun hp hk => ?_, fun hp hk => ?_, fun hp hk i => ?_⟩
  · exact error_cb_mem hp hm (by simp [errorKeyFb_invalid v hk])
  · exact end_cb_mem hp hm (by simp [endKeyFb_invalid v hk])
  · exact detail_cb_mem hp hm (by simp [detailKeyFb_invalid v hk])

/-- wrongly typed `message` / `details` (only `null` decodes into the struct) -/
theorem json_member_type_flagged (dbg : DebugOracle) (fs : Fields) (hp : passesJSON errorFieldOK fs = true) :
    ((jkMessage, Json.null) ∈ fs → CFb.messageType ∈ examineConnectError dbg (.obj fs)) ∧
    ((jkDetails, Json.null) ∈ fs → CFb.detailsType ∈ examineConnectError dbg (.obj fs)) := by
  have h1 : (jkMessage == jkCode) = false := by decide
  have h2 : (jkDetails == jkCode) = false := by decide
  have h3 : (jkDetails == jkMessage) = false := by decide
  exact ⟨fun hm => error_cb_mem hp hm (by simp [errorKeyFb, h1]),
    fun hm => error_cb_mem hp hm (by simp [errorKeyFb, h2, h3])⟩

/-- invalid detail `type`: missing, not a string, or not a valid protobuf full name -/
theorem json_detail_type_flagged (dbg : DebugOracle) (i : Nat) (fs : Fields)
    (hp : passesJSON detailFieldOK fs = true) :
    (hasKey fs jkType = false → CFb.dMissingType ∈ examineDetail dbg i (.obj fs)) ∧
    ((jkType, Json.null) ∈ fs → CFb.dTypeType ∈ examineDetail dbg i (.obj fs)) ∧
    (∀ t, (jkType, Json.str t) ∈ fs → validFullName t = false → CFb.dTypeInvalid ∈ examineDetail dbg i (.obj fs)) :=
  ⟨(detail_missing hp).1, fun hm => detail_cb_mem hp hm (by simp [detailKeyFb]),
   fun t hm hv => detail_cb_mem hp hm (by simp [detailKeyFb, hv])⟩

/-- invalid detail `value`: missing, not a string, or not unpadded standard base64 -/
theorem json_detail_value_flagged (dbg : DebugOracle) (i : Nat) (fs : Fields)
    (hp : passesJSON detailFieldOK fs = true) :
    (hasKey fs jkValue = false → CFb.dMissingValue ∈ examineDetail dbg i (.obj fs)) ∧
    ((jkValue, Json.null) ∈ fs → CFb.dValueType ∈ examineDetail dbg i (.obj fs)) ∧
    (∀ v, (jkValue, Json.str v) ∈ fs → rawStdDecode v = none → CFb.dValueBase64 ∈ examineDetail dbg i (.obj fs)) := by
  have h1 : (jkValue == jkType) = false := by decide
  exact ⟨(detail_missing hp).2, fun hm => detail_cb_mem hp hm (by simp [detailKeyFb, h1]),
   fun v hm hv => detail_cb_mem hp hm (by simp [detailKeyFb, h1, hv])⟩

/-- padded or invalid base64: the padding character `=` anywhere, or any other byte outside the
standard alphabet (CR and LF excepted, which Go's decoder skips), makes the value invalid -/
theorem base64_padded_or_invalid_rejected (v : Bytes) :
    ((61 : UInt8) ∈ v → rawStdDecode v = none) ∧
    (∀ b ∈ v, Base64.decChar b = none → b.toNat ≠ 10 → b.toNat ≠ 13 → rawStdDecode v = none) :=
  ⟨fun h => rawStd_rejects v 61 h (by decide) (by decide) (by decide), fun b hb => rawStd_rejects v b hb⟩

example : rawStdDecode (bs "QQ==") = none ∧ rawStdDecode (bs "QUI=") = none ∧ rawStdDecode (bs "Q-_Q") = none ∧
    rawStdDecode (bs "Q") = none ∧ rawStdDecode (bs "QQ") = some [65] ∧ rawStdDecode (bs "Q\nQ\r\n") = some [65] := by
  decide

/-- what `examineConnectErrorDetail` says about detail `j` is part of what `examineConnectError`
says (the object has no unknown key, so struct decoding and callback see the same `details`) -/
theorem json_detail_feedback_in_error (dbg : DebugOracle) (fs : Fields) (hp : passesJSON errorFieldOK fs = true)
    (hkw : keysWithin fs allowedError = true) (xs : List Json) (hD : lookup fs jkDetails = some (.arr xs))
    (j : Nat) (hj : j < xs.length) :
    ∀ f ∈ examineDetail dbg j xs[j], f ∈ examineConnectError dbg (.obj fs) :=
  detail_in_error hp hkw hD j hj

/-- what `examineConnectError` says about the enclosed error is part of what
`examineConnectEndStream` says -/
theorem json_error_feedback_in_end_stream (dbg : DebugOracle) (fs : Fields) (hp : passesJSON endFieldOK fs = true)
    (hkw : keysWithin fs allowedEnd = true) (efs : Fields) (hE : lookup fs jkError = some (.obj efs)) :
    ∀ f ∈ examineConnectError dbg (.obj efs), f ∈ examineConnectEndStream dbg (.obj fs) :=
  error_in_end hp hkw hE

/-- non-vacuity of the two composition theorems: padded base64 in the second detail of the
error of an end-of-stream message -/
example :
    let efs : Fields := [(bs "code", .str (bs "internal")), (bs "details", .arr [
      .obj [(bs "type", .str (bs "a.B")), (bs "value", .str (bs "QQ"))],
      .obj [(bs "type", .str (bs "a.B")), (bs "value", .str (bs "QQ=="))]])]
    let fs : Fields := [(bs "error", .obj efs)]
    passesJSON endFieldOK fs = true ∧ keysWithin fs allowedEnd = true ∧
    passesJSON errorFieldOK efs = true ∧ keysWithin efs allowedError = true ∧
    examineConnectEndStream (fun _ _ _ => none) (.obj fs) = [.dValueBase64] := by decide

/-- bad metadata key / value in an end-of-stream message -/
theorem json_bad_metadata_flagged (dbg : DebugOracle) (fs : Fields) (hp : passesJSON endFieldOK fs = true)
    (ms : Fields) (hm : (jkMetadata, Json.obj ms) ∈ fs) (name : Bytes) (values : Json) (he : (name, values) ∈ ms) :
    (validFieldName name = false → CFb.sMetaName ∈ examineConnectEndStream dbg (.obj fs)) ∧
    (∀ vs s, values = .arr vs → Json.str s ∈ vs → validFieldValue s = false →
      CFb.sMetaValue ∈ examineConnectEndStream dbg (.obj fs)) ∧
    ((∀ vs, values ≠ .arr vs) → CFb.sMetaArray ∈ examineConnectEndStream dbg (.obj fs)) ∧
    (∀ vs, values = .arr vs → Json.null ∈ vs → CFb.sMetaValueType ∈ examineConnectEndStream dbg (.obj fs)) := by
  have h1 : (jkMetadata == jkError) = false := by decide
  have key : ∀ f, f ∈ metaEntryFb name values → f ∈ examineConnectEndStream dbg (.obj fs) := fun f hf =>
    end_cb_mem hp hm (by
      simp only [endKeyFb, h1, Bool.false_eq_true, if_false, beq_self_eq_true, if_true, List.mem_flatMap]
      exact ⟨(name, values), he, hf⟩)
  refine ⟨fun hn => key _ (by simp [metaEntryFb, hn]), ?_, ?_, ?_⟩
  · rintro vs s rfl hs hv
    refine key _ ?_
    simp only [metaEntryFb, List.mem_append, List.mem_flatMap]
    exact Or.inr ⟨_, hs, by simp [metaValueFb, hv]⟩
  · intro hna
    refine key _ ?_
    cases values with
    | arr vs => exact absurd rfl (hna vs)
    | null => simp [metaEntryFb]
    | bool b => simp [metaEntryFb]
    | num => simp [metaEntryFb]
    | str s => simp [metaEntryFb]
    | obj gs => simp [metaEntryFb]
  · rintro vs rfl hs
    refine key _ ?_
    simp only [metaEntryFb, List.mem_append, List.mem_flatMap]
    exact Or.inr ⟨_, hs, by simp [metaValueFb]⟩

/-- wrongly typed `error` / `metadata` member -/
theorem json_end_stream_member_type_flagged (dbg : DebugOracle) (fs : Fields) (hp : passesJSON endFieldOK fs = true)
    (v : Json) (hv : ∀ gs, v ≠ .obj gs) :
    ((jkError, v) ∈ fs → CFb.sErrorType ∈ examineConnectEndStream dbg (.obj fs)) ∧
    ((jkMetadata, v) ∈ fs → CFb.sMetadataType ∈ examineConnectEndStream dbg (.obj fs)) := by
  have h1 : (jkMetadata == jkError) = false := by decide
  constructor
  · intro hm
    refine end_cb_mem hp hm ?_
    cases v with
    | obj gs => exact absurd rfl (hv gs)
    | null => simp [endKeyFb]
    | bool b => simp [endKeyFb]
    | num => simp [endKeyFb]
    | str s => simp [endKeyFb]
    | arr xs => simp [endKeyFb]
  · intro hm
    refine end_cb_mem hp hm ?_
    cases v with
    | obj gs => exact absurd rfl (hv gs)
    | null => simp [endKeyFb, h1]
    | bool b => simp [endKeyFb, h1]
    | num => simp [endKeyFb, h1]
    | str s => simp [endKeyFb, h1]
    | arr xs => simp [endKeyFb, h1]

/-- a document that is not an object: `null` is reported as such, anything else does not decode
into the struct -/
theorem json_not_an_object_flagged (dbg : DebugOracle) (doc : Json) (h : ∀ fs, doc ≠ .obj fs) :
    (examineConnectError dbg doc = [.jsonNull] ∨ examineConnectError dbg doc = [.jsonType]) ∧
    (examineConnectEndStream dbg doc = [.jsonNull] ∨ examineConnectEndStream dbg doc = [.jsonType]) := by
  cases doc with
  | obj fs => exact absurd rfl (h fs)
  | null => exact ⟨Or.inl rfl, Or.inl rfl⟩
  | bool b => exact ⟨Or.inr rfl, Or.inr rfl⟩
  | num => exact ⟨Or.inr rfl, Or.inr rfl⟩
  | str s => exact ⟨Or.inr rfl, Or.inr rfl⟩
  | arr xs => exact ⟨Or.inr rfl, Or.inr rfl⟩

/-! ### the `debug` member of a detail: type URLs with any prefix

`examineConnectErrorDetailDebugData` accepts the debug data either as the detail's message or as
that message rendered as a `google.protobuf.Any` (older connect-go and other encoders write it so).
The protobuf libraries are outside the model (`DebugSteps`: the outcome of each call, computed by
the harness with the real libraries); the decisions are modelled - in particular which message
type a type URL stands for. -/

/-- **Only the text after the last slash of a type URL names the type, for every prefix**: no
prefix but the slash, the default host, another host, a host with a path, several slashes, or
no slash at all. -/
theorem type_url_name_every_prefix (p n : Bytes) (hn : (47 : UInt8) ∉ n) :
    typeNameOfUrl (p ++ 47 :: n) = n ∧ typeNameOfUrl n = n :=
  ⟨typeNameOfUrl_prefixed p n hn, typeNameOfUrl_noSlash n hn⟩

example : (47 : UInt8) ∉ bs "a.B" ∧
    typeNameOfUrl (bs "type.googleapis.com/a.B") = bs "a.B" ∧ typeNameOfUrl (bs "/a.B") = bs "a.B" ∧
    typeNameOfUrl (bs "example.com/schemas/v1/a.B") = bs "a.B" ∧ typeNameOfUrl (bs "//a.B") = bs "a.B" ∧
    typeNameOfUrl (bs "a.B") = bs "a.B" ∧ typeNameOfUrl (bs "a.B/") = [] := by decide

/-- The name the examiner extracts is `n` exactly for the URLs that name `n` (declaratively: `n`
has no slash and the URL is `n` or ends in `/n`). -/
theorem type_url_name_iff (url n : Bytes) : typeNameOfUrl url = n ↔ urlNames url n = true :=
  typeNameOfUrl_iff url n

/-- The debug comparison is silent exactly on well-formed debug data: known type, value of that
type, and the debug data is that message - as itself or in `Any` form under a type URL that names
the type, whatever its prefix. -/
theorem debug_data_silent_iff_wellformed (msgName : Bytes) (s : DebugSteps) :
    debugDataFb msgName s = none ↔ debugOK msgName s = true := debugDataFb_none_iff msgName s

/-- Debug data in `Any` form is accepted under EVERY type URL prefix. -/
theorem debug_any_form_clean_every_prefix (p n : Bytes) (s : DebugSteps) (hn : (47 : UInt8) ∉ n)
    (hr : s.resolved = true) (hv : s.valueOK = true) (hu : s.anyUrl = some (p ++ 47 :: n))
    (hnew : s.newOK = true) (he : s.eqAny = true) (hd : s.directOK = true → s.eqDirect = true) :
    debugDataFb n s = none := by
  rw [debugDataFb_none_iff]
  have hnames : urlNames (p ++ 47 :: n) n = true := (typeNameOfUrl_iff _ _).mp (typeNameOfUrl_prefixed p n hn)
  unfold debugOK
  cases hdo : s.directOK with
  | true => simp [hr, hv, hd hdo]
  | false => simp [hr, hv, hu, hnames, hnew, he]

/-- non-vacuity: custom host with a path -/
example :
    let s : DebugSteps := ⟨true, true, false, false, some (bs "example.com/schemas/v1/a.B"), true, true⟩
    debugDataFb (bs "a.B") s = none ∧ debugDataFb (bs "a.C") s = some .type ∧
    debugDataFb (bs "a.B") { s with eqAny := false } = some .mismatch := by decide

/-- Debug data in `Any` form whose type URL names another type is reported as such. -/
theorem debug_wrong_type_flagged (msgName : Bytes) (s : DebugSteps) (h : mustFlagDebugType msgName s = true) :
    debugDataFb msgName s = some .type := by
  unfold mustFlagDebugType at h
  simp only [Bool.and_eq_true, Bool.not_eq_true'] at h
  obtain ⟨⟨⟨hr, hv⟩, hd⟩, hu⟩ := h
  cases hau : s.anyUrl with
  | none => simp [hau] at hu
  | some url =>
    simp only [hau, Bool.not_eq_true'] at hu
    have hne : typeNameOfUrl url ≠ msgName := fun e => by
      rw [(typeNameOfUrl_iff url msgName).mp e] at hu; cases hu
    simp [debugDataFb, hr, hv, hd, hau, hne]

example : mustFlagDebugType (bs "a.B")
    ⟨true, true, false, false, some (bs "type.googleapis.com/a.B.C"), true, false⟩ = true := by decide

/-- The Connect error connect-go writes, with `debug` members in `Any` form under any type URL
prefix (or in plain form), yields no feedback: `own_connect_error_clean` for the comparison
derived from the library outcomes, with the hypothesis on the declarative side (`debugOK`). -/
theorem own_connect_error_clean_any_form (st : StepsOracle) (code : Nat) (msg : Bytes) (details : List Detail)
    (hc : 1 ≤ code ∧ code ≤ 16) (hd : detailsFine (debugSpecOracle st) 0 details = true) :
    examineConnectError (stepsOracle st) (encodeError code msg details) = [] := by
  apply own_connect_error_clean (stepsOracle st) code msg details hc
  rw [detailsFine_congr (steps_spec_isNone st)]
  exact hd

/-- non-vacuity: a detail whose debug data is in `Any` form with a custom prefix -/
example :
    let st : StepsOracle := fun _ _ _ => ⟨true, true, false, false, some (bs "types.example.com/a.B"), true, true⟩
    let details : List Detail := [⟨bs "a.B", [10, 1, 97],
      some (.obj [(bs "@type", .str (bs "types.example.com/a.B")), (bs "value", .str (bs "a"))])⟩]
    detailsFine (debugSpecOracle st) 0 details = true ∧
    examineConnectError (stepsOracle st) (encodeError 13 (bs "oops") details) = [] := by decide

/-- The property's predicates - with the declarative oracle (`debugOK`) - hold of the examiners'
output when the comparison is the modelled one: the form the correspondence check evaluates. -/
theorem connect_spec_with_debug_model (st : StepsOracle) (doc : Json) :
    errorHolds (debugSpecOracle st) doc (examineConnectError (stepsOracle st) doc) = true ∧
    endStreamHolds (debugSpecOracle st) doc (examineConnectEndStream (stepsOracle st) doc) = true := by
  have h1 := connect_error_spec (stepsOracle st) doc
  have h2 := connect_end_stream_spec (stepsOracle st) doc
  unfold errorHolds at h1 ⊢
  unfold endStreamHolds at h2 ⊢
  rw [← errorOK_congr (steps_spec_isNone st), ← endStreamOK_congr (steps_spec_isNone st)]
  exact ⟨h1, h2⟩

/-! ### non-vacuity of the hypotheses and of the declarative side -/

example :
    let noDbg : DebugOracle := fun _ _ _ => none
    -- missing code, unknown key, null message
    let fs : Fields := [(bs "message", .null), (bs "Code", .null), (bs "x", .num)]
    passesJSON errorFieldOK fs = true ∧ hasKey fs jkCode = false ∧
    examineConnectError noDbg (.obj fs) = [.invalidKey, .messageType, .invalidKey, .missingCode] ∧
    mustFlagError (.obj fs) = [orGeneric .invalidKey, orGeneric .missingCode, orGeneric .messageType] ∧
    errorOK noDbg (.obj fs) = false := by decide

example :
    let noDbg : DebugOracle := fun _ _ _ => none
    -- a detail with an upper-case key, an invalid type name, a missing value
    let ds : Fields := [(bs "type", .str (bs "9a")), (bs "VALUE", .str (bs "QQ")), (bs "debug", .num)]
    passesJSON detailFieldOK ds = true ∧
    examineDetail noDbg 0 (.obj ds) = [.dInvalidKey, .dTypeInvalid, .dMissingValue] ∧
    mustFlagDetail (.obj ds) = [orGeneric .dInvalidKey, orGeneric .dTypeInvalid, orGeneric .dMissingValue] ∧
    -- struct decoding matches keys case-insensitively: a number there is a type error
    examineDetail noDbg 0 (.obj [(bs "VALUE", .num)]) = [.jsonType] := by decide

example :
    let noDbg : DebugOracle := fun _ _ _ => none
    let fs : Fields := [(bs "metadata", .obj [(bs "x-a", .arr [.str (bs "v"), .null]), (bs "", .null)]),
      (bs "error", .null)]
    passesJSON endFieldOK fs = true ∧
    examineConnectEndStream noDbg (.obj fs) = [.sErrorType, .sMetaValueType, .sMetaName, .sMetaArray] ∧
    endStreamOK noDbg (.obj fs) = false ∧
    endStreamOK noDbg (.obj [(bs "metadata", .obj [(bs "x-a", .arr [.str (bs "v")])])]) = true := by decide

end ConnectJSON

/-! ## Binary metadata (`checkBinaryMetadata`)

The accepted language of a `-bin` header / trailer value is unpadded standard base64; padded
base64 draws a padding complaint; anything else is reported as incorrectly encoded. -/
section BinaryMetadata
open ConfModel.BinMeta ConfModel.BinMetaSpec

/-- one value: silent exactly on unpadded standard base64 (alphabet only, CR / LF ignored, not a
single left-over character); the padding complaint exactly on padded base64; "incorrectly
encoded" on everything else -/
theorem bin_value_spec (v : Bytes) :
    (binValueFb v = none ↔ unpaddedB64 v = true) ∧
    (binValueFb v = some .padded ↔ (unpaddedB64 v = false ∧ paddedB64 v = true)) ∧
    (binValueFb v = some .invalid ↔ (unpaddedB64 v = false ∧ paddedB64 v = false)) :=
  ⟨binValueFb_none v, binValueFb_padded v, binValueFb_invalid v⟩

example : binValueFb (bs "QUI") = none ∧ binValueFb (bs "QUI=") = some .padded ∧ binValueFb (bs "QQ==") = some .padded ∧
    binValueFb (bs "QQ=") = some .invalid ∧ binValueFb (bs "-_8") = some .invalid ∧ binValueFb (bs "QQ,QUI") = some .invalid ∧
    binValueFb (bs "Q") = some .invalid ∧ binValueFb [] = none ∧ binValueFb (bs "QU\r\nI") = none := by decide

/-- **What the repository's own encoders emit for any bytes is accepted silently**
(`connect.EncodeBinaryHeader` / `base64.RawStdEncoding`, used by `ConvertMetadataToProtoHeader`;
C18 `bin_once`, `bin_values_decode` are the conversion side of the same fact). -/
theorem bin_own_encoding_clean (x : Bytes) : binValueFb (Base64.encode x) = none := by
  unfold binValueFb
  simp [ConfModel.ConnectJson.rawStdDecode_encode]

/-- the whole examination is silent on any header list whose `-bin` values are such encodings -/
theorem bin_own_metadata_clean (md : List (Bytes × List Bytes)) :
    checkBinaryMetadata (md.map (fun e => (e.1, e.2.map Base64.encode))) = [] := by
  rw [check_eq_values, valuesFb_nil_iff]
  simp only [examinedValues, List.all_eq_true, List.mem_flatMap, List.mem_filter, List.mem_map]
  rintro v ⟨e, ⟨⟨e0, _, rfl⟩, _⟩, hv⟩
  simp only [List.mem_map] at hv
  obtain ⟨x, _, rfl⟩ := hv
  exact (binValueFb_none _).mp (bin_own_encoding_clean x)

/-- a value with the padding character is never silent -/
theorem bin_pad_char_never_silent (v : Bytes) (h : (61 : UInt8) ∈ v) : binValueFb v ≠ none := by
  intro hn
  have hu := (binValueFb_none v).mp hn
  rw [← rawStd_isSome] at hu
  have := (base64_padded_or_invalid_rejected v).1 h
  rw [this] at hu; cases hu

/-- The property's predicate holds of `checkBinaryMetadata`'s output on every header list: silent
iff every examined value is unpadded base64, an invalid value is reported (and ends the
examination), otherwise one padding complaint per padded value. -/
theorem bin_metadata_spec (md : List (Bytes × List Bytes)) : binHolds md (checkBinaryMetadata md) = true := by
  unfold binHolds
  simp only [check_eq_values]
  generalize examinedValues md = vs
  simp only [Bool.and_eq_true, Bool.or_eq_true, Bool.not_eq_true', beq_iff_eq, List.contains_iff_mem]
  refine ⟨⟨?_, ?_⟩, ?_⟩
  · cases h : vs.all unpaddedB64 with
    | true => simp [(valuesFb_nil_iff vs).mpr h]
    | false =>
      cases hx : (valuesFb vs).1 with
      | nil => rw [(valuesFb_nil_iff vs).mp hx] at h; cases h
      | cons a t => rfl
  · cases h : vs.any (fun v => !unpaddedB64 v && !paddedB64 v) with
    | false => exact Or.inl rfl
    | true => exact Or.inr (valuesFb_invalid vs h)
  · cases h : vs.any (fun v => !unpaddedB64 v && !paddedB64 v) with
    | true => exact Or.inl rfl
    | false => exact Or.inr (valuesFb_padded_count vs h)

/-- which entries are examined: the lower-cased name ends in `-bin`, except `grpc-status-details-bin` -/
example : examined (bs "X-Data-BIN") = true ∧ examined (bs "bin") = false ∧ examined (bs "-bin") = true ∧
    examined (bs "Grpc-Status-Details-Bin") = false ∧ examined (bs "x-bin ") = false := by decide

/-- an invalid value ends the examination; a padded one does not -/
example : checkBinaryMetadata [(bs "a-bin", [bs "QQ==", bs "!"]), (bs "b-bin", [bs "QQ=="])] = [.padded, .invalid] ∧
    checkBinaryMetadata [(bs "a-bin", [bs "QQ=="]), (bs "x", [bs "!"]), (bs "b-bin", [bs "QUI="])] = [.padded, .padded] := by
  decide

end BinaryMetadata

/-! ## The examiner sees exactly the bytes the client received

The body of a unary Connect error reaches `examineConnectError` through the capturing reader
(`wireReader`).  Capture is the identity on bodies of ANY length, under ANY chunking. -/
section CaptureIdentity
open ConfModel.Capture

theorem capture_foldl (chunks : List Capture.Bytes) (st : St) :
    (chunks.foldl Capture.read st).buf = st.buf ++ chunks.flatten ∧
    (chunks.foldl Capture.read st).delivered = st.delivered ++ chunks.flatten := by
  induction chunks generalizing st with
  | nil => simp
  | cons c t ih =>
    have := ih (Capture.read st c)
    simp only [List.foldl_cons, List.flatten_cons]
    constructor
    · rw [this.1]; simp [Capture.read, List.append_assoc]
    · rw [this.2]; simp [Capture.read, List.append_assoc]

/-- **Capture is the identity**: whatever the length of the body and however it is cut into
reads, the buffer the examiner is given holds exactly the body - the bytes the client received. -/
theorem capture_identity (chunks : List Capture.Bytes) :
    (run chunks).buf = chunks.flatten ∧ (run chunks).delivered = chunks.flatten ∧
    (run chunks).buf = (run chunks).delivered := by
  have := capture_foldl chunks { buf := [], delivered := [] }
  simp only [List.nil_append] at this
  exact ⟨this.1, this.2, by rw [run, this.1, this.2]⟩

/-- …hence two ways of cutting the same body are examined alike. -/
theorem capture_chunking_independent (a b : List Capture.Bytes) (h : a.flatten = b.flatten) :
    (run a).buf = (run b).buf := by
  rw [(capture_identity a).1, (capture_identity b).1, h]

example : [[(1 : UInt8), 2], [], [3]].flatten = [[(1 : UInt8)], [2, 3]].flatten := by decide

/-- Witness that the statement discriminates: a reader that stops copying at a capacity hands
the examiner a proper prefix of what the client received. -/
theorem capped_capture_witness :
    (runCapped 4 [[1, 2, 3], [4, 5], [6]]).buf = [1, 2, 3, 4] ∧
    (runCapped 4 [[1, 2, 3], [4, 5], [6]]).delivered = [1, 2, 3, 4, 5, 6] ∧
    (run [[1, 2, 3], [4, 5], [6]]).buf = [1, 2, 3, 4, 5, 6] := by decide

end CaptureIdentity

/-! ## Compressed payloads: which coding a header value announces

The examiners of this property see a payload only after glue code picked a decompressor from a
header value.  The compression algorithms are not modelled (the correspondence run drives the
real exchange with the repository's six compressors, see `c13z.go`); what is stated here is the
demand the driver makes: the announced coding depends on the header value only up to ASCII case
(RFC 9110 §8.4.1), and every spelling of the six names announces that coding. -/
section Coding
open ConfModel.ContentCoding

/-- Two header values that differ only in ASCII case announce the same coding. -/
theorem coding_case_insensitive (a b : String) (h : lower a = lower b) :
    codingOf (some a) = codingOf (some b) := by
  simp only [codingOf, h]

/-- …hence `payloadReachesExaminer`, the driver's demand, does not depend on the spelling. -/
theorem demand_case_insensitive (stream flag : Bool) (applied : Nat) (a b : String)
    (h : lower a = lower b) :
    payloadReachesExaminer stream flag applied (some a) = payloadReachesExaminer stream flag applied (some b) := by
  simp only [payloadReachesExaminer, coding_case_insensitive a b h]

example : lower "GZip" = lower "gzip" := by decide

/-- Lower, title and upper case of each of the six names announce it; absent and empty
announce identity; other names announce nothing known. -/
theorem coding_names :
    (codings.map fun n => codingOf (some n)) = [some 0, some 1, some 2, some 3, some 4, some 5] ∧
    (["IDENTITY", "GZIP", "BR", "ZSTD", "DEFLATE", "SNAPPY"].map fun n => codingOf (some n))
      = [some 0, some 1, some 2, some 3, some 4, some 5] ∧
    (["Identity", "Gzip", "Br", "Zstd", "Deflate", "Snappy"].map fun n => codingOf (some n))
      = [some 0, some 1, some 2, some 3, some 4, some 5] ∧
    codingOf none = some 0 ∧ codingOf (some "") = some 0 ∧
    codingOf (some "gzipx") = none ∧ codingOf (some "x-gzip") = none := by decide

/-- An end-stream message without the compressed flag is plain whatever was negotiated;
with the flag (and for a unary body) the announced coding must be the applied one. -/
theorem demand_cases (applied : Nat) (enc : Option String) :
    payloadReachesExaminer true false applied enc = true ∧
    payloadReachesExaminer true true applied enc = (codingOf enc == some applied) ∧
    payloadReachesExaminer false false applied enc = (codingOf enc == some applied) := by
  simp [payloadReachesExaminer]

end Coding

/-! ## Histories of calls: the examination of call k is a function of response k only

`Model/Session.lean`: the glue around one call (`withWireCapture` - `wireReader` -
`examineWireDetails`) with the state the process keeps between calls as a parameter.  The code as
it is keeps nothing (`fresh`).  Whatever the examiner (`examine`, arbitrary - the examiners of the
other sections, the decompressor's failure to read a body to its end included: it returns the
unread rest) and whatever the history, the feedback of a call is the feedback of the same
response as the only call. -/
section Histories
open ConfModel.Session

/-- Any glue whose reachable states hand out EMPTY buffers is history independent. -/
theorem session_history_independent {S R F : Type} (g : Glue S) (inv : S → Prop) (hg : Clean g inv)
    (examine : R → Capture.Bytes → F × Capture.Bytes) (s : S) (hs : inv s)
    (calls : List (R × List Capture.Bytes)) :
    Session.run g examine s calls = calls.map (alone examine) := by
  induction calls generalizing s with
  | nil => rfl
  | cons c t ih =>
    obtain ⟨hb, hr⟩ := hg s hs
    have hbuf : (c.2.foldl Capture.read { buf := (g.acquire s).1, delivered := [] }).buf = c.2.flatten := by
      rw [(capture_foldl c.2 _).1, hb]; rfl
    simp only [Session.run, Session.call, List.map_cons, hbuf]
    rw [ih _ (hr _)]
    rfl

/-- **The code as it is** (a new buffer per call): for every examiner and every history, the
feedback of the calls is the examiner's feedback on each response alone. -/
theorem session_fresh {R F : Type} (examine : R → Capture.Bytes → F × Capture.Bytes)
    (calls : List (R × List Capture.Bytes)) :
    Session.run fresh examine () calls = calls.map (alone examine) :=
  session_history_independent fresh (fun _ => True)
    (fun _ _ => ⟨rfl, fun _ => trivial⟩) examine () trivial calls

/-- … call by call: what precedes and what follows a call does not matter. -/
theorem session_call_k {R F : Type} (examine : R → Capture.Bytes → F × Capture.Bytes)
    (pre post : List (R × List Capture.Bytes)) (c : R × List Capture.Bytes) :
    (Session.run fresh examine () (pre ++ c :: post))[pre.length]? = some (alone examine c) := by
  rw [session_fresh]
  simp

/-- **Well-formed ⇒ silent regardless of history**: if the examiner is silent on every
well-formed response examined alone, a well-formed response is silent after any history. -/
theorem session_wellformed_silent {R F : Type} (examine : R → Capture.Bytes → F × Capture.Bytes)
    (wf : R × List Capture.Bytes → Prop) (silent : F → Prop)
    (h : ∀ c, wf c → silent (alone examine c))
    (pre post : List (R × List Capture.Bytes)) (c : R × List Capture.Bytes) (hc : wf c) :
    ∃ fb, (Session.run fresh examine () (pre ++ c :: post))[pre.length]? = some fb ∧ silent fb :=
  ⟨_, session_call_k examine pre post c, h c hc⟩

/-- a pool that resets its buffers is history independent too (any state: a list of empty buffers) -/
theorem session_pooled_reset {R F : Type} (examine : R → Capture.Bytes → F × Capture.Bytes)
    (calls : List (R × List Capture.Bytes)) :
    Session.run pooledReset examine [] calls = calls.map (alone examine) := by
  refine session_history_independent pooledReset (fun s => ∀ b ∈ s, b = []) ?_ examine [] (by simp) calls
  intro s hs
  cases s with
  | nil => exact ⟨rfl, fun _ => by simp [pooledReset]⟩
  | cons b t =>
    refine ⟨hs b (by simp), fun _ => ?_⟩
    intro x hx
    simp only [pooledReset, List.mem_cons] at hx
    rcases hx with rfl | hx
    · rfl
    · exact hs x (by simp [hx])

/-- toy examiner of the witness: a decodable response (`true`) is read to its end and the
feedback is what was read; an undecodable one (`false`) is not read at all -/
def toyExamine (decodable : Bool) (buf : Capture.Bytes) : Capture.Bytes × Capture.Bytes :=
  if decodable then (buf, []) else ([], buf)

example : Session.run fresh toyExamine () [(false, [[1, 2]]), (true, [[3]])] = [[], [3]] := by decide

/-- Non-vacuity / discriminating witness: buffers recycled WITHOUT a reset make the feedback of a
call depend on the call before it (the unread body of an undecodable response is examined with
the next response); with a reset, or with a new buffer per call, it does not. -/
theorem pooled_session_witness :
    Session.run pooled toyExamine [] [(false, [[1, 2]]), (true, [[3]])] = [[], [1, 2, 3]] ∧
    Session.run pooledReset toyExamine [] [(false, [[1, 2]]), (true, [[3]])] = [[], [3]] ∧
    Session.run fresh toyExamine () [(false, [[1, 2]]), (true, [[3]])] = [[], [3]] ∧
    [(false, [[1, 2]]), ((true, [[3]]) : Bool × List Capture.Bytes)].map (alone toyExamine) = [[], [3]] := by
  decide

end Histories

/-! ## Trailers-Only responses: announced trailer names are not trailers -/
section TrailersOnly

/-- Names announced in a `Trailer:` header but never sent (keys without values in
`Response.Trailer`) do not change whether a response is Trailers-Only - wherever they stand. -/
theorem trailers_only_ignores_announced (traceErr bodyData : Bool) (names names' : List Bytes) (tr : Hdrs) :
    isTrailersOnly traceErr bodyData (announcedOnly names ++ tr ++ announcedOnly names') =
      isTrailersOnly traceErr bodyData tr := by
  have h : ∀ ns : List Bytes, (announcedOnly ns).all (fun kv => kv.2.isEmpty) = true := by
    intro ns; simp [announcedOnly]
  simp [isTrailersOnly, List.all_append, h]

/-- Trailers-Only exactly when no error, no body message and no trailer key has a value. -/
theorem trailers_only_iff (traceErr bodyData : Bool) (tr : Hdrs) :
    isTrailersOnly traceErr bodyData tr = true ↔
      traceErr = false ∧ bodyData = false ∧ ∀ kv ∈ tr, kv.2 = [] := by
  simp [isTrailersOnly, List.isEmpty_iff]
  constructor
  · rintro ⟨⟨h1, h2⟩, h3⟩; exact ⟨h1, h3, h2⟩
  · rintro ⟨h1, h3, h2⟩; exact ⟨⟨h1, h2⟩, h3⟩

/-- A gRPC / gRPC-Web response without body messages and without sent trailers has its status
examined in the HTTP HEADERS whatever trailer names it announced. -/
theorem announced_only_examines_headers (names : List Bytes) :
    statusSource "application/grpc" false false (announcedOnly names) = .headers ∧
    statusSource "application/grpc+proto" false false (announcedOnly names) = .headers ∧
    statusSource "application/grpc-web+proto" false false (announcedOnly names) = .headers := by
  have h := trailers_only_ignores_announced false false names [] []
  simp only [List.append_nil, announcedOnly, List.map_nil] at h
  have h0 : isTrailersOnly false false [] = true := by decide
  have hp1 : ("application/grpc-web".toList.isPrefixOf "application/grpc".toList) = false := by decide
  have hp2 : ("application/grpc".toList.isPrefixOf "application/grpc".toList) = true := by decide
  have hp3 : ("application/grpc-web".toList.isPrefixOf "application/grpc+proto".toList) = false := by decide
  have hp4 : ("application/grpc".toList.isPrefixOf "application/grpc+proto".toList) = true := by decide
  have hp5 : ("application/grpc-web".toList.isPrefixOf "application/grpc-web+proto".toList) = true := by decide
  simp only [statusSource, announcedOnly, h, h0, hp1, hp2, hp3, hp4, hp5]
  simp

/-- discriminating witness: counting KEYS instead of values turns an announcing Trailers-Only
response into one whose (empty) trailers are examined -/
theorem announced_trailers_witness :
    isTrailersOnly false false (announcedOnly [bs "Grpc-Status"]) = true ∧
    isTrailersOnlyByKeys false false (announcedOnly [bs "Grpc-Status"]) = false ∧
    isTrailersOnly false false [(bs "Grpc-Status", [bs "0"])] = false := by decide

end TrailersOnly

end ConfModel.Props.C13
