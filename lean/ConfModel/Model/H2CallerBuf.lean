/-
C15 — the calls of a caller that reuses one array per direction (`bufio.Reader` for `Read`,
`bufio.Writer` for `Write`, as x/net/http2 and grpc-go do): see `Model/CallerBuf.lean`.
Core Lean only.
-/
import ConfModel.Model.H2Conn
import ConfModel.Model.CallerBuf
namespace ConfModel.H2
open ConfModel.CallerBuf

/-- a call whose bytes live in a window of the caller's array -/
inductive BufCall
  | read (b : BCall) (err : IOErr)
  | write (b : BCall) (n : Nat) (err : IOErr)
  | close (err : IOErr)
  | timers
deriving DecidableEq, Repr

/-- what the tracer is handed: the values found in the window -/
def BufCall.toCall : BufCall → Call
  | .read b err => .read b.window err
  | .write b n err => .write b.window n err
  | .close err => .close err
  | .timers => .timers

/-- the same call by a caller that passes a fresh slice holding the chunk -/
def BufCall.plain : BufCall → Call
  | .read b err => .read b.chunk err
  | .write b n err => .write b.chunk n err
  | .close err => .close err
  | .timers => .timers

def BufCall.fits : BufCall → Prop
  | .read b _ => b.fits
  | .write b _ _ => b.fits
  | _ => True

/-- what the caller finds in its array after the call (`Read`: the inner connection stored the
chunk; `Write`: the caller did) — a transparent wrapper leaves it as it found it -/
def BufCall.callerSees : BufCall → Bytes
  | .read b _ => b.callerSees
  | .write b _ _ => b.callerSees
  | _ => []

end ConfModel.H2
