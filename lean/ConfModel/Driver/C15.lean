import ConfModel.Driver.Common
import ConfModel.Model.H2Conn
import ConfModel.Model.H2FrameW
import ConfModel.Spec.H2
namespace ConfModel.Driver.C15
open Lean ConfModel.Driver ConfModel.H2

/-! ### JSON <-> model values -/

def errStr : Err → String
  | .none => "nil"
  | .stream id c => s!"stream:{id}:{c}"
  | .conn c => s!"conn:{c}"
  | .io t => "io:" ++ t
  | .closed t => "closed:" ++ t

def parseErr (s : String) : Err :=
  if s == "nil" then .none else
  match s.splitOn ":" with
  | ["stream", a, b] => .stream (a.toNat?.getD 0) (b.toNat?.getD 0)
  | ["conn", a] => .conn (a.toNat?.getD 0)
  | "io" :: rest => .io (":".intercalate rest)
  | "closed" :: rest => .closed (":".intercalate rest)
  | _ => .io ("?" ++ s)

def envJson : Option Env → List Json
  | some e => [toJson (Int.ofNat e.flags), toJson (Int.ofNat e.len)]
  | none => [toJson (-1 : Int), toJson (-1 : Int)]

def oevJson : OEv → Json
  | .reqStart => Json.arr #["reqStart"]
  | .reqData e l i => Json.arr (([Json.str "reqData"] ++ envJson e ++ [toJson l, toJson i]).toArray)
  | .reqEnd e => Json.arr #["reqEnd", errStr e]
  | .respStart s => Json.arr #["respStart", toJson s]
  | .respData e l i => Json.arr (([Json.str "respData"] ++ envJson e ++ [toJson l, toJson i]).toArray)
  | .respEos c => Json.arr #["respEos", hex c]
  | .respEnd e => Json.arr #["respEnd", errStr e]
  | .canceled => Json.arr #["canceled"]

def parseEnv (f l : Json) : Option Env :=
  if int f < 0 then none else some { flags := (int f).toNat, len := (int l).toNat }

def parseOEv (j : Json) : OEv :=
  match arr j with
  | k :: rest =>
    match str k, rest with
    | "reqStart", _ => .reqStart
    | "reqData", [f, l, n, i] => .reqData (parseEnv f l) (nat n) (nat i)
    | "reqEnd", [e] => .reqEnd (parseErr (str e))
    | "respStart", [s] => .respStart (nat s)
    | "respData", [f, l, n, i] => .respData (parseEnv f l) (nat n) (nat i)
    | "respEos", [c] => .respEos (unhex (str c))
    | "respEnd", [e] => .respEnd (parseErr (str e))
    | _, _ => .canceled
  | [] => .canceled

def hdrsJson (h : List (String × List String)) : Json :=
  Json.arr (h.map (fun p => Json.arr #[p.1, toJson p.2])).toArray

def parseHdrs (j : Json) : List (String × List String) :=
  (arr j).map (fun p => match arr p with
    | [k, vs] => (str k, strList vs)
    | _ => ("", []))

def obsJson (o : Obs) : Json :=
  Json.mkObj [("name", o.name), ("method", o.method), ("scheme", o.scheme), ("authority", o.authority),
    ("path", o.path), ("query", o.query), ("fq", o.forceQuery), ("headers", hdrsJson o.headers),
    ("hasResp", o.hasResp), ("status", toJson o.status), ("respHeaders", hdrsJson o.respHeaders),
    ("respTrailers", hdrsJson o.respTrailers), ("err", errStr o.err),
    ("events", Json.arr (o.events.map oevJson).toArray)]

def parseObs (j : Json) : Obs :=
  { name := str (field j "name"), method := str (field j "method"), scheme := str (field j "scheme"),
    authority := str (field j "authority"), path := str (field j "path"), query := str (field j "query"),
    forceQuery := bool (field j "fq"), headers := parseHdrs (field j "headers"),
    hasResp := bool (field j "hasResp"), status := nat (field j "status"),
    respHeaders := parseHdrs (field j "respHeaders"), respTrailers := parseHdrs (field j "respTrailers"),
    err := parseErr (str (field j "err")), events := (arr (field j "events")).map parseOEv }

def parseFields (j : Json) : Fields :=
  (arr j).map (fun p => match arr p with
    | [k, v] => (str k, str v)
    | _ => ("", ""))

/-- a decoded frame as the harness reports it (and the generator's abstract frames) -/
def parseFrame (j : Json) : Frame :=
  match str (field j "t") with
  | "H" => .headers (nat (field j "id")) (parseFields (field j "f")) (bool (field j "es"))
  | "D" => .data (nat (field j "id")) (unhex (str (field j "x"))) (bool (field j "es"))
  | "R" => .rst (nat (field j "id")) (nat (field j "code"))
  | "G" => .goaway (nat (field j "last")) (nat (field j "code"))
  | _ => .other

/-- canonical order of a multiset of observed traces: by name, then by serialisation -/
def sortObs (l : List Obs) : List Obs :=
  let keyed := l.map (fun o => (o.name ++ "\u0000" ++ (obsJson o).compress, o))
  (keyed.toArray.qsort (fun a b => a.1 < b.1)).toList.map (·.2)

/-! ### the decoder parameter, from the harness's table of decode units -/

/-- σ = (index of the next unit, number of table misses) -/
abbrev HP := Nat × Nat

def mkDec (tbl : Array (Bytes × Option Frame)) : Bytes → HP → Option (Frame × HP) :=
  fun b hp =>
    match tbl[hp.1]? with
    | some (b', some f) => if b' == b then some (f, (hp.1 + 1, hp.2)) else some (.other, (hp.1 + 1, hp.2 + 1))
    | some (b', none) => if b' == b then none else some (.other, (hp.1 + 1, hp.2 + 1))
    | none => some (.other, (hp.1 + 1, hp.2 + 1))

def parseUnits (j : Json) : Array (Bytes × Option Frame) :=
  ((arr j).map (fun u => (unhex (str (field u "b")), if isNull (field u "f") then none else some (parseFrame (field u "f"))))).toArray

def parseIOErr (kind tag : Json) : IOErr :=
  match str kind with
  | "eof" => .eof                       -- io.EOF itself
  | "timeout" => .timeout (str tag)
  | "deadline" => .timeout "deadline"   -- *net.OpError wrapping os.ErrDeadlineExceeded
  | "fail" => .fail (str tag)
  | _ => .ok

/-! ### calls: split the two byte strings as the script says -/

structure Cur where
  r : Nat := 0
  w : Nat := 0

def mkCalls (rbytes wbytes : Bytes) : Cur → List Json → List Call
  | _, [] => []
  | c, j :: js =>
    match arr j with
    | k :: rest =>
      match str k, rest with
      | "r", [n, kind, tag] =>
        Call.read ((rbytes.drop c.r).take (nat n)) (parseIOErr kind tag) :: mkCalls rbytes wbytes { c with r := c.r + nat n } js
      | "w", [n, kind, tag] =>
        let d := (wbytes.drop c.w).take (nat n)
        let e := parseIOErr kind tag
        Call.write d (if e == .ok then d.length else d.length / 2) e :: mkCalls rbytes wbytes { c with w := c.w + nat n } js
      | "w", [n, kind, tag, wn] =>
        let d := (wbytes.drop c.w).take (nat n)
        Call.write d (min (nat wn) d.length) (parseIOErr kind tag) :: mkCalls rbytes wbytes { c with w := c.w + nat n } js
      | "c", [kind, tag] => Call.close (parseIOErr kind tag) :: mkCalls rbytes wbytes c js
      | "t", _ => Call.timers :: mkCalls rbytes wbytes c js
      | _, _ => mkCalls rbytes wbytes c js
    | [] => mkCalls rbytes wbytes c js

/-! ### the wire events in the order the tracer gets to see them (for the spec only) -/

/-- frames of one direction with the offset at which each is complete -/
def frameEnds (start : Nat) : List (Frame × Nat) → List (Frame × Nat)
  | [] => []
  | (f, len) :: fs => (f, start + len) :: frameEnds (start + len) fs

structure WCur where
  pos : Nat := 0
  todo : List (Frame × Nat)

def advance (isReq : Bool) (c : WCur) (n : Nat) : WCur × List WEv :=
  let pos := c.pos + n
  let done := c.todo.takeWhile (fun p => p.2 ≤ pos)
  ({ pos := pos, todo := c.todo.drop done.length }, done.map (fun p => WEv.frame isReq p.1))

def ioLost (e : IOErr) (closing : Bool) : List WEv :=
  match e, closing with
  | .ok, true => [WEv.lost (.closed "")]
  | .ok, false => []
  | .timeout t, true => [WEv.lost (.closed t)]
  | .fail t, true => [WEv.lost (.closed t)]
  | .fail t, false => [WEv.lost (.io t)]
  | .timeout _, false => []
  | .eof, true => [WEv.lost (.closed "EOF")]
  | .eof, false => [WEv.lost (.io "EOF")]

def wireEvents (isServer : Bool) : WCur → WCur → List Json → List WEv
  | _, _, [] => []
  | rc, wc, j :: js =>
    match arr j with
    | k :: rest =>
      match str k, rest with
      | "r", [n, kind, tag] =>
        let a := advance isServer rc (nat n)
        a.2 ++ ioLost (parseIOErr kind tag) false ++ wireEvents isServer a.1 wc js
      | "w", n :: kind :: tag :: _ =>
        -- the whole argument of Write counts as written (see checks/C15.json), whatever the count returned
        let a := advance (!isServer) wc (nat n)
        let e := parseIOErr kind tag
        a.2 ++ (match e with | .timeout t => [WEv.lost (.io t)] | _ => ioLost e false) ++ wireEvents isServer rc a.1 js
      | "c", [kind, tag] => ioLost (parseIOErr kind tag) true ++ wireEvents isServer rc wc js
      | "t", _ => WEv.timers :: wireEvents isServer rc wc js
      | _, _ => wireEvents isServer rc wc js
    | [] => wireEvents isServer rc wc js

/-! ### judging -/

def namesOf (es : List Expect) : List String := asSet ((es.map (·.name)).filter (· != ""))

/-- the property on the delivered traces, for well-formed traffic -/
def checkTraces (isServer : Bool) (es : List Expect) (impl : List Obs) : Option String :=
  let names := namesOf es
  let spurious := impl.filter (fun o => !names.contains o.name)
  if !spurious.isEmpty then some ("trace for a test name that no stream carries: " ++ (spurious.map (·.name)).toString) else
  names.foldl (fun acc n =>
    match acc with
    | some e => some e
    | none =>
      let due := es.filter (fun e => e.name == n && e.due)
      let got := impl.filter (fun o => o.name == n)
      if got.length != due.length then
        some s!"test name {n}: {due.length} completed trace(s) due (stream ids {(due.map (·.id))}), {got.length} delivered"
      else if (due.zip got).all (fun p => traceOK isServer p.1 p.2) then none
      else some s!"test name {n}: the delivered trace does not have the stream's request line/headers, messages, response or end (stream ids {(due.map (·.id))})") none

/-- the fixed-width frame machine on the chunks of one direction ends in the state `s` -/
def widthRunAgrees (dec : Bytes → HP → Option (Frame × HP)) (isReq : Bool) (chunks : List Bytes) (s : FSt HP) : Bool :=
  let w := ((frameMachineW dec).runChunks (FStW.init isReq (0, 0)) chunks).1
  w.broken == s.broken && w.hp == s.hp && w.preface == s.preface && w.pfx == s.pfx && w.buf == s.buf &&
  w.expecting.toNat == s.expecting && w.actual.toNat == s.actual && w.typ == s.typ && w.flags == s.flags

/-- op bigframe: frames of up to 2^24-1 bytes (unknown-type frames with a filler payload between
the frames of a named stream).  The bytes are not reported; the implementation's traces are judged
by the property's predicate on the wire events of the generator's frames (lengths as built by the
real Framer) in the order the calls complete them.  What the model delivers on such calls is given
by `Props.C15.end_to_end` and, for layer 1 with the code's counters, `frame_widths_eq_frames`. -/
def handleBig (inp impl : Json) : Verdict :=
  let panic := str (field impl "panic")
  if panic != "" then { agree := false, holds := false, why := "panic: " ++ panic, cls := "panic" } else
  if bool (field impl "slow") then { agree := true, holds := true, nontrivial := false, cls := "set-aside:machine-too-slow" } else
  let isServer := bool (field inp "server")
  let iTraces := sortObs ((arr (field impl "traces")).map parseObs)
  let transparent := bool (field impl "transparent")
  let framesJ := arr (field inp "frames")
  let callsJ := arr (field inp "calls")
  let lens := natList (field impl "lens")
  let fl := (framesJ.zip lens).map (fun x => (str (field x.1 "d"), parseFrame x.1, x.2))
  let qf := frameEnds prefaceLen ((fl.filter (·.1 == "q")).map (·.2))
  let pf := frameEnds 0 ((fl.filter (·.1 == "p")).map (·.2))
  let ws := wireEvents isServer { todo := if isServer then qf else pf } { todo := if isServer then pf else qf } callsJ
  let wf := bool (field inp "legal") && wellFormed ws && lossesOK ws
  let es := expects [] ws
  let delivered := wf && deliveredOK isServer es iTraces
  let traceProblem := if wf then checkTraces isServer es iTraces else some "driver: the generated exchange is not well-formed"
  -- every announced length fits the 24 bits of the wire format, and the real Framer cut each
  -- direction into as many units as the generator wrote frames
  let lensOK := lens.all (· < 9 + 16777216)
  let nq := nat (field (field impl "nunits") "q")
  let np := nat (field (field impl "nunits") "p")
  let unitsOK := nq == qf.length && np == pf.length
  let maxLen := lens.foldl max 0
  { agree := lensOK && unitsOK && (delivered == traceProblem.isNone), holds := transparent && delivered,
    nontrivial := !(namesOf es).isEmpty && maxLen > 16384 + 9,
    model := Json.mkObj [("frames", toJson fl.length), ("longest", toJson maxLen)],
    why := if !transparent then "not transparent: " ++ str (field impl "viol")
           else match traceProblem with
             | some e => e
             | none => if !delivered then "the delivered traces do not satisfy Spec.deliveredOK"
                       else if !unitsOK then "driver: the real Framer found another number of frames than the generator wrote"
                       else if !lensOK then "driver: a frame longer than 2^24-1 bytes" else "",
    cls := if maxLen ≥ 9 + 16777215 then "frame-2^24-1" else "frame-above-16384" }

def handleConn (inp impl : Json) : Verdict :=
  let panic := str (field impl "panic")
  if panic != "" then { agree := false, holds := false, why := "panic: " ++ panic, cls := "panic" } else
  -- three times in a row the machine was so slow that the 3 s retry timer may have fired outside
  -- the script's own waits: not an observation of this script
  if bool (field impl "slow") then { agree := true, holds := true, nontrivial := false, cls := "set-aside:machine-too-slow" } else
  let isServer := bool (field inp "server")
  let q := unhex (str (field impl "q"))
  let p := unhex (str (field impl "p"))
  let rbytes := if isServer then q else p
  let wbytes := if isServer then p else q
  let uq := parseUnits (field (field impl "units") "q")
  let up := parseUnits (field (field impl "units") "p")
  let decR := mkDec (if isServer then uq else up)
  let decW := mkDec (if isServer then up else uq)
  let callsJ := arr (field inp "calls")
  let calls := mkCalls rbytes wbytes {} callsJ
  let c0 : Conn HP := Conn.init isServer (0, 0) (0, 0)
  let c := Conn.run decR decW c0 calls
  let misses := c.rd.hp.2 + c.wr.hp.2
  -- layer 1 once more with the code's own arithmetic (`expecting uint32`, `actual uint64`): the
  -- fixed-width machine ends in the state the `Nat` machine ends in (`Props.C15.frame_widths_simulate`)
  let wSim := widthRunAgrees decR isServer (calls.filterMap (fun | .read d _ => some d | _ => none)) c.rd &&
              widthRunAgrees decW (!isServer) (calls.filterMap (fun | .write d _ _ => some d | _ => none)) c.wr
  let mTraces := sortObs (c.coll.out.map Trace.obs)
  let iTraces := sortObs ((arr (field impl "traces")).map parseObs)
  let transparent := bool (field impl "transparent")
  -- the spec side
  let legal := bool (field inp "legal")
  let framesJ := arr (field inp "frames")
  let lens := natList (field impl "lens")
  let fl := (framesJ.zip lens).map (fun x => (str (field x.1 "d"), parseFrame x.1, x.2))
  let qf := frameEnds prefaceLen ((fl.filter (·.1 == "q")).map (·.2))
  let pf := frameEnds 0 ((fl.filter (·.1 == "p")).map (·.2))
  let ws := wireEvents isServer { todo := if isServer then qf else pf } { todo := if isServer then pf else qf } callsJ
  -- the hypotheses of `Props.C15.traces_ok_every_interleaving` / `end_to_end`
  let wf := legal && wellFormed ws && lossesOK ws
  let es := expects [] ws
  -- the property's predicate (`Spec.deliveredOK`, the one of the theorems) on the implementation's traces
  let delivered := !wf || deliveredOK isServer es iTraces
  let traceProblem := if wf then checkTraces isServer es iTraces else none
  let holds := transparent && delivered
  -- the wire events the theorem speaks about (layer 1 of the model on the calls) are the
  -- generator's frames in the order the calls complete them
  let modelWs := Conn.wireEvents decR decW c0 calls
  let wsAgree := !wf || modelWs == ws
  -- instance of the theorem on this run: the model's own traces satisfy the predicate
  let thmInstance := !wf || !(modelWs == ws) || deliveredOK isServer es (c.coll.out.map Trace.obs)
  -- Ill-formed traffic in which one test name is carried by several streams: when a GOAWAY or the
  -- loss of the connection closes more than one of them at once, the code completes them in Go's map
  -- iteration order (setMaxStreamIDLocked / cancelAll range over c.streams) and which trace the retry
  -- collector keeps under that name differs from run to run.  Nothing is claimed for such traffic
  -- (Spec.wellFormed excludes it); model and implementation are compared on the other names and on
  -- the number of traces per ambiguous name.
  let reqNames := (framesJ.filter (fun f => str (field f "d") == "q" && str (field f "t") == "H")).filterMap (fun f =>
    match (parseFields (field f "f")).find? (fun kv => kv.1 == "x-test-case-name") with
    | some kv => if kv.2 == "" then none else some kv.2
    | none => none)
  let dupNames := asSet (reqNames.filter (fun n => (reqNames.filter (· == n)).length > 1))
  let ambiguous := !wf && !dupNames.isEmpty
  let sameTraces :=
    if ambiguous then
      mTraces.filter (fun o => !dupNames.contains o.name) == iTraces.filter (fun o => !dupNames.contains o.name) &&
      dupNames.all (fun n => (mTraces.filter (·.name == n)).length == (iTraces.filter (·.name == n)).length)
    else mTraces == iTraces
  let agree := misses == 0 && sameTraces && wsAgree && thmInstance && wSim && (delivered == traceProblem.isNone)
  { agree := agree, holds := holds,
    nontrivial := if wf then !(namesOf es).isEmpty else !iTraces.isEmpty || c.rd.broken || c.wr.broken,
    model := Json.mkObj [("traces", Json.arr (mTraces.map obsJson).toArray), ("broken", Json.arr #[c.rd.broken, c.wr.broken]),
      ("misses", toJson misses)],
    why := if !transparent then "not transparent: " ++ str (field impl "viol")
           else match traceProblem with
             | some e => e
             | none =>
               if !delivered then "the delivered traces do not satisfy Spec.deliveredOK"
               else if misses != 0 then "driver: decode table does not match the model's framing"
               else if !wsAgree then "driver: the wire events of the model's layer 1 differ from the generator's frames"
               else if !thmInstance then "driver: the model's traces do not satisfy Spec.deliveredOK (contradicts Props.C15.end_to_end)"
               else if !wSim then "driver: layer 1 with uint32/uint64 counters ends in another state than the Nat machine (contradicts Props.C15.frame_widths_simulate)"
               else "",
    cls := if wf then (if (es.any (·.superseded)) then "wf-retry" else if es.any (fun e => e.held) then "wf-held" else "wf")
           else if ambiguous then "odd-duplicate-name" else if legal then "legal-odd" else "malformed" }

/-! ### the retry collector on its own -/

def parseRetryOp (j : Json) : COp :=
  match arr j with
  | k :: rest =>
    match str k, rest with
    | "c", [n, kind, idj] =>
      let id : Json := toJson ((str idj).toNat?.getD (nat idj))
      let err : Err := match str kind with
        | "refused" => .stream (nat id) 7
        | "goaway0" => .conn 0
        | "cancel" => .stream (nat id) 8
        | "goaway2" => .conn 2
        | "io" => .io "x"
        | _ => .none
      .complete { Trace.empty with name := str n, err := err, req := [(":method", toString (nat id))] }
    | "n", [n] => .newAttempt (str n)
    | "t", [n] => .timesUp (str n)
    | _, _ => .cancel
  | [] => .cancel

def idOf (t : Trace) : Nat := (getPseudo t.req ":method").toNat?.getD 0

def handleRetry (inp impl : Json) : Verdict :=
  if bool (field impl "slow") then { agree := true, holds := true, nontrivial := false, cls := "set-aside:machine-too-slow" } else
  let panic := str (field impl "panic")
  if panic != "" then { agree := false, holds := false, why := "panic: " ++ panic } else
  let ops := (arr (field inp "ops")).map parseRetryOp
  let names := asSet (ops.filterMap (fun | .complete t => some t.name | .newAttempt n => some n | .timesUp n => some n | .cancel => none))
  let c := Coll.init.run ops
  let implOut : List (String × List Nat) := (arr (field impl "out")).map (fun p => match arr p with
    | [n, ids] => (str n, natList ids)
    | _ => ("", []))
  let implFor (n : String) : List Nat := ((implOut.find? (·.1 == n)).map (·.2)).getD []
  let modelOut := names.map (fun n => (n, (c.outFor n).map idOf))
  let specOut := names.map (fun n => (n, (deliveriesFor n none ops).map idOf))
  let implAll := names.map (fun n => (n, implFor n))
  let extra := implOut.filter (fun p => !names.contains p.1 && !p.2.isEmpty)
  let holds := implAll == specOut && extra.isEmpty
  { agree := implAll == modelOut && extra.isEmpty, holds := holds,
    nontrivial := ops.any (fun | .complete t => t.err.retryable | _ => false),
    model := toJson (modelOut.map (fun p => Json.arr #[p.1, toJson p.2])),
    why := if holds then "" else "deliveries per test name differ from the retry rule: expected " ++ toString specOut }

/-! ### real peers over loopback: the property's predicate only (no model) -/

def liveOK (isServer : Bool) (req : Json) (traces : List Obs) : Option String :=
  let name := str (field req "name")
  let got := traces.filter (fun o => o.name == name)
  match got with
  | [t] =>
    let ct := str (field req "ct")
    let reqFields : Fields := [("content-type", ct)]
    let cfgQ : DCfg := { isReq := true, isStream := (propsOf reqFields).1, dec := (propsOf reqFields).2 }
    let cfgP : DCfg := { isReq := false, isStream := (propsOf reqFields).1, dec := (propsOf reqFields).2 }
    let reqBody := unhex (str (field req "reqBody"))
    let respBody := unhex (str (field req "respBody"))
    let path := str (field req "path")
    let big := nat (field req "big")
    let hdr (k : String) : List String := ((t.headers.find? (·.1 == k)).map (·.2)).getD []
    let side := if isServer then "server" else "client"
    if t.method != "POST" then some s!"{side} {name}: method {t.method}"
    else if (if t.query.isEmpty && !t.forceQuery then t.path else t.path ++ "?" ++ t.query) != path then some s!"{side} {name}: path"
    else if hdr "x-test-case-name" != [name] || hdr "content-type" != [ct] then some s!"{side} {name}: request headers"
    else if big > 0 && (hdr "x-big").map String.length != [big] then some s!"{side} {name}: the large request header is missing"
    else if !t.hasResp || t.status != nat (field req "status") then some s!"{side} {name}: response status"
    else if ((t.respHeaders.find? (·.1 == "content-type")).map (·.2)).getD [] != [ct] then some s!"{side} {name}: response headers"
    else if reqMsgsOf t.events != specMsgs cfgQ reqBody then some s!"{side} {name}: request messages"
    else if respMsgsOf t.events != specMsgs cfgP respBody then some s!"{side} {name}: response messages"
    else if t.events.head? != some OEv.reqStart || t.events.getLast? != some (OEv.respEnd .none) || t.err != .none then
      some s!"{side} {name}: start / end of the trace"
    else none
  | l => some s!"{if isServer then "server" else "client"}: {l.length} completed traces for test {name}, expected exactly one"

def handleLive (inp impl : Json) : Verdict :=
  let panic := str (field impl "panic")
  if panic != "" then { agree := false, holds := false, why := "panic: " ++ panic } else
  if str (field impl "err") != "" then bad ("live exchange could not be run: " ++ str (field impl "err")) else
  let reqs := arr (field inp "reqs")
  let client := (arr (field impl "client")).map parseObs
  let server := (arr (field impl "server")).map parseObs
  let problems := reqs.filterMap (fun r => liveOK false r client) ++ reqs.filterMap (fun r => liveOK true r server)
  let extra := (client ++ server).filter (fun o => !(reqs.any (fun r => str (field r "name") == o.name)))
  let holds := problems.isEmpty && extra.isEmpty
  { agree := holds, holds := holds, nontrivial := true, cls := "live",
    why := if holds then "" else (problems.head?.getD "trace for an unknown test name") }

def handle : Handler := fun op inp impl =>
  match op with
  | "conn" => handleConn inp impl
  | "bigframe" => handleBig inp impl
  | "retry" => handleRetry inp impl
  | "live" => handleLive inp impl
  | _ => bad ("C15: unknown op " ++ op)

end ConfModel.Driver.C15
