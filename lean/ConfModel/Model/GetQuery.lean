/-
The `message` query parameter of a Connect GET, from the bytes of the request message to the
bytes the server's handler receives:

  raw_request.go   `param.Base64Encode` → `base64.URLEncoding.EncodeToString`, else the bytes as
                   they are; `vals.Encode()` (`url.QueryEscape` of every value)
  net/http server  `url.ParseQuery` (`url.QueryUnescape` of every value)
  connect-go       `base64=1` → `binaryQueryValueReader` (padded or raw URL-safe base64), else the
                   value as it is
-/
import ConfModel.Model.Base64
import ConfModel.Model.Convert
namespace ConfModel.GetQuery
open ConfModel.Convert

/-- net/url `shouldEscape(c, encodeQueryComponent) = false`: letters, digits, `-` `_` `.` `~` -/
def queryPlain (b : UInt8) : Bool :=
  (0x41 ≤ b && b ≤ 0x5A) || (0x61 ≤ b && b ≤ 0x7A) || (0x30 ≤ b && b ≤ 0x39) ||
  b == 0x2D || b == 0x5F || b == 0x2E || b == 0x7E

/-- one byte as `url.QueryEscape` writes it: a space is `+`, unreserved bytes stand for
themselves, everything else is `%XX` with upper-case digits -/
def queryEscapeByte (b : UInt8) : Bytes :=
  if b == 0x20 then [0x2B]
  else if queryPlain b then [b]
  else [0x25, upperHex (b.toNat / 16), upperHex (b.toNat % 16)]

/-- `url.QueryEscape` -/
def queryEscape : Bytes → Bytes
  | [] => []
  | b :: t => queryEscapeByte b ++ queryEscape t

/-- the value of the `message` parameter as raw_request.go computes it -/
def getParam (b64 : Bool) (msg : Bytes) : Bytes := if b64 then Base64.encodeURL msg else msg

/-- the value as it stands in the request URI (after `vals.Encode()`) -/
def getWire (b64 : Bool) (msg : Bytes) : Bytes := queryEscape (getParam b64 msg)

/-- what the server makes of a parameter value (after `url.ParseQuery`) -/
def readParam (b64 : Bool) (p : Bytes) : Option Bytes := if b64 then Base64.binaryQueryRead p else some p

/-- what the server makes of the value in the URI: `url.ParseQuery`, then connect-go -/
def getRead (b64 : Bool) (wire : Bytes) : Option Bytes :=
  match queryUnescape wire with
  | none => none
  | some p => readParam b64 p

/-- bytes that end or split a `key=value` pair of a query string (`&` `=` `;` `#`) or are
reinterpreted by the parser (`+` is a space, `%` starts an escape) -/
def querySensitive (b : UInt8) : Bool :=
  b == 0x26 || b == 0x3D || b == 0x3B || b == 0x23 || b == 0x2B || b == 0x25 || b == 0x20

end ConfModel.GetQuery
