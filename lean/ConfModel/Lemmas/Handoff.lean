/-
Helper lemmas for C16 (models `ConfModel.TracerSlots`, `ConfModel.Builder`, spec `ConfModel.Handoff`).
-/
import ConfModel.Spec.Handoff
namespace ConfModel.Builder
open ConfModel.Handoff

theorem exec_dead : ∀ (ops : List Op) (s : St), s.live = false → (exec s ops).2 = [] ∧ (exec s ops).1 = s
  | [], s, _ => by simp [exec]
  | .add k id :: ops, s, h => by
    have := exec_dead ops s h
    simp [exec, step, h, this]
  | .build :: ops, s, h => by
    have := exec_dead ops s h
    simp [exec, step, h, this]

theorem exec_live : ∀ (ops : List Op) (evs : List Item) (rq rp : Nat),
    (exec ⟨true, evs, rq, rp⟩ ops).2 =
      if ops.any isCloser then [evs ++ numberFrom rq rp (kept ops)] else []
  | [], evs, rq, rp => by simp [exec]
  | .build :: ops, evs, rq, rp => by
    simp [exec, step, isCloser, kept, numberFrom, (exec_dead ops ⟨false, [], rq, rp⟩ rfl).1]
  | .add k id :: ops, evs, rq, rp => by
    cases hk : k.finishes
    · have ih := exec_live ops
      cases k <;> simp [Kind.finishes] at hk <;>
        simp [exec, step, isCloser, kept, numberFrom, Kind.finishes, ih, List.append_assoc]
    · cases k <;> simp [Kind.finishes] at hk <;>
        simp [exec, step, isCloser, kept, numberFrom, Kind.finishes,
          (exec_dead ops ⟨false, [], rq, rp⟩ rfl).1]

end ConfModel.Builder

namespace ConfModel.TracerSlots
open ConfModel.Handoff

@[simp] theorem upd_same {α β} [DecidableEq α] (f : α → β) (a : α) (b : β) : upd f a b a = b := by simp [upd]
theorem upd_other {α β} [DecidableEq α] (f : α → β) (a x : α) (b : β) (h : x ≠ a) : upd f a b x = f x := by
  simp [upd, h]

/-- generations in the map are allocated ones, and two names never share a `traceResult` -/
def WF' (tr : Name → Option Nat) (ng : Nat) : Prop :=
  (∀ n g, tr n = some g → g < ng) ∧ (∀ n1 n2 g, tr n1 = some g → tr n2 = some g → n1 = n2)

def WF (s : St) : Prop := WF' s.traces s.nextGen

theorem wf_init : WF init := by simp [WF, WF', init]

theorem wf_step (s : St) (o : Op) (h : WF s) : WF (step s o).1 := by
  obtain ⟨hb, hi⟩ := h
  cases o with
  | init m =>
    show WF' (upd s.traces m (some s.nextGen)) (s.nextGen + 1)
    refine ⟨?_, ?_⟩
    · intro n g hg
      by_cases hn : n = m
      · subst hn; simp at hg; omega
      · rw [upd_other _ _ _ _ hn] at hg; have := hb n g hg; omega
    · intro n1 n2 g h1 h2
      by_cases e1 : n1 = m <;> by_cases e2 : n2 = m
      · rw [e1, e2]
      · subst e1; rw [upd_other _ _ _ _ e2] at h2; simp at h1; have := hb n2 g h2; omega
      · subst e2; rw [upd_other _ _ _ _ e1] at h1; simp at h2; have := hb n1 g h1; omega
      · rw [upd_other _ _ _ _ e1] at h1; rw [upd_other _ _ _ _ e2] at h2; exact hi n1 n2 g h1 h2
  | clear m =>
    show WF' (upd s.traces m none) s.nextGen
    refine ⟨?_, ?_⟩
    · intro n g hg
      by_cases hn : n = m
      · subst hn; simp at hg
      · rw [upd_other _ _ _ _ hn] at hg; exact hb n g hg
    · intro n1 n2 g h1 h2
      by_cases e1 : n1 = m
      · subst e1; simp at h1
      · by_cases e2 : n2 = m
        · subst e2; simp at h2
        · rw [upd_other _ _ _ _ e1] at h1; rw [upd_other _ _ _ _ e2] at h2; exact hi n1 n2 g h1 h2
  | complete m t => exact ⟨hb, hi⟩
  | await w m => exact ⟨hb, hi⟩
  | join w => exact ⟨hb, hi⟩
  | peek w => exact ⟨hb, hi⟩
  | ctx w => exact ⟨hb, hi⟩

theorem wf_exec : ∀ (ops : List Op) (s : St), WF s → WF (exec s ops).1
  | [], _, h => h
  | o :: os, s, h => wf_exec os _ (wf_step s o h)

theorem exec_append : ∀ (a b : List Op) (s : St),
    exec s (a ++ b) = ((exec (exec s a).1 b).1, (exec s a).2 ++ (exec (exec s a).1 b).2)
  | [], b, s => by simp [exec]
  | o :: a, b, s => by simp [exec, exec_append a b]

/-- how one operation moves the result of the slot of `n` -/
def advance (n : Name) (r : Res) (o : Op) : Res :=
  match r, completesOn n o with
  | .pending, some t => .done t
  | r, _ => r

theorem completeResults_at (s : St) (n : Name) (t : Nat) (g : Nat) (ht : s.traces n = some g) :
    completeResults s n t g = match s.results g with | .pending => .done t | r => r := by
  unfold completeResults
  rw [ht]
  cases hr : s.results g <;> simp [hr]

theorem completeResults_other (s : St) (m : Name) (t : Nat) (g : Nat) (h : s.traces m ≠ some g) :
    completeResults s m t g = s.results g := by
  unfold completeResults
  cases hm : s.traces m with
  | none => rfl
  | some g' =>
    have hne : g ≠ g' := fun e => h (e ▸ hm)
    simp only
    split
    · exact upd_other _ _ _ _ hne
    · rfl

theorem step_slot (s : St) (o : Op) (n : Name) (g : Nat) (hwf : WF s) (ht : s.traces n = some g)
    (hno : touches n o = false) :
    (step s o).1.traces n = some g ∧ (step s o).1.results g = advance n (s.results g) o := by
  obtain ⟨hb, hi⟩ := hwf
  have hlt := hb n g ht
  have hid : ∀ (o : Op), completesOn n o = none → ∀ r, advance n r o = r := by
    intro o h r; cases r <;> simp [advance, h]
  cases o with
  | init m =>
    have hne : n ≠ m := by intro e; subst e; simp [touches] at hno
    show upd s.traces m (some s.nextGen) n = some g ∧ upd s.results s.nextGen .pending g = _
    rw [upd_other _ _ _ _ hne, upd_other _ _ _ _ (by omega : g ≠ s.nextGen), hid _ rfl]
    exact ⟨ht, rfl⟩
  | clear m =>
    have hne : n ≠ m := by intro e; subst e; simp [touches] at hno
    show upd s.traces m none n = some g ∧ s.results g = _
    rw [upd_other _ _ _ _ hne, hid _ rfl]
    exact ⟨ht, rfl⟩
  | complete m t =>
    show s.traces n = some g ∧ completeResults s m t g = _
    refine ⟨ht, ?_⟩
    by_cases hmn : m = n
    · subst hmn
      rw [completeResults_at s m t g ht]
      cases hr : s.results g <;> simp [advance, completesOn]
    · have hc : completesOn n (.complete m t) = none := by simp [completesOn, hmn]
      rw [hid _ hc, completeResults_other]
      intro hm; exact hmn (hi m n g hm ht)
  | await w m => exact ⟨ht, (hid _ rfl _).symm⟩
  | join w => exact ⟨ht, (hid _ rfl _).symm⟩
  | peek w => exact ⟨ht, (hid _ rfl _).symm⟩
  | ctx w => exact ⟨ht, (hid _ rfl _).symm⟩

theorem exec_slot (n : Name) (g : Nat) : ∀ (ops : List Op) (s : St), WF s → s.traces n = some g →
    (∀ o ∈ ops, touches n o = false) →
    (exec s ops).1.traces n = some g ∧ (exec s ops).1.results g = ops.foldl (advance n) (s.results g)
  | [], s, _, ht, _ => by simp [exec, ht]
  | o :: os, s, hwf, ht, hno => by
    have h1 := step_slot s o n g hwf ht (hno o (by simp))
    have ih := exec_slot n g os (step s o).1 (wf_step s o hwf) h1.1 (fun o' ho' => hno o' (by simp [ho']))
    simp only [exec, List.foldl_cons]
    rw [← h1.2]; exact ih

theorem foldl_advance_done (n : Name) (t : Nat) : ∀ ops : List Op, ops.foldl (advance n) (.done t) = .done t
  | [] => rfl
  | o :: os => by simp only [List.foldl_cons]; rw [show advance n (.done t) o = .done t by simp [advance]]; exact foldl_advance_done n t os

theorem foldl_advance_pending (n : Name) : ∀ ops : List Op,
    ops.foldl (advance n) .pending = match firstComplete n ops with | some t => .done t | none => .pending
  | [] => rfl
  | o :: os => by
    simp only [List.foldl_cons, firstComplete, List.filterMap_cons]
    cases hc : completesOn n o with
    | none =>
      have : advance n .pending o = .pending := by simp [advance, hc]
      rw [this]; exact foldl_advance_pending n os
    | some t =>
      have : advance n .pending o = .done t := by simp [advance, hc]
      rw [this, foldl_advance_done]; simp

theorem step_waiter (s : St) (o : Op) (w : Nat) (h : usesWaiter w o = false) :
    (step s o).1.waiters w = s.waiters w := by
  cases o with
  | init m => rfl
  | clear m => rfl
  | complete m t => rfl
  | await v m =>
    have hne : w ≠ v := by intro e; subst e; simp [usesWaiter] at h
    show awaitWaiters s v m w = _
    unfold awaitWaiters
    cases awaitTarget s v m with
    | none => rfl
    | some g => exact upd_other _ _ _ _ hne
  | join v =>
    have hne : w ≠ v := by intro e; subst e; simp [usesWaiter] at h
    show joinWaiters s v w = _
    unfold joinWaiters
    cases joinDone s v with
    | false => rfl
    | true => exact upd_other _ _ _ _ hne
  | peek v =>
    have hne : w ≠ v := by intro e; subst e; simp [usesWaiter] at h
    show joinWaiters s v w = _
    unfold joinWaiters
    cases joinDone s v with
    | false => rfl
    | true => exact upd_other _ _ _ _ hne
  | ctx v =>
    have hne : w ≠ v := by intro e; subst e; simp [usesWaiter] at h
    exact upd_other _ _ _ _ hne

theorem exec_waiter (w : Nat) : ∀ (ops : List Op) (s : St), (∀ o ∈ ops, usesWaiter w o = false) →
    (exec s ops).1.waiters w = s.waiters w
  | [], _, _ => rfl
  | o :: os, s, h => by
    simp only [exec]
    rw [exec_waiter w os _ (fun o' ho' => h o' (by simp [ho'])), step_waiter s o w (h o (by simp))]

end ConfModel.TracerSlots
