/-
Helper lemmas about the server-batch model (for Props/C11.lean).
-/
import ConfModel.Spec.ServerRunner
namespace ConfModel.ServerRunner
open Spec

def keys (l : List (Nat × Class)) : List Nat := l.map (·.1)

/-- number of `setOutcome` calls for case j -/
def cnt (l : List (Nat × Class)) (j : Nat) : Nat := (keys l).count j

theorem cnt_append (a b : List (Nat × Class)) (j : Nat) : cnt (a ++ b) j = cnt a j + cnt b j := by
  simp [cnt, keys]

theorem cnt_nil (j : Nat) : cnt [] j = 0 := rfl

theorem cnt_single (i j : Nat) (c : Class) : cnt [(i, c)] j = if i = j then 1 else 0 := by
  simp [cnt, keys, List.count_cons]

theorem keys_marks (i n : Nat) (c : Class) : keys (marks i n c) = List.range' i n := by
  simp [keys, marks, List.map_map, Function.comp_def]

theorem count_range' (n : Nat) : ∀ (i j : Nat), (List.range' i n).count j = if i ≤ j ∧ j < i + n then 1 else 0 := by
  induction n with
  | zero => intro i j; simp
  | succ n ih =>
    intro i j
    rw [List.range'_succ, List.count_cons, ih]
    by_cases h : i = j
    · subst h
      have h1 : ¬ (i + 1 ≤ i ∧ i < i + 1 + n) := by omega
      have h2 : (i ≤ i ∧ i < i + (n + 1)) := by omega
      simp [h1, h2]
    · have hb : (i == j) = false := by simpa using h
      simp only [hb]
      by_cases h1 : i + 1 ≤ j ∧ j < i + 1 + n
      · have h2 : i ≤ j ∧ j < i + (n + 1) := by omega
        simp [h1, h2]
      · have h2 : ¬ (i ≤ j ∧ j < i + (n + 1)) := by omega
        simp [h1, h2]

theorem cnt_marks (i n j : Nat) (c : Class) : cnt (marks i n c) j = if i ≤ j ∧ j < i + n then 1 else 0 := by
  rw [cnt, keys_marks, count_range']

def LoopEnd.all : LoopEnd → List (Nat × Class)
  | .crashed l a => l ++ a
  | .finished l a => l ++ a

/-- the keys of `l` are exactly the cases below `i`, once each -/
def Covers (i : Nat) (l : List (Nat × Class)) : Prop := ∀ j, cnt l j = if j < i then 1 else 0

theorem covers_marks (i n : Nat) (c : Class) (log asy : List (Nat × Class)) (h : Covers i (log ++ asy)) :
    Covers (i + n) ((log ++ marks i n c) ++ asy) := by
  intro j
  have := h j
  simp only [cnt_append, cnt_marks] at this ⊢
  grind

theorem covers_single (i : Nat) (c : Class) (a b d : List (Nat × Class)) (h : Covers i (a ++ d))
    (hb : b = [(i, c)]) (pos : Bool) :
    Covers (i + 1) (if pos then (a ++ b) ++ d else a ++ (d ++ b)) := by
  intro j
  have := h j
  subst hb
  cases pos <;> simp only [Bool.false_eq_true, if_false, if_true, cnt_append, cnt_single] at this ⊢ <;> grind

theorem covers_of_loop (dies : Option Nat) (cs : List Case) :
    ∀ (i : Nat) (log asy : List (Nat × Class)), Covers i (log ++ asy) →
      Covers (i + cs.length) (sendLoop dies i cs log asy).all := by
  induction cs with
  | nil => intro i log asy h; simpa [sendLoop, LoopEnd.all] using h
  | cons c rest ih =>
    intro i log asy h
    simp only [sendLoop, List.length_cons]
    split
    · exact covers_marks i _ .setup log asy h
    · cases c with
      | refuse => exact covers_marks i _ .norun log asy h
      | answer k a =>
        rw [show i + (rest.length + 1) = i + 1 + rest.length by omega]
        cases a with
        | false =>
          exact ih (i + 1) _ _ (by simpa using covers_single i (verdict k) log _ asy h rfl true)
        | true =>
          exact ih (i + 1) _ _ (by simpa using covers_single i (verdict k) log _ asy h rfl false)

theorem failRemaining_nil (n : Nat) (log : List (Nat × Class)) (h : Covers n log) : failRemaining n log = [] := by
  unfold failRemaining
  simp only [List.map_eq_nil_iff, List.filter_eq_nil_iff, List.mem_range]
  intro j hj
  have := h j
  simp only [hj, if_true, cnt] at this
  have hm : j ∈ keys log := List.count_pos_iff.mp (by omega)
  simpa [keys] using hm

theorem mem_marks (i n j : Nat) (c : Class) (h1 : i ≤ j) (h2 : j < i + n) : (j, c) ∈ marks i n c := by
  simp only [marks, List.mem_map, List.mem_range'_1]
  exact ⟨j, ⟨h1, h2⟩, rfl⟩

theorem mem_marks_class (i n : Nat) (c : Class) (e : Nat × Class) (h : e ∈ marks i n c) : e.2 = c := by
  simp only [marks, List.mem_map] at h
  obtain ⟨j, _, rfl⟩ := h
  rfl

/-- what was logged before stays logged -/
theorem loop_mono (dies : Option Nat) (cs : List Case) :
    ∀ (i : Nat) (log asy : List (Nat × Class)) (e : Nat × Class), e ∈ log ++ asy →
      e ∈ (sendLoop dies i cs log asy).all := by
  induction cs with
  | nil => intro i log asy e h; simpa [sendLoop, LoopEnd.all] using h
  | cons c rest ih =>
    intro i log asy e h
    simp only [sendLoop]
    have hm : ∀ m : List (Nat × Class), e ∈ (log ++ m) ++ asy := by
      intro m; simp only [List.mem_append] at h ⊢; rcases h with h | h <;> simp [h]
    split
    · exact hm _
    · cases c with
      | refuse => exact hm _
      | answer k a =>
        cases a with
        | false => exact ih _ _ _ _ (hm _)
        | true => exact ih _ _ _ _ (by simp only [List.mem_append] at h ⊢; rcases h with h | h <;> simp [h])

/-- a case handed to the client is logged with the verdict of its own answer -/
theorem loop_answered (dies : Option Nat) (cs : List Case) :
    ∀ (i : Nat) (log asy : List (Nat × Class)) (j : Nat) (k : Kind) (a : Bool),
      i ≤ j → j < stopIdx dies i cs → cs[j - i]? = some (.answer k a) →
      (j, verdict k) ∈ (sendLoop dies i cs log asy).all := by
  induction cs with
  | nil => intro i log asy j k a h1 h2; simp [stopIdx] at h2; omega
  | cons c rest ih =>
    intro i log asy j k a h1 h2 h3
    simp only [stopIdx] at h2
    simp only [sendLoop]
    split at h2
    · omega
    · rename_i hd
      simp only [hd]
      split at h2
      · omega
      · rename_i hr
        cases c with
        | refuse => simp at hr
        | answer k' a' =>
          by_cases hj : j = i
          · subst hj
            simp only [Nat.sub_self, List.getElem?_cons_zero, Option.some.injEq, Case.answer.injEq] at h3
            obtain ⟨rfl, rfl⟩ := h3
            cases a' with
            | false => exact loop_mono _ _ _ _ _ _ (by simp)
            | true => exact loop_mono _ _ _ _ _ _ (by simp)
          · have h3' : rest[j - (i + 1)]? = some (.answer k a) := by
              have : j - i = (j - (i + 1)) + 1 := by omega
              rw [this, List.getElem?_cons_succ] at h3; exact h3
            cases a' with
            | false => exact ih _ _ _ j k a (by omega) h2 h3'
            | true => exact ih _ _ _ j k a (by omega) h2 h3'

/-- every case from the stop index on is marked: set-up error if the server died, could-not-run
if the client refused -/
theorem loop_after (dies : Option Nat) (cs : List Case) :
    ∀ (i : Nat) (log asy : List (Nat × Class)) (j : Nat),
      stopIdx dies i cs ≤ j → j < i + cs.length →
      (j, if dead dies (stopIdx dies i cs) then Class.setup else Class.norun) ∈ (sendLoop dies i cs log asy).all := by
  induction cs with
  | nil => intro i log asy j h1 h2; simp [stopIdx] at h1 h2; omega
  | cons c rest ih =>
    intro i log asy j h1 h2
    simp only [stopIdx] at h1 ⊢
    simp only [sendLoop]
    simp only [List.length_cons] at h2
    split
    · rename_i hd
      simp only [hd, if_true] at h1 ⊢
      simp only [LoopEnd.all, List.mem_append]
      exact Or.inl (Or.inr (mem_marks i _ j .setup h1 h2))
    · rename_i hd
      simp only [hd] at h1 ⊢
      cases c with
      | refuse =>
        simp only [beq_self_eq_true, if_true] at h1 ⊢
        simp only [hd, LoopEnd.all, List.mem_append]
        exact Or.inl (Or.inr (mem_marks i _ j .norun h1 h2))
      | answer k a =>
        have hne : (Case.answer k a == Case.refuse) = false := by simp
        simp only [hne] at h1 ⊢
        cases a with
        | false => exact ih _ _ _ j h1 (by omega)
        | true => exact ih _ _ _ j h1 (by omega)

theorem stopIdx_le (dies : Option Nat) (cs : List Case) : ∀ i, stopIdx dies i cs ≤ i + cs.length := by
  induction cs with
  | nil => intro i; simp [stopIdx]
  | cons c rest ih =>
    intro i
    simp only [stopIdx, List.length_cons]
    split
    · omega
    · split
      · omega
      · have := ih (i + 1); omega

theorem stopIdx_ge (dies : Option Nat) (cs : List Case) : ∀ i, i ≤ stopIdx dies i cs := by
  induction cs with
  | nil => intro i; simp [stopIdx]
  | cons c rest ih =>
    intro i
    simp only [stopIdx]
    split
    · omega
    · split
      · omega
      · have := ih (i + 1); omega

/-- with exactly one entry for j, the class of that entry is determined -/
theorem unique_of_cnt_one (l : List (Nat × Class)) (j : Nat) (c1 c2 : Class)
    (h : cnt l j = 1) (h1 : (j, c1) ∈ l) (h2 : (j, c2) ∈ l) : c1 = c2 := by
  induction l with
  | nil => simp at h1
  | cons e t ih =>
    have hc : cnt (e :: t) j = (if e.1 = j then 1 else 0) + cnt t j := by
      simp only [cnt, keys, List.map_cons, List.count_cons]
      by_cases he : e.1 = j <;> simp [he] <;> omega
    rw [hc] at h
    have hpos : ∀ c, (j, c) ∈ t → 0 < cnt t j := by
      intro c hm
      simp only [cnt, keys]
      exact List.count_pos_iff.mpr (List.mem_map.mpr ⟨(j, c), hm, rfl⟩)
    simp only [List.mem_cons] at h1 h2
    rcases h1 with h1 | h1 <;> rcases h2 with h2 | h2
    · rw [← h1] at h2; exact (Prod.mk.inj h2).2.symm ▸ rfl
    · have := hpos c2 h2; subst h1; simp at h; omega
    · have := hpos c1 h1; subst h2; simp at h; omega
    · by_cases he : e.1 = j
      · have := hpos c1 h1; simp [he] at h; omega
      · simp only [he, if_false, Nat.zero_add] at h; exact ih h h1 h2

theorem runBatch_log_fault (s : Script) (h : setupFault s = true) :
    (runBatch s).log = marks 0 s.cases.length .setup := by
  unfold runBatch
  simp only [setupFault, Bool.or_eq_true] at h
  by_cases h1 : s.startErr = true
  · simp [h1]
  · simp only [h1, Bool.false_eq_true, if_false]
    by_cases h2 : s.writeErr = true
    · simp [h2]
    · simp only [h2, Bool.false_eq_true, if_false]
      by_cases h3 : s.closeErr = true
      · simp [h3]
      · simp only [h3, Bool.false_eq_true, if_false]
        cases hr : respCert s.resp with
        | none => simp
        | some cert =>
          have h4 : (s.useTLS && !cert) = true := by
            rcases h with ((h | h) | h) | h
            · exact absurd h h1
            · exact absurd h h2
            · exact absurd h h3
            · simpa [hr] using h
          simp [h4]

theorem runBatch_log_ok (s : Script) (h : setupFault s = false) :
    (runBatch s).log = (sendLoop s.dies 0 s.cases [] []).all := by
  unfold runBatch
  simp only [setupFault, Bool.or_eq_false_iff] at h
  obtain ⟨⟨⟨h1, h2⟩, h3⟩, h4⟩ := h
  simp only [h1, h2, h3, Bool.false_eq_true, if_false]
  cases hr : respCert s.resp with
  | none => simp [hr] at h4
  | some cert =>
    simp only [hr] at h4
    simp only [h4, Bool.false_eq_true, if_false]
    have hc := covers_of_loop s.dies s.cases 0 [] [] (by intro j; simp [cnt, keys])
    cases hl : sendLoop s.dies 0 s.cases [] [] with
    | crashed l a => simp [LoopEnd.all]
    | finished l a =>
      simp only [hl, LoopEnd.all, Nat.zero_add] at hc
      simp [LoopEnd.all, failRemaining_nil _ _ hc]

theorem runBatch_covers (s : Script) : Covers s.cases.length (runBatch s).log := by
  cases h : setupFault s with
  | true =>
    rw [runBatch_log_fault s h]
    intro j
    rw [cnt_marks]
    simp
  | false =>
    rw [runBatch_log_ok s h]
    simpa using covers_of_loop s.dies s.cases 0 [] [] (by intro j; simp [cnt, keys])

/-! ### stderr attribution -/

theorem splitSep_sep (r : List Char) : splitSep (':' :: ' ' :: r) = some ([], r) := by
  simp [splitSep]

theorem splitSep_cons (c : Char) (rest : List Char) (h : ¬ (c = ':' ∧ rest.head? = some ' ')) :
    splitSep (c :: rest) = (splitSep rest).map (fun p => (c :: p.1, p.2)) := by
  conv => lhs; unfold splitSep
  split
  · rename_i heq
    simp at heq
  · rename_i r heq
    simp only [List.cons.injEq] at heq
    obtain ⟨rfl, rfl⟩ := heq
    simp at h
  · rename_i c' rest' hne heq
    simp only [List.cons.injEq] at heq
    obtain ⟨rfl, rfl⟩ := heq
    cases hs : splitSep rest with
    | none => simp
    | some p => simp

theorem splitSep_eq (t a b : List Char) (h : splitSep t = some (a, b)) : t = a ++ ':' :: ' ' :: b := by
  induction t generalizing a with
  | nil => simp [splitSep] at h
  | cons c rest ih =>
    by_cases hc : c = ':' ∧ rest.head? = some ' '
    · obtain ⟨rfl, hh⟩ := hc
      cases rest with
      | nil => simp at hh
      | cons d r =>
        simp at hh; subst hh
        rw [splitSep_sep] at h
        simp at h; obtain ⟨rfl, rfl⟩ := h; rfl
    · rw [splitSep_cons c rest hc] at h
      cases hs : splitSep rest with
      | none => simp [hs] at h
      | some p =>
        simp [hs] at h
        obtain ⟨rfl, rfl⟩ := h
        have := ih p.1 (by rw [hs])
        rw [this]; simp

theorem splitSep_append (nm r : List Char) (h : splitSep nm = none) :
    splitSep (nm ++ ':' :: ' ' :: r) = some (nm, r) := by
  induction nm with
  | nil => exact splitSep_sep r
  | cons c nm' ih =>
    by_cases hc : c = ':' ∧ nm'.head? = some ' '
    · obtain ⟨rfl, hh⟩ := hc
      cases nm' with
      | nil => simp at hh
      | cons d r' => simp at hh; subst hh; rw [splitSep_sep] at h; simp at h
    · rw [splitSep_cons c nm' hc] at h
      have hn : splitSep nm' = none := by
        cases hs : splitSep nm' with
        | none => rfl
        | some p => simp [hs] at h
      have hc' : ¬ (c = ':' ∧ (nm' ++ ':' :: ' ' :: r).head? = some ' ') := by
        intro ⟨h1, h2⟩
        cases nm' with
        | nil => simp at h2
        | cons d r' => simp at h2; exact hc ⟨h1, by simp [h2]⟩
      rw [List.cons_append, splitSep_cons c _ hc', ih hn]; rfl

/-- the candidate test of `feedbackOf` for one name -/
def cand (t nm : List Char) : Option (List Char × List Char) :=
  if (nm ++ [':', ' ']).isPrefixOf t then some (nm, t.drop (nm.length + 2)) else none

theorem feedbackOf_eq (names : List (List Char)) (l : List Char) :
    feedbackOf names l = names.findSome? (cand (trim l)) := rfl

theorem cand_some (t nm : List Char) (x : List Char × List Char) (hn : noSep nm = true)
    (h : cand t nm = some x) : splitSep t = some x := by
  unfold cand at h
  split at h
  · rename_i hp
    rw [List.isPrefixOf_iff_prefix] at hp
    obtain ⟨r, rfl⟩ := hp
    injection h with h
    subst h
    have : (nm ++ [':', ' '] ++ r).drop (nm.length + 2) = r := by
      rw [show nm.length + 2 = (nm ++ [':', ' ']).length by simp]
      exact List.drop_left
    rw [this]
    have := splitSep_append nm r (by simpa [noSep] using hn)
    simpa using this
  · cases h

theorem cand_self (t a b : List Char) (h : splitSep t = some (a, b)) : cand t a = some (a, b) := by
  have ht := splitSep_eq t a b h
  unfold cand
  have hp : (a ++ [':', ' ']).isPrefixOf t = true := by
    rw [List.isPrefixOf_iff_prefix]; exact ⟨b, by rw [ht]; simp⟩
  simp only [hp, if_true]
  have : t.drop (a.length + 2) = b := by
    rw [ht, show a.length + 2 = (a ++ [':', ' ']).length by simp,
      show a ++ ':' :: ' ' :: b = (a ++ [':', ' ']) ++ b by simp]
    exact List.drop_left
  rw [this]

theorem findSome_unique {α β : Type} (f : α → Option β) (v : β) (l : List α)
    (h1 : ∀ a ∈ l, ∀ x, f a = some x → x = v) (h2 : ∃ a ∈ l, f a = some v) : l.findSome? f = some v := by
  induction l with
  | nil => obtain ⟨a, ha, _⟩ := h2; simp at ha
  | cons a t ih =>
    simp only [List.findSome?_cons]
    cases hf : f a with
    | some x => simp [h1 a (by simp) x hf]
    | none =>
      simp only
      apply ih (fun a' ha' => h1 a' (by simp [ha']))
      obtain ⟨a', ha', hv⟩ := h2
      simp only [List.mem_cons] at ha'
      rcases ha' with rfl | ha'
      · rw [hf] at hv; cases hv
      · exact ⟨a', ha', hv⟩

theorem lineAct_spec (names : List (List Char)) (hn : ∀ nm ∈ names, noSep nm = true) (l : List Char) :
    lineAct names l =
      if blank l then .skip
      else match feedbackOf names l with
        | some (a, b) => .record a b
        | none => .forward l := by
  unfold lineAct blank
  simp only
  split
  · rfl
  · rw [feedbackOf_eq]
    cases hs : splitSep (trim l) with
    | none =>
      have : names.findSome? (cand (trim l)) = none := by
        rw [List.findSome?_eq_none_iff]
        intro nm hm
        cases hc : cand (trim l) nm with
        | none => rfl
        | some x => have := cand_some _ _ x (hn nm hm) hc; rw [hs] at this; cases this
      simp [this]
    | some p =>
      obtain ⟨a, b⟩ := p
      simp only
      by_cases ha : a ∈ names
      · have : names.findSome? (cand (trim l)) = some (a, b) := by
          apply findSome_unique
          · intro nm hm x hx
            have := cand_some _ _ x (hn nm hm) hx
            rw [hs] at this; injection this with this; exact this.symm
          · exact ⟨a, ha, cand_self _ _ _ hs⟩
        simp [this, ha]
      · have : names.findSome? (cand (trim l)) = none := by
          rw [List.findSome?_eq_none_iff]
          intro nm hm
          cases hc : cand (trim l) nm with
          | none => rfl
          | some x =>
            have h1 := cand_some _ _ x (hn nm hm) hc
            rw [hs] at h1; injection h1 with h1; subst h1
            unfold cand at hc
            split at hc
            · injection hc with hc
              have : nm = a := congrArg Prod.fst hc
              exact absurd (this ▸ hm) ha
            · cases hc
        simp [this, ha]

theorem processLines_spec (names : List (List Char)) (hn : ∀ nm ∈ names, noSep nm = true) (ls : List (List Char)) :
    processLines names ls = (expectForwarded names ls, expectRecords names ls) := by
  induction ls with
  | nil => rfl
  | cons l t ih =>
    simp only [processLines, ih, lineAct_spec names hn l, expectForwarded, expectRecords,
      List.filter_cons, List.filterMap_cons]
    by_cases hb : blank l = true
    · have : feedbackOf names l = none := by
        rw [feedbackOf_eq, List.findSome?_eq_none_iff]
        intro nm _
        unfold cand
        have : trim l = [] := by simpa [blank] using hb
        simp [this]
      simp [hb, this]
    · simp only [hb, Bool.false_eq_true, if_false]
      cases hf : feedbackOf names l with
      | none => simp
      | some p => obtain ⟨a, b⟩ := p; simp

/-- cutting the stream into `ReadString` results loses nothing -/
theorem splitLines_flatten (t : List Char) : ∀ acc, (splitLines t acc).flatten = acc.reverse ++ t := by
  induction t with
  | nil =>
    intro acc
    simp only [splitLines]
    split
    · rename_i h; simp [List.isEmpty_iff.mp h]
    · simp
  | cons c rest ih =>
    intro acc
    simp only [splitLines]
    split
    · simp [ih]
    · rw [ih]; simp

/-! ### in-process process controller: times of the liveness tests -/

theorem takeWhile_len_gt (t : Nat) : ∀ (checks : List Nat) (i c : Nat), checks.Pairwise (· ≤ ·) →
    checks[i]? = some c → c < t → i < (checks.takeWhile (· < t)).length := by
  intro checks
  induction checks with
  | nil => intro i c _ h; simp at h
  | cons x xs ih =>
    intro i c hp hc hlt
    rw [List.pairwise_cons] at hp
    cases i with
    | zero =>
      simp at hc; subst hc
      simp [List.takeWhile_cons, hlt]
    | succ j =>
      rw [List.getElem?_cons_succ] at hc
      have hmem : c ∈ xs := List.mem_of_getElem? hc
      have hx : x < t := Nat.lt_of_le_of_lt (hp.1 c hmem) hlt
      have := ih j c hp.2 hc hlt
      simp [List.takeWhile_cons, hx]
      omega

theorem takeWhile_len_le (t : Nat) : ∀ (checks : List Nat) (i c : Nat),
    checks[i]? = some c → t ≤ c → (checks.takeWhile (· < t)).length ≤ i := by
  intro checks
  induction checks with
  | nil => intro i c h; simp at h
  | cons x xs ih =>
    intro i c hc hle
    cases i with
    | zero =>
      simp at hc; subst hc
      have : ¬ x < t := by omega
      simp [List.takeWhile_cons, this]
    | succ j =>
      rw [List.getElem?_cons_succ] at hc
      have := ih j c hc hle
      by_cases hx : x < t
      · simp [List.takeWhile_cons, hx]; omega
      · simp [List.takeWhile_cons, hx]

/-- without a dead server and without a refusal the send loop hands out every case -/
theorem stopIdx_all (cs : List Case) : ∀ (b : Nat), (∀ c ∈ cs, c ≠ Case.refuse) →
    stopIdx none b cs = b + cs.length := by
  induction cs with
  | nil => intro b _; simp [stopIdx]
  | cons c rest ih =>
    intro b h
    have hc : c ≠ Case.refuse := h c (by simp)
    have hc' : (c == Case.refuse) = false := by simpa using hc
    simp only [stopIdx, dead, Bool.false_eq_true, if_false, hc']
    rw [ih (b + 1) (fun c' hm => h c' (by simp [hm]))]
    simp; omega

end ConfModel.ServerRunner
